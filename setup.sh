#!/bin/sh
# setup_cmd: build the whole Coq development (full .vo) and the extracted model
# runner from files on disk only.  Offline.
set -e
cd "$(dirname "$0")"
export PYTHONDONTWRITEBYTECODE=1 PYTHONHASHSEED=0
REPO="${VERIF_REPO:-/repo}"
mkdir -p bin .work replays evidence coq/Gen
/venv/bin/python tools/gen_tables.py "$REPO" coq/Gen/Generated.v
cd coq
coq_makefile -f _CoqProject -o Makefile >/dev/null
timeout 3000 make -j16 2>&1 | tail -15
cd Extract
timeout 600 coqc -R .. Tx Extract.v
timeout 600 ocamlfind ocamlopt -O3 -w -a modelrun_core.mli modelrun_core.ml driver.ml -o ../../bin/modelrun
echo '(18 "612e62")' | ../../bin/modelrun
echo setup ok
