# C10 plug-in for gen_tables.py: the error names the incoming-call dispatcher of the tree
# under test puts on its replies, probed behaviourally (the names are string literals inside
# DBusObjectHandler.handleMethodCallMessage).  Order: UnknownObject, UnknownMethod,
# InvalidArgs, the prefix for exceptions without dbusErrorName, the substitute for an
# invalid error name.  Fails closed.


def _c10_dispatch_error_names():
    from txdbus import objects as _objects, message as _message
    from txdbus.interface import DBusInterface as _DBusInterface, Method as _Method

    class _Conn(object):
        def __init__(self):
            self.sent = []

        def sendMessage(self, m):
            self.sent.append(m)

    _iface = _DBusInterface('org.vf.I', _Method('M', 'i', ''), noRegister=True)
    _plan = {}

    class _O(_objects.DBusObject):
        dbusInterfaces = [_iface]

        def dbus_M(self, x):
            raise _plan['exc']

    _conn = _Conn()
    _h = _objects.DBusObjectHandler(_conn)
    _h.exportObject(_O('/o'))

    def _ask(path, member, sig, body, exc=None):
        _plan['exc'] = exc
        del _conn.sent[:]
        mc = _message.MethodCallMessage(path, member, signature=sig, body=body)
        m = _message.parseMessage(mc.rawMessage, [])
        _h.handleMethodCallMessage(m)
        if len(_conn.sent) != 1:
            raise ValueError('%d replies' % len(_conn.sent))
        return _conn.sent[0].error_name

    _kx = type('Kx', (Exception,), {})('t')
    _bad = type('Ky', (Exception,), {'dbusErrorName': 'not a valid name'})('t')
    _pre = _ask('/o', 'M', 'i', [1], _kx)
    if not _pre.endswith('Kx'):
        raise ValueError(_pre)
    names = [_ask('/zz', 'M', 'i', [1]), _ask('/o', 'Nope', None, None), _ask('/o', 'M', None, None),
             _pre[:-2], _ask('/o', 'M', 'i', [1], _bad)]
    return coq_list([coq_str(n) for n in names])


item('dispatch_error_names', 'list (list N)', _c10_dispatch_error_names)
