#!/venv/bin/python
"""seed_verify.py <Cxx> <dir-with-patch.diff+demo.py> [<name>] [--props C01,C02]

Confirms a seeded change (a sub-agent's proposal) and runs the checks against it:
  1. scratch worktree of /repo HEAD under /tmp/sv-<pid>; demo passes on it (exit 0);
  2. patch applies; repo tests still give the pristine result (164 passed / 3 failed);
  3. demo fails with the patch;
  4. ./check <prop> --tier quick with VERIF_REPO=<scratch> for each property (default: the one given);
     records exit status, VIOLATION lines and the replay kind.
If everything is confirmed and <name> is given, the change is kept as /verif/seeded/<name>/
(patch.diff, demo.py, notes.md if present, meta.json).  The scratch worktree is always removed.
"""
import json
import os
import re
import shutil
import subprocess
import sys
import time

VERIF = '/verif'
# SEED_VERIF_HOME: a private copy of /verif to run the checks in (parallel verification); results are still kept in /verif/seeded
RUN = os.environ.get('SEED_VERIF_HOME', VERIF)


def sh(cmd, cwd=None, timeout=3000, env=None):
    e = dict(os.environ)
    e.update(env or {})
    p = subprocess.run(cmd, shell=True, cwd=cwd, stdout=subprocess.PIPE, stderr=subprocess.STDOUT, timeout=timeout, env=e)
    return p.returncode, p.stdout.decode('utf-8', 'replace')


def main():
    args = [a for a in sys.argv[1:] if not a.startswith('--')]
    opts = [a for a in sys.argv[1:] if a.startswith('--')]
    prop, d = args[0], os.path.abspath(args[1])
    name = args[2] if len(args) > 2 else None
    props = [prop]
    for o in opts:
        if o.startswith('--props='):
            props = o.split('=', 1)[1].split(',')
    tier = 'quick'
    for o in opts:
        if o.startswith('--tier='):
            tier = o.split('=', 1)[1]
    patch = os.path.join(d, 'patch.diff')
    demo = os.path.join(d, 'demo.py')
    sv = '/tmp/sv-%d' % os.getpid()
    out = {'property': prop, 'source_dir': d, 'at': time.strftime('%Y-%m-%dT%H:%M:%SZ', time.gmtime())}
    sh('git -C /repo worktree add --detach %s HEAD' % sv)
    try:
        env = {'PYTHONPATH': sv, 'PYTHONDONTWRITEBYTECODE': '1', 'PYTHONHASHSEED': '0'}
        rc, o = sh('/venv/bin/python %s' % demo, cwd=d, env=env, timeout=600)
        out['demo_pristine_rc'] = rc
        rc, o = sh('git apply %s' % patch, cwd=sv)
        out['patch_applies'] = rc == 0
        if rc != 0:
            out['apply_error'] = o[-500:]
        rc, o = sh('/venv/bin/python -m pytest -q -p no:cacheprovider --timeout=900 2>&1 | tail -3', cwd=sv, env={'PYTHONDONTWRITEBYTECODE': '1'})
        m = re.search(r'(\d+) failed, (\d+) passed', o)
        if not (m and m.group(1) == '3' and m.group(2) == '164'):
            # test_bad_command / the cookie tests share ~/.dbus-keyrings and flake when several suites run at once: once more
            rc, o = sh('/venv/bin/python -m pytest -q -p no:cacheprovider --timeout=900 2>&1 | tail -3', cwd=sv, env={'PYTHONDONTWRITEBYTECODE': '1'})
            m = re.search(r'(\d+) failed, (\d+) passed', o)
        out['tests'] = m.group(0) if m else o[-200:]
        out['tests_ok'] = bool(m and m.group(1) == '3' and m.group(2) == '164')
        rc, o = sh('/venv/bin/python %s' % demo, cwd=d, env=env, timeout=600)
        out['demo_patched_rc'] = rc
        out['demo_patched_tail'] = o[-400:]
        out['confirmed'] = bool(out['demo_pristine_rc'] == 0 and out['patch_applies'] and out['tests_ok'] and out['demo_patched_rc'] != 0)
        out['checks'] = {}
        for p in props:
            t0 = time.time()
            rc, o = sh('./check %s --tier %s' % (p, tier), cwd=RUN, env={'VERIF_REPO': sv}, timeout=7200)
            viol = re.findall(r'^VIOLATION .*$', o, re.M)
            kinds = []
            for v in viol:
                kinds.append('no-failing-input-found' if v.endswith('no-failing-input-found') else 'failing-input')
            last = o.strip().split('\n')[-1]
            out['checks'][p] = {'exit': rc, 'violations': viol[:5], 'kinds': kinds[:5], 'summary': last[:300], 'wall_s': round(time.time() - t0, 1)}
        out['detected_by'] = [p for p, c in out['checks'].items() if c['exit'] != 0]
    finally:
        sh('git -C /repo worktree remove --force %s' % sv)
        # regenerate tables for the real tree so the next run starts clean
        sh('/venv/bin/python %s/tools/gen_tables.py /repo %s/coq/Gen/Generated.v' % (RUN, RUN))
    print(json.dumps(out, indent=1))
    if name and out.get('confirmed'):
        dst = os.path.join(VERIF, 'seeded', name)
        os.makedirs(dst, exist_ok=True)
        if os.path.abspath(d) != os.path.abspath(dst):
            shutil.copy(patch, os.path.join(dst, 'patch.diff'))
            shutil.copy(demo, os.path.join(dst, 'demo.py'))
            if os.path.exists(os.path.join(d, 'notes.md')):
                shutil.copy(os.path.join(d, 'notes.md'), os.path.join(dst, 'notes.md'))
        notes = ''
        if os.path.exists(os.path.join(d, 'notes.md')):
            notes = open(os.path.join(d, 'notes.md')).read()
        old = {}
        if os.path.exists(os.path.join(dst, 'meta.json')):
            try:
                old = json.load(open(os.path.join(dst, 'meta.json')))
            except Exception:
                old = {}
        head = sh('git -C /repo rev-parse --short HEAD')[1].strip()
        hist = old.get('history', [])
        if not hist and old.get('verified_at'):
            hist.append({'at': old['verified_at'], 'detected_by': old.get('detected_by', []),
                         'kinds': {p: c.get('kinds', []) for p, c in old.get('checks', {}).items()}})
        hist.append({'at': out['at'], 'repo_head': head, 'detected_by': out['detected_by'],
                     'kinds': {p: c.get('kinds', []) for p, c in out['checks'].items()}})
        meta = {'breaks_property': prop, 'needs_to_manifest': notes[:1500],
                'ran': ['git apply patch.diff on a scratch worktree of /repo HEAD',
                        'pytest (repo suite): ' + str(out['tests']),
                        'demo.py pristine rc=%s, patched rc=%s' % (out['demo_pristine_rc'], out['demo_patched_rc']),
                        'VERIF_REPO=<scratch> ./check <prop> --tier %s' % tier],
                'checks': out['checks'], 'detected_by': out['detected_by'], 'verified_at': out['at'],
                'repo_head': head, 'history': hist}
        if old.get('strengthened'):
            meta['strengthened'] = old['strengthened']
        json.dump(meta, open(os.path.join(dst, 'meta.json'), 'w'), indent=1)
        print('kept as', dst)


if __name__ == '__main__':
    main()
