# C13 plug-in for gen_tables.py: what the client side (txdbus/client.py requestBusName) puts on the wire.
# The source names no flag constants (the bits are literals in client.py and bus.py), so the flag word is
# probed behaviourally over the whole (finite) domain of the three keyword arguments, and the mapping of the
# four reply codes to success / FailedToAcquireName likewise.


def _c13_probe():
    from twisted.internet import defer
    from txdbus import client as _cl
    from txdbus import error as _er

    class _Stub:
        def callRemote(self, *a, **kw):
            self.a, self.kw = a, kw
            self.d = defer.Deferred()
            return self.d

    words = []
    for allow in (False, True):
        for repl in (False, True):
            for dnq in (False, True):
                s = _Stub()
                _cl.DBusClientConnection.requestBusName(s, 'a.b', allowReplacement=allow, replaceExisting=repl,
                                                        doNotQueue=dnq)
                assert s.a[:2] == ('/org/freedesktop/DBus', 'RequestName'), s.a
                assert s.kw.get('signature') == 'su' and s.kw.get('destination') == 'org.freedesktop.DBus', s.kw
                assert s.kw['body'][0] == 'a.b'
                words.append(int(s.kw['body'][1]))
    fails = []
    for code in (1, 2, 3, 4):
        s = _Stub()
        d = _cl.DBusClientConnection.requestBusName(s, 'a.b')
        got = []
        d.addCallbacks(lambda v: got.append(('ok', v)), lambda f: got.append(('err', f)))
        s.d.callback(code)
        assert len(got) == 1
        if got[0][0] == 'ok':
            assert got[0][1] == code
            fails.append(False)
        else:
            assert got[0][1].check(_er.FailedToAcquireName) and got[0][1].value.returnCode == code
            fails.append(True)
    return words, fails


item('request_name_flag_words', 'list N', lambda: coq_list(coq_N(w) for w in _c13_probe()[0]))
item('request_name_fails', 'list bool', lambda: coq_list(coq_bool(b) for b in _c13_probe()[1]))
