# C07 plug-in for gen_tables.py (exec'd in its namespace).
# The server commands the client's authenticator has a handler for: handleAuthMessage looks
# up '_auth_' + <command word>, so these names ARE the accepted command alphabet.
item('client_auth_commands', 'list (list N)',
     lambda: coq_list(coq_str(n[len('_auth_'):]) for n in sorted(
         a for a in dir(authentication.ClientAuthenticator)
         if a.startswith('_auth_') and callable(getattr(authentication.ClientAuthenticator, a)))))
# the terminator the client appends to each line it sends and the byte it sends first are
# observed by the harness; the handshake's line limit is MAX_AUTH_LENGTH (already generated).
