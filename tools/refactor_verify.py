#!/venv/bin/python
"""refactor_verify.py <dir-with-patch.diff> <name> --props=C10,C16,...

A HARMLESS rewrite (behaviour-preserving; written by a sub-agent that saw only property texts and a scratch
worktree) must leave every check quiet.  Applies the patch to a scratch worktree of /repo HEAD, runs the repository
suite (must stay 164 passed / 3 failed) and the quick checks; any non-zero exit is a FALSE ALARM to be investigated.
Kept as /verif/refactors/<name>/ (patch.diff, notes.md, meta.json)."""
import json, os, re, shutil, subprocess, sys, time
VERIF = '/verif'
RUN = os.environ.get('SEED_VERIF_HOME', VERIF)   # private copy of /verif to run the checks in (parallel runs)
def sh(cmd, cwd=None, timeout=7200, env=None):
    e = dict(os.environ); e.update(env or {})
    p = subprocess.run(cmd, shell=True, cwd=cwd, stdout=subprocess.PIPE, stderr=subprocess.STDOUT, timeout=timeout, env=e)
    return p.returncode, p.stdout.decode('utf-8', 'replace')
args = [a for a in sys.argv[1:] if not a.startswith('--')]
d, name = os.path.abspath(args[0]), args[1]
props = []
for o in sys.argv[1:]:
    if o.startswith('--props='):
        props = o.split('=', 1)[1].split(',')
sv = '/tmp/rv-%d' % os.getpid()
out = {'name': name, 'at': time.strftime('%Y-%m-%dT%H:%M:%SZ', time.gmtime())}
sh('git -C /repo worktree add --detach %s HEAD' % sv)
try:
    rc, o = sh('git apply %s' % os.path.join(d, 'patch.diff'), cwd=sv)
    out['patch_applies'] = rc == 0
    if rc != 0:
        out['apply_error'] = o[-400:]
    rc, o = sh('/venv/bin/python -m pytest -q -p no:cacheprovider --timeout=900 2>&1 | tail -3', cwd=sv, env={'PYTHONDONTWRITEBYTECODE': '1'})
    m = re.search(r'(\d+) failed, (\d+) passed', o)
    if not (m and m.group(1) == '3' and m.group(2) == '164'):
        # the cookie tests share ~/.dbus-keyrings and flake when several suites run at once: once more
        rc, o = sh('/venv/bin/python -m pytest -q -p no:cacheprovider --timeout=900 2>&1 | tail -3', cwd=sv, env={'PYTHONDONTWRITEBYTECODE': '1'})
        m = re.search(r'(\d+) failed, (\d+) passed', o)
    out['tests'] = m.group(0) if m else o[-200:]
    out['checks'] = {}
    if out['patch_applies']:
        for p in props:
            t0 = time.time()
            rc, o = sh('./check %s --tier quick' % p, cwd=RUN, env={'VERIF_REPO': sv})
            out['checks'][p] = {'exit': rc, 'summary': o.strip().split('\n')[-1][:300], 'wall_s': round(time.time() - t0, 1),
                                'violations': re.findall(r'^VIOLATION .*$', o, re.M)[:3], 'detail': o[-1500:] if rc else ''}
    out['false_alarms'] = [p for p, c in out['checks'].items() if c['exit'] != 0]
finally:
    sh('git -C /repo worktree remove --force %s' % sv)
    sh('/venv/bin/python %s/tools/gen_tables.py /repo %s/coq/Gen/Generated.v' % (RUN, RUN))
print(json.dumps(out, indent=1))
if out.get('patch_applies'):
    dst = os.path.join(VERIF, 'refactors', name)
    os.makedirs(dst, exist_ok=True)
    if os.path.abspath(d) != os.path.abspath(dst):
        shutil.copy(os.path.join(d, 'patch.diff'), dst)
        if os.path.exists(os.path.join(d, 'notes.md')):
            shutil.copy(os.path.join(d, 'notes.md'), dst)
    old = {}
    if os.path.exists(os.path.join(dst, 'meta.json')):
        old = json.load(open(os.path.join(dst, 'meta.json')))
    hist = old.get('history', [])
    hist.append({'at': out['at'], 'false_alarms': out['false_alarms'], 'tests': out['tests']})
    for c in out['checks'].values():
        c.pop('detail', None)
    json.dump({'kind': 'harmless rewrite', 'checks': out['checks'], 'false_alarms': out['false_alarms'], 'tests': out['tests'],
               'history': hist, 'resolution': old.get('resolution', '')}, open(os.path.join(dst, 'meta.json'), 'w'), indent=1)
