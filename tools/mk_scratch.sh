#!/bin/sh
# mk_scratch.sh <name>: scratch copy of /verif (no .git) and a detached worktree of /repo under /tmp/b-<name>
set -e
N="$1"
D=/tmp/b-$N
rm -rf "$D"; mkdir -p "$D"
rsync -a --exclude .git --exclude replays --exclude .work /verif/ "$D/verif/"
git -C /repo worktree add --detach "$D/repo" HEAD >/dev/null 2>&1
echo "$D"
