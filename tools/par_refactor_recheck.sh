#!/bin/sh
# usage: refverify.sh <worker-id> name:props ...
W=$1; shift
rm -rf /tmp/vv-$W; mkdir -p /tmp/vv-$W
rsync -a --exclude .git --exclude replays --exclude .work --exclude seeded --exclude refactors /verif/ /tmp/vv-$W/verif/
export SEED_VERIF_HOME=/tmp/vv-$W/verif
cd /verif
for spec in "$@"; do
  n=${spec%%:*}; props=${spec#*:}
  tools/refactor_verify.py /verif/refactors/$n $n --props=$props > /verif/.work/ref-$n.json 2>&1
  /venv/bin/python - <<PY
import json
s=open('/verif/.work/ref-$n.json').read()
try:
    j=json.loads(s[s.index('{'):s.rindex('}')+1])
    print('$n', 'applies' if j.get('patch_applies') else 'NO-APPLY', j.get('tests'), 'false_alarms', j.get('false_alarms'))
except Exception as e:
    print('$n', 'ERR', e)
PY
done
rm -rf /tmp/vv-$W
echo "worker $W done"
