#!/venv/bin/python
"""Print the markdown table of seeded changes (seeded/*/meta.json) for DESIGN.md section 10."""
import glob, json, os, re
rows = []
for d in sorted(glob.glob('/verif/seeded/*/')):
    m = json.load(open(d + 'meta.json'))
    name = os.path.basename(d.rstrip('/'))
    notes = m.get('needs_to_manifest', '')
    first = ''
    for line in notes.split('\n'):
        line = line.strip(' #*-')
        if len(line) > 25:
            first = line
            break
    det = m.get('detected_by', [])
    kinds = []
    for p, c in m.get('checks', {}).items():
        kinds += c.get('kinds', [])
    how = 'MISSED'
    if det:
        how = 'caught by ' + ','.join(det) + (' (failing input)' if 'failing-input' in kinds else ' (no-failing-input-found)')
    if m.get('strengthened'):
        how += '; ' + m['strengthened']
    rows.append('| %s | %s | %s |' % (name, first[:150].replace('|', '/'), how))
print('| change | what it does | result |\n|---|---|---|')
print('\n'.join(rows))
