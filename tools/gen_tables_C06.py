# C06 plug-in for gen_tables.py (exec'd in its namespace).
# BusAuthenticator.handleAuthMessage dispatches on getattr(self, '_auth_' + <command word>): the names of the
# '_auth_*' attributes ARE the command alphabet the bus accepts from a peer.  A helper that happens to be named
# '_auth_something' becomes a command a peer can send.
item('bus_auth_commands', 'list (list N)',
     lambda: coq_list(coq_str(n[len('_auth_'):]) for n in sorted(
         a for a in dir(authentication.BusAuthenticator)
         if a.startswith('_auth_') and callable(getattr(authentication.BusAuthenticator, a)))))
