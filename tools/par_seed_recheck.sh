#!/bin/sh
# usage: recheck.sh <worker-id> <seed-name>...   (props taken from the seed's meta.json)
W=$1; shift
rm -rf /tmp/vv-$W; mkdir -p /tmp/vv-$W
rsync -a --exclude .git --exclude replays --exclude .work --exclude seeded --exclude refactors /verif/ /tmp/vv-$W/verif/
export SEED_VERIF_HOME=/tmp/vv-$W/verif
cd /verif
for n in "$@"; do
  p=${n%%-*}
  props=$(/venv/bin/python -c "import json;m=json.load(open('/verif/seeded/$n/meta.json'));print(','.join(sorted(set([m['breaks_property']]+list(m.get('checks',{}).keys())))))")
  before=$(/venv/bin/python -c "import json;m=json.load(open('/verif/seeded/$n/meta.json'));print(sorted(m.get('detected_by',[])))")
  tools/seed_verify.py $p /verif/seeded/$n $n --props=$props > /verif/.work/seed-$n.json 2>&1
  /venv/bin/python - <<PY
import json
s=open('/verif/.work/seed-$n.json').read()
try:
    j=json.loads(s[s.index('{'):s.rindex('}')+1])
    now=sorted(j.get('detected_by') or [])
    print('$n', 'confirmed' if j.get('confirmed') else 'NOT-CONFIRMED(applies=%s tests=%s demo=%s/%s)' % (j.get('patch_applies'), j.get('tests'), j.get('demo_pristine_rc'), j.get('demo_patched_rc')), 'before', "$before", 'now', now, 'SAME' if str(now)=="$before" else 'CHANGED', {p:c['kinds'][:1] for p,c in j.get('checks',{}).items()})
except Exception as e:
    print('$n', 'ERR', e)
PY
done
rm -rf /tmp/vv-$W
echo "worker $W done"
