#!/venv/bin/python
"""Regenerate MANIFEST.json from the table below (kept valid at all times)."""
import json

CLAIMED = {
 'C01': ("Theorem C01_roundtrip: for every type list of the grammar (any depth), every conforming Python value list, every offset, "
         "both byte orders and arbitrary surrounding bytes, the model's marshal succeeds, reports the number of bytes produced, and "
         "unmarshal of those bytes consumes the same number and yields the read-back. Proved by nested induction on wire values via "
         "refinement to the wire-format specification (marshal = spec encoder, unmarshal inverts spec encoder). Model tied to "
         "marshal.py by differential runs over typed cases (exhaustive small signatures x offsets x orders, random nested ones in "
         "random Python shapes) and regenerated type/padding tables.",
         "proof by refinement to a wire-format spec + correspondence (differential, typed generator)"),
 'C02': ("Theorems C02_encode_exact (marshal bytes = specification encoder, all inputs), C02_decode_any_conformant (any spec "
         "encoding of well-typed values, either byte order, any offset, decodes to its read-back), C02_alignment_rule (every type x "
         "every offset), C02_tables_from_source (type table, padding probe over all codes x 16 offsets, dispatch key sets regenerated "
         "from the source, closed by computation). The spec encoder is extracted and compared byte-for-byte with the implementation; "
         "opposite-byte-order spec bytes are decoded by the implementation.",
         "proof against an independent wire-format spec + regenerated tables + byte-exact correspondence"),
 'C18': ("Theorems C18_path/interface/error/bus/member: for every list of code points the model validator accepts iff the DBus "
         "grammar (Spec/Grammar.v) does; character classes tied to the regexes of the tree under test by regenerated tables (finite, "
         "enumerated completely); model tied to the code by exhaustive differential runs (all strings of length <=5 over a 9-class "
         "alphabet x 5 validators).",
         "proof + regenerated tables + exhaustive bounded correspondence"),
}
# filled in as properties are integrated
try:
    CLAIMED.update(json.load(open('/verif/tools/claimed_extra.json')))
except FileNotFoundError:
    pass

props = [json.loads(l) for l in open('/verif/properties.jsonl')]
m = {
 "version": 1,
 "setup_cmd": "./setup.sh",
 "hooks": {"guard": "COCAGNE_TXDBUS_VERIF",
           "enable": "no hooks: everything is observed from outside (fake transports, virtual clock, monkeypatched reactor in the harness process)",
           "baseline_off_cmd": "cd /repo && /venv/bin/python -m pytest -ra -q -p no:cacheprovider --timeout=900 --continue-on-collection-errors",
           "source_commits": [], "add_only": True},
 "engines": [{"name": "coq-model+correspondence", "path": "check", "serves_properties": sorted(CLAIMED),
              "kind_free_text": "Coq 8.16 theorems about Gallina models (coq/), tables regenerated from /repo (tools/gen_tables.py), "
                                "differential correspondence model<->implementation through the extracted bin/modelrun (harness/)"}],
 "checks": [],
 "not_applicable": [],
 "notes": "See DESIGN.md. known_findings.json lists open findings and fixed defects. ./check Cxx --replay <file> re-runs a saved case.",
}
for p in props:
    i = p['id']
    if i in CLAIMED:
        text, tech = CLAIMED[i][0], CLAIMED[i][1]
        m["checks"].append({
            "property_id": i, "quick_cmd": "./check %s --tier quick" % i, "thorough_cmd": "./check %s --tier thorough" % i,
            "evidence_file": "evidence/%s.json" % i, "replay_cmd_template": "./check %s --replay {path}" % i,
            "engine": "coq-model+correspondence",
            "level_claimed": {"category": "proof", "text": text, "design_ref": "DESIGN.md section 5, " + i},
            "level_note": "Trusted: Coq 8.16.1 kernel (vm_compute, no native_compute), tools/gen_tables.py, extraction (ExtrOcamlBasic only) "
                          "+ coq/Extract/driver.ml, the correspondence harness; axioms: none (every theorem Closed under the global context, "
                          "checked on every run). Modelled, not verified: CPython/Twisted semantics (DESIGN.md section 6).",
            "technique": tech})
    else:
        m["not_applicable"].append({"property_id": i, "reason": "not claimed yet: model and theorems under construction (build order in DESIGN.md Appendix B)"})
json.dump(m, open('/verif/MANIFEST.json', 'w'), indent=1)
print('claimed', sorted(CLAIMED))
