#!/bin/sh
# Re-verify every kept seeded change against the CURRENT /repo HEAD and the current checks.
# usage: tools/seed_recheck_all.sh [name-prefix]     (writes seeded/<name>/meta.json; prints one line per change)
cd /verif
for d in seeded/${1:-}*/; do
  n=$(basename "$d")
  p=$(/venv/bin/python -c "import json;print(json.load(open('$d/meta.json'))['breaks_property'])")
  extra=$(/venv/bin/python -c "import json;m=json.load(open('$d/meta.json'));print(','.join(sorted(set([m['breaks_property']]+list(m.get('checks',{}).keys())))))")
  tools/seed_verify.py "$p" "/verif/$d" "$n" --props="$extra" > "/verif/.work/seed-$n.json" 2>&1
  /venv/bin/python - <<PY
import json
s=open('/verif/.work/seed-$n.json').read()
try:
    j=json.loads(s[s.index('{'):s.rindex('}')+1])
    print('$n', 'confirmed' if j.get('confirmed') else 'NOT-CONFIRMED(applies=%s tests=%s demo=%s/%s)' % (j.get('patch_applies'), j.get('tests'), j.get('demo_pristine_rc'), j.get('demo_patched_rc')), 'detected_by', j.get('detected_by'))
except Exception as e:
    print('$n', 'ERR', e)
PY
done
