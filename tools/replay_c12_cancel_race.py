import sys, os
sys.path.insert(0, os.path.join(os.path.dirname(os.path.abspath(__file__)), '..'))
os.environ.setdefault('VERIF_REPO', '/repo')
from harness import common
common.setup_repo_path(os.environ['VERIF_REPO'])
from harness import c12
import txdbus
print('txdbus from', txdbus.__file__)
tick = ['real', 4, '/a/b', 'org.ex.P', 'Tick', None, ':1.9', None, None]
VARIANTS = {
  'two': ([[3, [1, False, []]], [3, [2, False, []]], [5], [5], [4, 0], [2, tick], [5], [2, tick]],
          ['notifyOnSignal(cb1)', 'notifyOnSignal(cb2)', 'answer', 'answer', 'cancelSignalNotification(0)', 'signal Tick', 'answer', 'signal Tick']),
  'one': ([[3, [1, False, []]], [5], [4, 0], [2, tick], [5], [2, tick]],
          ['notifyOnSignal(cb1)', 'answer', 'cancelSignalNotification(0)', 'signal Tick', 'answer', 'signal Tick']),
}
events, names = VARIANTS[sys.argv[1] if len(sys.argv) > 1 else 'two']
line = '(12 6 %s %s (%s))' % (c12.O(None), c12.dump_rule(c12.PRULE), ' '.join(c12.dump_aevent(e) for e in events))
tl = '(12 1 %s)' % c12.dump_rule(c12.PRULE)
pl = '(12 4 %s %s)' % (c12.dump_rule(c12.PRULE), c12.dump_msg(tick))
outs = common.run_model([line, tl, pl])
text = c12.dec_str(outs[1][0])
I = c12.impl()
run = c12.AsyncRun(I, None, {text: [c12.PRULE]}, lambda t: True, lambda r, m: (outs[2][2] == 1, outs[2][3] == 1))
for n, (e, mo) in enumerate(zip(events, outs[0])):
    ob, extra = run.step(e)
    model_ob = c12.dec_aobs(mo)
    print(n, names[n])
    print('    impl :', ob, ' _signalRules =', sorted(run.ro._signalRules or []), ' match_rules ids =', sorted(run.p.match_rules), ' router ids =', sorted(run.p.router._rules))
    print('    model:', model_ob)
