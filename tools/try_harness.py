#!/venv/bin/python
"""try_harness.py Cxx [tier] : run a harness module without the Coq build/audit (development aid)"""
import sys, os, time, json, importlib
sys.path.insert(0, '/verif')
os.environ.setdefault('PYTHONHASHSEED', '0')
from harness import common
prop = sys.argv[1]
tier = sys.argv[2] if len(sys.argv) > 2 else 'quick'
repo = os.environ.get('VERIF_REPO', '/repo')
common.setup_repo_path(repo)
ctx = common.Ctx(prop, tier, int(os.environ.get('VERIF_SEED', '0')), repo)
res = common.Result()
mod = importlib.import_module('harness.' + prop.lower())
t0 = time.time()
mod.run(ctx, res)
print('evaluations', res.evaluations, 'distinct', len(res.keys), 'disagreements', len(res.disagreements),
      'violations', len(res.violations), 'wall %.1fs' % (time.time() - t0))
for d in res.disagreements[:5]:
    print('DISAGREE', json.dumps(common.jsonable(d))[:1500])
sigs = {}
for v in res.violations:
    sigs.setdefault(v['signature'], []).append(v)
for s, vs in sigs.items():
    print('VIOL', s, len(vs), json.dumps(common.jsonable(vs[0]))[:1500])
print(json.dumps(common.jsonable(res.extra))[:1500])
