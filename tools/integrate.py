#!/usr/bin/env python3
"""integrate.py Cxx: copy a builder's deliverables from /tmp/b-Cxx/verif into /verif.
Copies every file that is new or changed there except shared framework files, appends new
_CoqProject entries and the Exports dispatch line."""
import filecmp, os, re, shutil, sys
pid = sys.argv[1]
src = '/tmp/b-%s/verif' % pid
dst = '/verif'
SKIP = {'coq/_CoqProject', 'coq/Model/Exports.v', 'check', 'harness/common.py', 'MANIFEST.json', 'known_findings.json',
        'coq/Makefile', 'coq/Makefile.conf', 'DESIGN.md', 'BUILDER_GUIDE.md', 'setup.sh', 'properties.jsonl',
        'coq/Lib/Sexp.v', 'coq/Lib/Base.v', 'tools/gen_tables.py', 'coq/Gen/Generated.v'}
copied = []
for root, dirs, files in os.walk(src):
    dirs[:] = [d for d in dirs if d not in ('.git', 'replays', '.work', 'bin', '__pycache__', 'evidence')]
    for f in files:
        if f.endswith(('.vo', '.vok', '.vos', '.glob', '.aux', '.pyc', '.cmi', '.cmx', '.o', '.cache')) or f.startswith('.'):
            continue
        sp = os.path.join(root, f)
        rel = os.path.relpath(sp, src)
        if rel in SKIP or rel.startswith('coq/Extract/modelrun_core'):
            continue
        dp = os.path.join(dst, rel)
        if not os.path.exists(dp) or not filecmp.cmp(sp, dp, shallow=False):
            if os.path.exists(dp):
                print('CHANGED (not copied, review):', rel)
                continue
            os.makedirs(os.path.dirname(dp), exist_ok=True)
            shutil.copy2(sp, dp)
            copied.append(rel)
print('copied', copied)
# _CoqProject
a = open(src + '/coq/_CoqProject').read().split('\n')
b = open(dst + '/coq/_CoqProject').read().split('\n')
new = [l for l in a if l.strip() and l not in b]
if new:
    with open(dst + '/coq/_CoqProject', 'a') as f:
        for l in new:
            f.write(l + '\n')
print('_CoqProject +', new)
# Exports
n = int(pid[1:])
ex = open(dst + '/coq/Model/Exports.v').read()
if 'Ops%s' % pid not in ex:
    ex = ex.replace('Local Open Scope Z_scope.', 'From Tx Require Model.Ops%s.\nLocal Open Scope Z_scope.' % pid, 1)
    ex = ex.replace('      | _ => bad\n      end\n  | _ => bad', '      | %d => Ops%s.op args\n      | _ => bad\n      end\n  | _ => bad' % (n, pid), 1)
    open(dst + '/coq/Model/Exports.v', 'w').write(ex)
    print('Exports: registered', n)
for extra in ('CHANGED',):
    pass
