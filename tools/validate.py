#!/opt/veriftools/pyvenv/bin/python
"""Validate MANIFEST.json and evidence/*.json against the schemas."""
import glob, json, sys
import jsonschema
ok = True
m = json.load(open('/verif/MANIFEST.json'))
jsonschema.validate(m, json.load(open('/root/.vp/MANIFEST.schema.json')))
es = json.load(open('/root/.vp/EVIDENCE.schema.json'))
for c in m['checks']:
    try:
        jsonschema.validate(json.load(open('/verif/' + c['evidence_file'])), es)
    except Exception as e:
        ok = False
        print('EVIDENCE INVALID', c['property_id'], str(e)[:300])
ids = [c['property_id'] for c in m['checks']] + [n['property_id'] for n in m.get('not_applicable', [])]
props = [json.loads(l)['id'] for l in open('/verif/properties.jsonl')]
if sorted(ids) != sorted(props):
    ok = False
    print('manifest does not cover every property exactly once', sorted(set(props) ^ set(ids)))
print('valid' if ok else 'INVALID')
sys.exit(0 if ok else 1)
