#!/venv/bin/python
"""Regenerate coq/Gen/Generated.v from the txdbus tree under test.

Everything here is read from the imported modules (attributes) or probed
behaviourally over a finite domain that is enumerated completely (pad bytes
for every type code at every offset 0..15; which of the code points 0..255
each validator regex flags).  The generator fails closed: an item it cannot
obtain becomes `None`, and the lemma that demands `Some ...` stops checking.

Usage: gen_tables.py <repo> <out.v>     (writes only if content changed)
"""
import os
import sys

repo = sys.argv[1] if len(sys.argv) > 1 else os.environ.get('VERIF_REPO', '/repo')
out = sys.argv[2] if len(sys.argv) > 2 else None
sys.path.insert(0, repo)
sys.dont_write_bytecode = True


def coq_N(n):
    return '%d' % n


def coq_str(s):
    """Python str/bytes -> Coq list N of code points."""
    if isinstance(s, bytes):
        cps = list(s)
    else:
        cps = [ord(c) for c in s]
    return '[' + '; '.join(coq_N(c) for c in cps) + ']'


def coq_list(items):
    return '[' + '; '.join(items) + ']'


def coq_bool(b):
    return 'true' if b else 'false'


def coq_opt(f):
    try:
        v = f()
    except Exception as e:  # fail closed
        return 'None (* %s: %s *)' % (type(e).__name__, str(e).replace('*', '+')[:80])
    return 'Some (%s)' % v


items = []   # (name, type, value)


def item(name, ty, f):
    items.append((name, 'option (%s)' % ty, coq_opt(f)))


try:
    from txdbus import marshal
except Exception:
    marshal = None
try:
    from txdbus import message
except Exception:
    message = None
try:
    from txdbus import protocol
except Exception:
    protocol = None
try:
    from txdbus import authentication
except Exception:
    authentication = None
try:
    from txdbus import router
except Exception:
    router = None
try:
    from txdbus import client
except Exception:
    client = None


# ---- validators: which code points < 256 each regex flags ------------------
def re_flags(rx):
    def f():
        r = getattr(marshal, rx)
        # code points the "invalid character" regex does NOT flag
        ok = [c for c in range(256) if r.search(chr(c)) is None]
        return coq_list(coq_N(c) for c in ok)
    return f


_ALL_HIGH = ''.join(chr(c) for c in range(0x80, 0x110000) if not 0xD800 <= c <= 0xDFFF)


def re_high(rx):
    def f():
        r = getattr(marshal, rx)
        # EVERY code point above 0x7f (the whole of Unicode, surrogates excepted) must be flagged by the
        # "invalid character" class: remove what the regex flags and see what is left (complete enumeration)
        left = r.sub('', _ALL_HIGH)
        return coq_bool(left == '')
    return f


for rx in ('invalid_obj_path_re', 'if_re', 'bus_re', 'mbr_re'):
    item(rx + '_accepts', 'list N', re_flags(rx))
    item(rx + '_flags_high', 'bool', re_high(rx))


def dot_digit_probe():
    r = marshal.dot_digit_re
    # (first, second) pairs of code points < 128 on which the regex matches
    pairs = [(a, b) for a in range(128) for b in range(128)
             if r.search(chr(a) + chr(b)) is not None and
             r.search(chr(a)) is None and r.search(chr(b)) is None]
    return coq_list('(%d, %d)' % p for p in pairs)


item('dot_digit_pairs', 'list (N * N)', dot_digit_probe)

# ---- type table and padding -------------------------------------------------
item('dbus_types', 'list (N * N)',
     lambda: coq_list('(%d, %d)' % (ord(c), a) for _, c, a in marshal.dbus_types))


def pad_probe():
    rows = []
    codes = [c for _, c, _ in marshal.dbus_types]
    for c in codes:
        lens = []
        for off in range(16):
            p = marshal.pad[c](off)
            if not isinstance(p, bytes) or any(b != 0 for b in p):
                raise ValueError('non-zero padding')
            lens.append(len(p))
        rows.append('(%d, %s)' % (ord(c), coq_list(coq_N(x) for x in lens)))
    return coq_list(rows)


item('pad_probe', 'list (N * list N)', pad_probe)
item('pad_header_probe', 'list N',
     lambda: coq_list(coq_N(len(marshal.pad['header'](o))) for o in range(16)))
item('marshaller_codes', 'list N',
     lambda: coq_list(coq_N(ord(c)) for c in sorted(marshal.marshallers)))
item('unmarshaller_codes', 'list N',
     lambda: coq_list(coq_N(ord(c)) for c in sorted(marshal.unmarshallers)))
item('variant_class_map', 'list (N * N)',
     lambda: coq_list('(%d, %d)' % (ord(k), ord(v.dbusSignature))
                      for k, v in sorted(marshal.variantClassMap.items())))


# ---- message tables -----------------------------------------------------------
def header_attrs(cls):
    def f():
        c = getattr(message, cls)
        return coq_list('(%s, %d, %s)' % (coq_str(n), code, coq_bool(req))
                        for n, code, req in c._headerAttrs)
    return f


for cls in ('MethodCallMessage', 'MethodReturnMessage', 'ErrorMessage', 'SignalMessage'):
    item('hattrs_' + cls, 'list (list N * N * bool)', header_attrs(cls))
    item('mtype_' + cls, 'N', (lambda cls=cls: coq_N(getattr(message, cls)._messageType)))

item('hcode', 'list (N * list N)',
     lambda: coq_list('(%d, %s)' % (k, coq_str(v)) for k, v in sorted(message._hcode.items())))
item('mtype_map', 'list (N * list N)',
     lambda: coq_list('(%d, %s)' % (k, coq_str(v.__name__)) for k, v in sorted(message._mtype.items())))
item('header_format', 'list N', lambda: coq_str(message._headerFormat))
item('max_msg_len', 'N', lambda: coq_N(message.DBusMessage._maxMsgLen))
item('protocol_version', 'N', lambda: coq_N(message.DBusMessage._protocolVersion))
item('default_endian', 'N', lambda: coq_N(message.DBusMessage.endian))

# ---- protocol constants ---------------------------------------------------------
item('MAX_AUTH_LENGTH', 'N', lambda: coq_N(protocol.BasicDBusProtocol.MAX_AUTH_LENGTH))
item('MSG_HDR_LEN', 'N', lambda: coq_N(protocol.BasicDBusProtocol.MSG_HDR_LEN))
item('auth_delimiter', 'list N', lambda: coq_str(protocol.BasicDBusProtocol.authDelimiter))

# ---- authentication constants ---------------------------------------------------
item('MAX_REJECTS_ALLOWED', 'N', lambda: coq_N(authentication.BusAuthenticator.MAX_REJECTS_ALLOWED))
item('client_preference', 'list (list N)',
     lambda: coq_list(coq_str(m) for m in authentication.ClientAuthenticator.preference))
item('bus_mechanisms', 'list (list N)',
     lambda: coq_list(coq_str(m) for m in authentication.BusAuthenticator.authenticators.keys()))

# ---- router / client constants ---------------------------------------------------
item('router_mtypes', 'list (list N * N)',
     lambda: coq_list('(%s, %d)' % (coq_str(k), v) for k, v in sorted(router._mtypes.items())))
item('name_reply_codes', 'list N',
     lambda: coq_list(coq_N(x) for x in (
         client.NAME_ACQUIRED, client.NAME_IN_QUEUE, client.NAME_IN_USE,
         client.NAME_ALREADY_OWNER, client.NAME_RELEASED,
         client.NAME_NON_EXISTENT, client.NAME_NOT_OWNER)))

# ---- per-property plug-ins: tools/gen_tables_Cxx.py ---------------------------
# Each is exec'd in this namespace (item, coq_N, coq_str, coq_list, coq_bool and
# the imported modules are available) and adds its own item(...) entries.
import glob as _glob
for _plug in sorted(_glob.glob(os.path.join(os.path.dirname(os.path.abspath(__file__)), 'gen_tables_C*.py'))):
    try:
        with open(_plug) as _f:
            exec(compile(_f.read(), _plug, 'exec'))
    except Exception as _e:   # fail closed: the plug-in's items are missing -> lemmas stop checking
        items.append(('plugin_error_' + os.path.basename(_plug)[:-3], 'option (N)',
                      'None (* %s *)' % str(_e).replace('*', '+')[:80]))

lines = [
    '(* GENERATED by tools/gen_tables.py from the txdbus tree under test. Do not edit. *)',
    'From Coq Require Import List NArith.',
    'Import ListNotations.',
    'Open Scope N_scope.',
    '',
]
for name, ty, val in items:
    lines.append('Definition %s : %s :=\n  %s.' % (name, ty, val))
    lines.append('')
text = '\n'.join(lines)

if out is None:
    sys.stdout.write(text)
else:
    old = None
    if os.path.exists(out):
        with open(out) as f:
            old = f.read()
    if old != text:
        tmp = out + '.tmp.%d' % os.getpid()
        with open(tmp, 'w') as f:
            f.write(text)
        os.replace(tmp, out)
        print('Generated.v: updated')
    else:
        print('Generated.v: unchanged')
