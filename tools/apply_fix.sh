#!/bin/sh
# apply_fix.sh <patch> <msgfile>: apply a repair to /repo as ONE unguarded "fix:" commit,
# only if the unedited repository test-suite still gives 164 passed / 3 failed (pristine result).
set -e
P="$1"; M="$2"
head -1 "$M" | grep -q '^fix:' || { echo "message must start with fix:"; exit 2; }
git -C /repo diff --quiet || { echo "/repo dirty"; exit 2; }
git -C /repo apply "$P" || { echo "patch does not apply"; exit 3; }
R=$(cd /repo && PYTHONDONTWRITEBYTECODE=1 /venv/bin/python -m pytest -q -p no:cacheprovider --timeout=900 2>&1 | tail -1)
echo "$R"
case "$R" in
  *"3 failed, 164 passed"*) git -C /repo commit -qa -F "$M"; git -C /repo log --oneline | head -1;;
  *) git -C /repo checkout -- .; echo "tests changed: reverted"; exit 4;;
esac
