(* The DBus type grammar, written from the DBus specification ("Type system"):
   a signature is a sequence of single complete types; a single complete type
   is a basic type code, the variant, an array of a single complete type, a
   struct of one or more single complete types in parentheses, or - only as
   the element type of an array - a dict entry {kv} whose key is basic.
   [show] renders a type tree as its signature string. *)
From Tx Require Import Lib.Base.
Local Open Scope N_scope.

Inductive basic :=
| BByte | BBool | BInt16 | BUInt16 | BInt32 | BUInt32 | BInt64 | BUInt64
| BDouble | BString | BPath | BSig | BFd.

Definition basic_code (b : basic) : N :=
  match b with
  | BByte => 121 (* y *) | BBool => 98 (* b *) | BInt16 => 110 (* n *) | BUInt16 => 113 (* q *)
  | BInt32 => 105 (* i *) | BUInt32 => 117 (* u *) | BInt64 => 120 (* x *) | BUInt64 => 116 (* t *)
  | BDouble => 100 (* d *) | BString => 115 (* s *) | BPath => 111 (* o *) | BSig => 103 (* g *)
  | BFd => 104 (* h *)
  end.

Inductive ty :=
| TBasic (b : basic)
| TVariant
| TArr (t : ty)
| TStruct (ts : list ty)
| TEntry (k v : ty).

Fixpoint show (t : ty) : str :=
  match t with
  | TBasic b => [basic_code b]
  | TVariant => [118]                                   (* v *)
  | TArr t => 97 :: show t                              (* a *)
  | TStruct ts => 40 :: concat (map show ts) ++ [41]    (* ( ... ) *)
  | TEntry k v => 123 :: show k ++ show v ++ [125]      (* { k v } *)
  end.

Definition show_list (ts : list ty) : str := concat (map show ts).

(* Well-formed single complete types of the DBus specification. *)
Fixpoint wf (t : ty) : bool :=
  match t with
  | TBasic _ => true
  | TVariant => true
  | TArr (TEntry (TBasic _) v) => wf v
  | TArr t => wf t
  | TStruct ts => negb (match ts with [] => true | _ => false end) && forallb wf ts
  | TEntry _ _ => false
  end.

(* s is a valid signature: the rendering of a sequence of well-formed types *)
Definition valid_sig (s : str) : Prop := exists ts, forallb wf ts = true /\ s = show_list ts.
