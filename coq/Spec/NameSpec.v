(* Specification for C13: the reference name table of a message bus, written
   from the property text and the DBus specification ("Message Bus Messages":
   org.freedesktop.DBus.RequestName / ReleaseName / GetNameOwner /
   ListQueuedOwners, signals NameAcquired / NameLost), not from bus.py.

   Only the vocabulary (client, name, op, reply, errname, signal, out,
   unique_name) is taken from Model/BusNames.v; no function of the model is
   used here.

   State: for every well-known name a queue of (connection, allows-replacement)
   entries; the HEAD of the queue is the owner, the others wait in order of
   arrival.  A name nobody holds has the empty queue.

   RequestName flags (DBus specification): ALLOW_REPLACEMENT = 1,
   REPLACE_EXISTING = 2, DO_NOT_QUEUE = 4.
   RequestName replies: PRIMARY_OWNER = 1, IN_QUEUE = 2, EXISTS = 3,
   ALREADY_OWNER = 4.   ReleaseName replies: RELEASED = 1, NON_EXISTENT = 2,
   NOT_OWNER = 3.

   Choices where the property text is silent - txdbus's behaviour is taken and
   marked [txdbus's choice]:
   (a) a replaced owner is dropped from the queue (the reference daemon keeps
       it, right behind the new owner, unless it had declined queueing);
   (b) only the allows-replacement flag is remembered per entry, and it is
       updated by every later RequestName of the same connection that leaves
       it owner or waiting;
   (c) NameOwnerChanged is handed to the broadcast router when RequestName
       makes the caller the owner, and NOT when a name is released or its owner
       disconnects (the DBus specification asks for it there too; the property
       only says the new owner "is told so", which is NameAcquired);
   (d) ReleaseName does not validate the name (an invalid or unique name is
       simply NON_EXISTENT); RequestName answers InvalidArgs for anything that
       is not a well-known bus name; org.freedesktop.DBus is not reserved;
   (e) connections are numbered 1, 2, 3, ... in order of arrival and the k-th
       is called ":1.k"; GetNameOwner of such a unique name returns it while
       that connection is live;
   (f) within one step the order of the emitted signals is not specified (the
       theorems compare them as multisets). *)
From Tx Require Import Lib.Base Model.BusNames Spec.Grammar.
Local Open Scope N_scope.

Definition ALLOW_REPLACEMENT : N := 1.
Definition REPLACE_EXISTING : N := 2.
Definition DO_NOT_QUEUE : N := 4.
Definition has_flag (flags bit : N) : bool := negb (N.land flags bit =? 0).

Definition PRIMARY_OWNER : N := 1.
Definition IN_QUEUE : N := 2.
Definition EXISTS : N := 3.
Definition ALREADY_OWNER : N := 4.
Definition RELEASED : N := 1.
Definition NON_EXISTENT : N := 2.
Definition NOT_OWNER : N := 3.

Definition entry := (client * bool)%type.          (* who, allows replacement *)

Record table := mkTable {
  t_next : N;                                      (* number of the next connection *)
  t_live : list client;                            (* the connected clients *)
  t_queues : list (name * list entry)              (* names with a non-empty queue *)
}.

Definition empty : table := mkTable 1 [] [].

(* ---- reading the table -------------------------------------------------------- *)
Definition queue_in (qs : list (name * list entry)) (n : name) : list entry :=
  match alist_get str_eqb n qs with Some q => q | None => [] end.
Definition queue (t : table) (n : name) : list entry := queue_in (t_queues t) n.

Definition owner (t : table) (n : name) : option client :=
  match queue t n with e :: _ => Some (fst e) | [] => None end.
Definition waiting (t : table) (n : name) : list client := map fst (tl (queue t n)).
Definition holds (t : table) (c : client) (n : name) : bool :=     (* owns or waits *)
  existsb (fun e => N.eqb c (fst e)) (queue t n).
Definition is_live (t : table) (c : client) : bool := existsb (N.eqb c) (t_live t).

(* ---- writing the table ----------------------------------------------------------- *)
Definition put (n : name) (q : list entry) (qs : list (name * list entry)) :=
  let rest := filter (fun p => negb (str_eqb n (fst p))) qs in
  match q with [] => rest | _ => (n, q) :: rest end.
Definition with_queue (t : table) (n : name) (q : list entry) : table :=
  mkTable (t_next t) (t_live t) (put n q (t_queues t)).

Definition without (c : client) (q : list entry) : list entry :=
  filter (fun e => negb (N.eqb c (fst e))) q.

(* join the end of the queue; a connection already waiting keeps its place
   (and gets its flag updated [b]) *)
Fixpoint enqueue (e : entry) (q : list entry) : list entry :=
  match q with
  | [] => [e]
  | x :: r => if N.eqb (fst e) (fst x) then e :: r else x :: enqueue e r
  end.

(* ---- RequestName -------------------------------------------------------------------- *)
Definition wellknown (n : name) : bool := g_bus n && negb (starts_with [58] n).

Definition spec_request (t : table) (c : client) (n : name) (flags : N) : table * out :=
  let e := (c, has_flag flags ALLOW_REPLACEMENT) in
  if negb (wellknown n) then (t, mkOut (RError InvalidArgs) []) else
  match queue t n with
  | [] =>
      (with_queue t n [e],
       mkOut (RCode PRIMARY_OWNER) [NameAcquired c n; NameOwnerChanged n [] (unique_name c)])
  | (o, allows) :: rest =>
      if o =? c then
        (with_queue t n (e :: rest), mkOut (RCode ALREADY_OWNER) [])
      else if allows && has_flag flags REPLACE_EXISTING then
        (* the owner is replaced [a]; the caller no longer waits *)
        (with_queue t n (e :: without c rest),
         mkOut (RCode PRIMARY_OWNER)
               [NameLost o n; NameAcquired c n; NameOwnerChanged n (unique_name o) (unique_name c)])
      else if has_flag flags DO_NOT_QUEUE then
        (* refused: the caller neither owns nor waits afterwards *)
        (with_queue t n ((o, allows) :: without c rest), mkOut (RCode EXISTS) [])
      else
        (with_queue t n ((o, allows) :: enqueue e rest), mkOut (RCode IN_QUEUE) [])
  end.

(* ---- ReleaseName ---------------------------------------------------------------------- *)
(* what the next in line is told when the head goes away *)
Definition promoted (n : name) (rest : list entry) : list signal :=
  match rest with w :: _ => [NameAcquired (fst w) n] | [] => [] end.

Definition spec_release (t : table) (c : client) (n : name) : table * out :=
  match queue t n with
  | [] => (t, mkOut (RCode NON_EXISTENT) [])
  | (o, allows) :: rest =>
      if o =? c then
        (with_queue t n rest, mkOut (RCode RELEASED) (NameLost c n :: promoted n rest))
      else if existsb (fun e => N.eqb c (fst e)) rest then
        (with_queue t n ((o, allows) :: without c rest), mkOut (RCode RELEASED) [])
      else (t, mkOut (RCode NOT_OWNER) [])
  end.

(* ---- a connection goes away ---------------------------------------------------------------- *)
(* it leaves every queue; where it was the owner the next in line is promoted
   and told so (the vanished client is not sent NameLost) *)
Definition gone_signals (c : client) (p : name * list entry) : list signal :=
  match snd p with
  | e :: rest => if N.eqb c (fst e) then promoted (fst p) rest else []
  | [] => []
  end.

Definition spec_disconnect (t : table) (c : client) : table * out :=
  (mkTable (t_next t)
           (filter (fun x => negb (N.eqb c x)) (t_live t))
           (filter (fun p => match snd p with [] => false | _ => true end)
                   (map (fun p => (fst p, without c (snd p))) (t_queues t))),
   mkOut RNone (flat_map (gone_signals c) (t_queues t))).

(* ---- lookups ----------------------------------------------------------------------------------- *)
Definition spec_get_owner (t : table) (n : name) : out :=
  if starts_with [58] n then                                               (* a unique name [e] *)
    if existsb (fun x => str_eqb (unique_name x) n) (t_live t)
    then mkOut (ROwner n) [] else mkOut (RError NameHasNoOwner) []
  else
    match owner t n with
    | Some o => mkOut (ROwner (unique_name o)) []
    | None => mkOut (RError NameHasNoOwner) []
    end.

Definition spec_list_queued (t : table) (n : name) : out :=
  match queue t n with
  | [] => mkOut (RError NameHasNoOwner) []
  | q => mkOut (RQueue (map (fun e => unique_name (fst e)) q)) []
  end.

(* ---- histories ------------------------------------------------------------------------------------- *)
Definition spec_connect (t : table) : table * out :=
  let c := t_next t in
  (mkTable (c + 1) (t_live t ++ [c]) (t_queues t), mkOut (RHello (unique_name c)) []).

(* an operation attributed to something that is not a connected client does nothing *)
Definition spec_step (t : table) (o : op) : table * out :=
  match o with
  | Connect => spec_connect t
  | Request c n f => if is_live t c then spec_request t c n f else (t, mkOut RNone [])
  | Release c n => if is_live t c then spec_release t c n else (t, mkOut RNone [])
  | GetOwner c n => if is_live t c then (t, spec_get_owner t n) else (t, mkOut RNone [])
  | ListQueued c n => if is_live t c then (t, spec_list_queued t n) else (t, mkOut RNone [])
  | Disconnect c => if is_live t c then spec_disconnect t c else (t, mkOut RNone [])
  end.

Fixpoint spec_run_from (t : table) (h : list op) : table * list out :=
  match h with
  | [] => (t, [])
  | o :: r =>
      let (t1, x) := spec_step t o in
      let (t2, xs) := spec_run_from t1 r in
      (t2, x :: xs)
  end.

Definition spec_run (h : list op) : table * list out := spec_run_from empty h.
