(* Reference message-bus daemon for C12, as far as match rules go (DBus
   specification, "Message Bus Message Routing"): per connection the daemon
   holds a MULTISET of match rules.  AddMatch adds one instance of the rule,
   RemoveMatch removes one instance (MatchRuleNotFound when it holds none),
   and a broadcast signal is forwarded to the connection iff at least one
   held rule is satisfied by it.

   A rule arrives as text.  What a text means is given by the reader of rule
   texts of Model/Router.v (`parse_rule`, the one Bus.dbus_AddMatch uses;
   C12_rule_string says it reads back what client.addMatch writes) and by the
   match-rule semantics of Spec/MatchSpec.v.  A text that cannot be read, or
   that names a message type that does not exist, is refused
   (MatchRuleInvalid).  The empty text is the rule without constraints, which
   every message satisfies (a daemon accepts it; `parse_rule`, the built-in
   bus's reader, cannot read it, so it is given its meaning here). *)
From Tx Require Import Lib.Base Model.Router Spec.MatchSpec.

Definition rule_of_text (t : str) : option rule :=
  match t with
  | [] => Some empty_rule
  | _ => match parse_rule t with
         | Ok r => if registrable r then Some r else None
         | Err _ => None
         end
  end.

(* the rule texts held for the connection, with multiplicity *)
Definition daemon := list str.

(* AddMatch: None = error reply *)
Definition d_add (t : str) (d : daemon) : option daemon :=
  match rule_of_text t with Some _ => Some (t :: d) | None => None end.

(* RemoveMatch removes ONE instance: None = MatchRuleNotFound *)
Fixpoint d_remove (t : str) (d : daemon) : option daemon :=
  match d with
  | [] => None
  | x :: d' => if str_eqb t x then Some d' else option_map (cons x) (d_remove t d')
  end.

(* a broadcast signal is forwarded iff some held rule is satisfied *)
Definition d_forwards (d : daemon) (m : msg) : bool :=
  existsb (fun t => match rule_of_text t with Some r => matches r m | None => false end) d.
