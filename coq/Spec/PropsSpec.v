(* Specification of remote property access (property C17), written from the
   property text and the DBus specification's description of
   org.freedesktop.DBus.Properties, not from objects.py.

   It speaks about a class hierarchy's DECLARED properties and about the
   HISTORY of operations only; there is no cache, no descriptor, no storage
   key.  The declaration data types (interfaces with properties, DBusProperty
   attributes, classes) and the observation types (op, reply, signal) are
   those of Model/PropsModel.v.

   `present sig v` is how a value v of a property declared with signature sig
   appears on the wire (signature written in the variant, value read back), or
   Err when v cannot be sent under that declaration.  The specification is
   parametric in it; C17_get_typed says what it is for conforming values of a
   basic declared type. *)
From Tx Require Import Lib.Base Model.PyVal Model.PropsModel.
Local Open Scope N_scope.

Section Spec.
  Variable present : str -> pyval -> res (str * pyval).
  Variable h : hier.

  (* --- which properties the hierarchy declares ------------------------------ *)

  Definition all_ifaces : list iface := flat_map c_ifaces h.

  (* DBusProperty(pname, interface) denotes property pname of the named
     interface, or - no interface given - of the first interface of the
     hierarchy (subclass first) that has a property of that name *)
  Definition denotes (d : dprop) : option (str * pdecl) :=
    first_some (fun i =>
                  if match d_iface d with Some n => str_eqb (i_name i) n | None => true end
                  then option_map (fun p => (i_name i, p)) (find_prop i (d_pname d))
                  else None) all_ifaces.

  Record decl := mkDecl { dc_attr : str; dc_iface : str; dc_prop : pdecl }.
  Definition dc_name (d : decl) : str := p_name (dc_prop d).

  (* every (attribute, interface, property) the object offers, subclass first *)
  Definition declared : list decl :=
    flat_map (fun c => flat_map (fun d => match denotes d with
                                           | Some (i, p) => [mkDecl (d_attr d) i p]
                                           | None => []
                                           end) (c_attrs c)) h.

  Definition readable (p : pdecl) : bool := match p_acc p with AWrite => false | _ => true end.
  Definition writable (p : pdecl) : bool := match p_acc p with ARead => false | _ => true end.
  Definition notifies (p : pdecl) : bool := match p_emits p with EmTrue => true | _ => false end.

  Definition by_attr (a : str) : option decl := find (fun d => str_eqb (dc_attr d) a) declared.

  (* the property a remote call names; an empty interface name stands for
     "whichever interface has it" (see [clear]) *)
  Definition named (i n : str) : option decl :=
    find (fun d => (negb (nonempty i) || str_eqb (dc_iface d) i) && str_eqb (dc_name d) n) declared.

  (* with an empty interface name the DBus specification leaves the choice
     open when several interfaces have a property of that name: the statements
     about '' are made where the choice is forced *)
  Definition clear (i n : str) : Prop :=
    nonempty i = true \/
    forall d d', In d declared -> In d' declared -> dc_name d = n -> dc_name d' = n -> dc_iface d = dc_iface d'.

  (* --- histories ------------------------------------------------------------ *)

  (* the connection a remote call arrives on (0 for local operations) *)
  Definition arrives (o : op) : nat :=
    match o with OGet c _ _ | OSet c _ _ _ | OGetAll c _ => c | _ => 0%nat end.

  (* is the object exported on connection c after the operations `older`
     (newest first)?  The last export / unexport on c decides. *)
  Fixpoint exp_in (older : list op) (c : nat) : bool :=
    match older with
    | [] => false
    | OExport c' :: r => if Nat.eqb c' c then true else exp_in r c
    | OUnexport c' :: r => if Nat.eqb c' c then false else exp_in r c
    | _ :: r => exp_in r c
    end.

  (* the connection of the most recent export *)
  Fixpoint handler_in (older : list op) : option nat :=
    match older with
    | [] => None
    | OExport c :: _ => Some c
    | _ :: r => handler_in r
    end.

  (* the property an operation assigns and the value, given whether the object
     was exported before it: a local assignment always takes effect, a remote
     Set only on an exported object and a known writable property *)
  Definition write_of (was_exported : bool) (o : op) : option (decl * pyval) :=
    match o with
    | OAssign a v => option_map (fun d => (d, v)) (by_attr a)
    | OSet _ i n v =>
        if was_exported then
          match named i n with
          | Some d => if writable (dc_prop d) then Some (d, v) else None
          | None => None
          end
        else None
    | _ => None
    end.

  (* newest operation first *)
  Fixpoint latest_rev (rh : list op) (i n : str) : pyval :=
    match rh with
    | [] => PNone                   (* never assigned: Python's None *)
    | o :: older =>
        match write_of (exp_in older (arrives o)) o with
        | Some (d, v) => if str_eqb (dc_iface d) i && str_eqb (dc_name d) n then v else latest_rev older i n
        | None => latest_rev older i n
        end
    end.

  (* the value most recently assigned to property n of interface i *)
  Definition latest (hist : list op) (i n : str) : pyval := latest_rev (rev hist) i n.

  Definition exported_on (hist : list op) (c : nat) : bool := exp_in (rev hist) c.
  Definition handler_of (hist : list op) : option nat := handler_in (rev hist).

  (* --- what each operation must produce after the history hist -------------- *)

  Definition shown (hist : list op) (d : decl) : res (str * pyval) :=
    present (p_sig (dc_prop d)) (latest hist (dc_iface d) (dc_name d)).

  Definition s_get (hist : list op) (c : nat) (i n : str) : reply :=
    if exported_on hist c then
      match named i n with
      | Some d =>
          if readable (dc_prop d)
          then match shown hist d with Ok (sg, x) => RVal sg x | Err _ => RErr end
          else RErr
      | None => RErr
      end
    else RErr.

  (* PropertiesChanged signals of one operation.  The property text asks for ONE
     signal per assignment of a notifying property and does not speak about
     connections.  Read here as: the signal goes out on the connection of the most
     recent export (an object exported on two connections at once announces on
     the later one only - what the code does, taken as given), whether or not
     the object has since been unexported; nothing before the first export. *)
  Definition s_changed (hist : list op) (o : op) : list signal :=
    match write_of (exported_on hist (arrives o)) o with
    | Some (d, v) =>
        if notifies (dc_prop d) then
          match handler_of hist with
          | Some c =>
              match present (p_sig (dc_prop d)) v with
              | Ok (sg, x) => [SigChanged c (dc_iface d) (dc_name d) sg x]
              | Err _ => []
              end
          | None => []
          end
        else []
    | None => []
    end.

  (* What the statement DEMANDS of the signals `sigs` an operation emits, given
     that reading (s_changed satisfies it, see changed_demanded_refl):
     - never exported: none;
     - the object is exported on the connection of its most recent export:
       exactly s_changed (one signal there, or none);
     - it is exported only on another connection (the latest one was
       unexported again): the right number and content, the connection is left open;
     - it is exported nowhere any more: either nothing or s_changed. *)
  Definition unplaced (s : signal) : signal :=
    match s with
    | SigChanged _ i n sg v => SigChanged 0 i n sg v
    | SigAdded _ d => SigAdded 0 d
    | SigRemoved _ l => SigRemoved 0 l
    end.

  Definition changed_demanded (conns : list nat) (hist : list op) (o : op) (sigs : list signal) : Prop :=
    match handler_of hist with
    | None => sigs = []
    | Some c =>
        if exported_on hist c then sigs = s_changed hist o
        else if existsb (exported_on hist) conns
             then map unplaced sigs = map unplaced (s_changed hist o)
             else sigs = [] \/ sigs = s_changed hist o
    end.

  (* GetAll i, as a finite map: the entry of property name n *)
  Definition s_entry (hist : list op) (i n : str) : option (res (str * pyval)) :=
    match find (fun d => str_eqb (dc_iface d) i && str_eqb (dc_name d) n && readable (dc_prop d)) declared with
    | Some d => Some (shown hist d)
    | None => None
    end.

  (* --- well-formed declarations --------------------------------------------- *)

  Definition iface_names_distinct : Prop := NoDup (map i_name all_ifaces).
  Definition prop_names_distinct : Prop := forall i, In i all_ifaces -> NoDup (map p_name (i_props i)).
  Definition iface_names_nonempty : Prop := forall i, In i all_ifaces -> nonempty (i_name i) = true.
  Definition attrs_distinct : Prop := NoDup (flat_map (fun c => map d_attr (c_attrs c)) h).
  Definition all_denote : Prop := forall c d, In c h -> In d (c_attrs c) -> denotes d <> None.

  (* each interface is declared once, with distinct property names; every
     DBusProperty names a property that exists; no attribute name is reused
     within the hierarchy *)
  Definition wf : Prop :=
    iface_names_distinct /\ prop_names_distinct /\ iface_names_nonempty /\ attrs_distinct /\ all_denote.
End Spec.

(* --- [wf] and [clear] in decidable form (used by the harness; reflection lemmas in
   Proofs/PropsProofs.v) *)

Fixpoint nodup_b (l : list str) : bool :=
  match l with
  | [] => true
  | x :: r => negb (existsb (str_eqb x) r) && nodup_b r
  end.

Definition wf_b (h : hier) : bool :=
  let ifs := all_ifaces h in
  nodup_b (map i_name ifs)
  && forallb (fun i => nodup_b (map p_name (i_props i))) ifs
  && forallb (fun i => nonempty (i_name i)) ifs
  && nodup_b (flat_map (fun c => map d_attr (c_attrs c)) h)
  && forallb (fun c => forallb (fun d => match denotes h d with Some _ => true | None => false end) (c_attrs c)) h.

(* [clear], decided *)
Definition clear_b (h : hier) (i n : str) : bool :=
  nonempty i ||
  match filter (fun d => str_eqb (dc_name d) n) (declared h) with
  | [] => true
  | d :: r => forallb (fun d' => str_eqb (dc_iface d') (dc_iface d)) r
  end.

