(* Specification for C09, written from the property text.

   Part 1 - "The Deferred returned when connecting always fires: with a ready connection once
   authentication and Hello succeed on the first reachable address of the bus address list (tried in
   listed order), or with a failure when no address is reachable, authentication is refused, Hello
   fails, or the transport closes at any earlier point."
   [connect_outcome addr serial0 evs] reads the result off the history alone.

   Part 2 - "When an established connection is lost at any moment, every outstanding call fails once
   with the loss reason, its timers are cancelled, every disconnect callback registered on the
   connection or on a live remote-object proxy runs exactly once, and nothing fires afterwards."
   [loss_ok] and [quiet] are contracts between what can be observed of a connection just before the
   loss, just after it, and at any later time.

   Only the vocabulary (akind, event, owner, cres, cause; Calls.event, Calls.outcome) is taken from
   the models; no function of Model/Connect.v is used here. *)
From Tx Require Import Lib.Base Model.Calls Model.Connect.
From Coq Require Import Permutation.
Local Open Scope N_scope.

(* ---- Part 1 ------------------------------------------------------------- *)

(* the entries of the address list that name a transport we can connect to *)
Definition usable (a : akind) : bool :=
  match a with AUnix | ATcp | ANonceTcp => true | AOther => false end.

Fixpoint addresses (addr : list akind) : nat :=
  match addr with
  | [] => O
  | a :: r => if usable a then S (addresses r) else addresses r
  end.

Definition serial_limit : N := 4294967295.

(* Hello has been sent with serial [s]: the first of its reply, its error reply, the loss *)
Fixpoint await_hello (s : N) (evs : list event) : option cres :=
  match evs with
  | [] => None
  | ECalls (EReturn rs _) :: r => if rs =? s then Some CReady else await_hello s r
  | ECalls (EError rs _ _) :: r => if rs =? s then Some (CFailed CHello) else await_hello s r
  | ECalls (ELost reason) :: _ => Some (CFailed (CLost reason))
  | _ :: r => await_hello s r
  end.

(* authentication was refused and the client hangs up: the failure arrives with the close *)
Fixpoint await_close (evs : list event) : option cres :=
  match evs with
  | [] => None
  | ECalls (ELost reason) :: _ => Some (CFailed (CLost reason))
  | _ :: r => await_close r
  end.

(* connected to the first reachable address: authentication *)
Fixpoint await_auth (s : N) (evs : list event) : option cres :=
  match evs with
  | [] => None
  | EAuthOk :: r =>
      if s <=? serial_limit then await_hello s r
      else Some (CFailed CHello)          (* no 32-bit serial left: Hello cannot be sent *)
  | EAuthRefused :: r => await_close r
  | ECalls (ELost reason) :: _ => Some (CFailed (CLost reason))
  | _ :: r => await_auth s r
  end.

(* the addresses are tried in listed order; [rest] are still untried after the current one *)
Fixpoint walk (rest : nat) (s : N) (evs : list event) : option cres :=
  match evs with
  | [] => None
  | EEpFail :: r =>
      match rest with
      | O => Some (CFailed CNoAddress)     (* no address is reachable *)
      | S k => walk k s r
      end
  | EEpOk :: r => await_auth s r          (* the first reachable address; later ones are never tried *)
  | _ :: r => walk rest s r
  end.

Definition connect_outcome (addr : list akind) (serial0 : N) (evs : list event) : option cres :=
  match addresses addr with
  | O => Some (CFailed CNoAddress)
  | S k => walk k serial0 evs
  end.

Definition fired_as (o : option cres) : list cres :=
  match o with Some r => [r] | None => [] end.

(* ---- Part 2 ------------------------------------------------------------- *)

(* what can be observed of a connection at one moment *)
Record snapshot := Snapshot {
  sn_outstanding : list nat;              (* Deferreds of calls issued and not completed *)
  sn_timers : list N;                     (* delayed calls in the reactor, by serial *)
  sn_registered : list (owner * N);       (* disconnect callbacks registered and not cancelled, on the
                                             connection and on every proxy the user holds *)
  sn_completed : list (nat * outcome);    (* completions delivered so far, in order *)
  sn_ran : list (owner * N * N);          (* disconnect callbacks run so far: owner, callback, reason *)
  sn_fired : list cres;                   (* results of the Deferred of connect() *)
  sn_issued : nat                         (* Deferreds handed out so far *)
}.

Definition expected_failures (r : N) (b : snapshot) : list (nat * outcome) :=
  map (fun i => (i, OLost r)) (sn_outstanding b).

Definition expected_runs (r : N) (b : snapshot) : list (owner * N * N) :=
  map (fun x => (fst x, snd x, r)) (sn_registered b).

(* the loss, with reason r, takes the connection from snapshot b to snapshot a *)
Definition loss_ok (r : N) (b a : snapshot) : Prop :=
  (* every outstanding call fails with the loss reason ... *)
  Permutation (sn_completed a) (sn_completed b ++ expected_failures r b) /\
  (* ... once: it had not completed before and no Deferred ever completes twice *)
  NoDup (map fst (sn_completed a)) /\
  sn_outstanding a = [] /\
  (* its timers are cancelled *)
  sn_timers a = [] /\
  (* every registered callback runs exactly once *)
  sn_ran b = [] /\
  Permutation (sn_ran a) (expected_runs r b) /\
  (* the Deferred of connect() has long fired and does not fire again *)
  sn_fired a = sn_fired b.

(* nothing fires afterwards: at any later snapshot l no callback has run again, and whatever has
   completed since belongs to a call the user issued after the loss *)
Definition quiet (a l : snapshot) : Prop :=
  sn_ran l = sn_ran a /\
  sn_fired l = sn_fired a /\
  exists later, sn_completed l = sn_completed a ++ later /\
                Forall (fun x => (sn_issued a <= fst x)%nat) later.

(* ---- reading a snapshot off a state of Model/Connect.v (record projections only) ---------- *)

Definition snap (st : Connect.state) : snapshot :=
  Snapshot (map (fun p => pc_id (snd p)) (st_pending (st_calls st)))
           (timer_serials (st_calls st))
           (map (fun cb => (OConn, cb)) (st_dcbs st) ++
            flat_map (fun p => map (fun cb => (OProxy (po_req p), cb)) (po_cbs p)) (st_objs st))
           (st_done (st_calls st))
           (st_ran st)
           (st_fired st)
           (st_next_id (st_calls st)).

(* ---- Part 2, with disconnect callbacks that act on the connection while the loss is handled ----

   b: just before the loss; m: when the connection-level callbacks have run (they may have registered
   or cancelled callbacks on proxies, whose turn comes next); a: when connectionLost returns.
   - Every call outstanding at the loss, and every call a callback issued while the loss was handled,
     has failed with the loss reason (a call for which no 32-bit serial was left failed at once and was
     never outstanding); no Deferred completes twice; nothing else completed; no pending entry and no
     timer is left.
   - No callback had run before.  The callbacks that run are: every connection-level callback
     registered at the loss, once per registration (whether or not a callback cancels it meanwhile; a
     connection-level callback registered meanwhile does not run), and every proxy-level callback
     registered when the connection-level callbacks have finished, once per registration.
   - connect()'s Deferred is not touched. *)
Definition on_connection (x : owner * N) : bool :=
  match fst x with OConn => true | OProxy _ => false end.

Definition on_proxy (x : owner * N) : bool := negb (on_connection x).

Definition with_reason (r : N) (l : list (owner * N)) : list (owner * N * N) :=
  map (fun x => (fst x, snd x, r)) l.

Definition expected_runs_reentrant (r : N) (b m : snapshot) : list (owner * N * N) :=
  with_reason r (filter on_connection (sn_registered b) ++ filter on_proxy (sn_registered m)).

Definition loss_reentrant_ok (r : N) (b m a : snapshot) : Prop :=
  sn_outstanding a = [] /\
  sn_timers a = [] /\
  NoDup (map fst (sn_completed a)) /\
  (forall i, In i (sn_outstanding b) -> In (i, OLost r) (sn_completed a)) /\
  (forall i, (sn_issued b <= i < sn_issued a)%nat ->
             In (i, OLost r) (sn_completed a) \/ In (i, OFailed) (sn_completed a)) /\
  (exists new, sn_completed a = sn_completed b ++ new /\
               forall x, In x new ->
                         In (fst x) (sn_outstanding b) \/ (sn_issued b <= fst x < sn_issued a)%nat) /\
  sn_ran b = [] /\
  Permutation (sn_ran a) (expected_runs_reentrant r b m) /\
  sn_fired a = sn_fired b.

(* ---- Part 2, with calls whose Deferred the caller has cancelled ----------------------------------

   A cancelled Deferred has fired (with CancelledError) and is no longer outstanding for the caller;
   whatever the connection later does with that call is not delivered to anybody.  [view cancelled s]
   is snapshot s as the caller sees it.  What is NOT filtered is sn_timers: "its timers are
   cancelled" and "nothing fires afterwards" speak of the reactor, cancelled calls included. *)
Definition not_cancelled (cancelled : list nat) (i : nat) : bool :=
  negb (existsb (Nat.eqb i) cancelled).

Definition view (cancelled : list nat) (s : snapshot) : snapshot :=
  Snapshot (filter (not_cancelled cancelled) (sn_outstanding s))
           (sn_timers s)
           (sn_registered s)
           (filter (fun x => not_cancelled cancelled (fst x)) (sn_completed s))
           (sn_ran s)
           (sn_fired s)
           (sn_issued s).
