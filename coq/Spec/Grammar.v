(* The DBus specification's grammar for names and object paths, written from
   the specification's prose (not from txdbus):

   - Object path: begins with '/', consists of elements separated by '/';
     each element only [A-Za-z0-9_]; no element may be empty; no trailing '/'
     unless the path is the root path "/".
   - Interface / error name: 2 or more elements separated by '.'; each
     element at least one character, only [A-Za-z0-9_], must not begin with a
     digit; at most 255 characters.
   - Bus name: unique names begin with ':', others must not; 2 or more
     elements separated by '.', each at least one character, only
     [A-Za-z0-9_-]; only elements of a unique name may begin with a digit; at
     most 255 characters.
   - Member name: only [A-Za-z0-9_], may not begin with a digit, no '.', at
     least one and at most 255 characters.                                   *)
From Tx Require Import Lib.Base.
Local Open Scope N_scope.

Definition g_digit (c : N) : bool := (48 <=? c) && (c <=? 57).
Definition g_letter (c : N) : bool :=
  ((65 <=? c) && (c <=? 90)) || ((97 <=? c) && (c <=? 122)) || (c =? 95).
Definition g_word (c : N) : bool := g_letter c || g_digit c.         (* [A-Za-z0-9_] *)
Definition g_busch (c : N) : bool := g_word c || (c =? 45).          (* [A-Za-z0-9_-] *)

(* an element: non-empty, all characters allowed, first character allowed as first *)
Definition element (first_ok any_ok : N -> bool) (e : str) : bool :=
  match e with
  | [] => false
  | c :: r => first_ok c && any_ok c && forallb any_ok r
  end.

Definition g_path (p : str) : bool :=
  match p with
  | 47 :: [] => true
  | 47 :: rest => forallb (element g_word g_word) (split_on 47 rest)
  | _ => false
  end.

Definition dotted (first_ok any_ok : N -> bool) (n : str) : bool :=
  let es := split_on 46 n in
  (2 <=? length es)%nat && forallb (element first_ok any_ok) es.

Definition g_interface (n : str) : bool :=
  dotted (fun c => negb (g_digit c)) g_word n && (length n <=? 255)%nat.

Definition g_error := g_interface.

Definition g_bus (n : str) : bool :=
  match n with
  | 58 :: r => dotted (fun _ => true) g_busch r
  | _ => dotted (fun c => negb (g_digit c)) g_busch n
  end && (length n <=? 255)%nat.

Definition g_member (n : str) : bool :=
  element (fun c => negb (g_digit c)) g_word n && (length n <=? 255)%nat.
