(* C05 specification: what "work proportional to the length" and "no data
   unrelated in size to the input" mean, written from the property text and
   the DBus limits, not from the decoder.

   Work is counted in three currencies (Model/MarshalCost.v [cost]):
     calls - unmarshaller calls + bytes of decoded text,
     scan  - signature characters handed to the signature splitter,
     units - array iterations + variants + bytes of decoded text.
   A signature that arrives inside the data (a variant's) has at most 255
   bytes, so the per-element overhead is governed by max(|sig|, 255). *)
From Tx Require Import Lib.Base.
Local Open Scope nat_scope.

(* inputs are byte strings *)
Definition wf_bytes (d : bytes) : Prop := Forall (fun x => (x < 256)%N) d.

(* nesting depth / loop iterations: linear in |sig| + |data| *)
Definition lin_fuel_spec (nsig ndata : nat) : nat := S (S (nsig + ndata)).

(* marshal.unmarshal(sig, data): bounds for units, calls, scan and the decoded size *)
Definition sig_scale (sig : str) : nat := Nat.max (length sig) 255.
Definition units_bound (data : bytes) : nat := 2 * length data.
Definition calls_bound (sig : str) (data : bytes) : nat := length sig + sig_scale sig * (2 * length data).
Definition scan_bound (sig : str) (ncalls : nat) : nat := length sig + sig_scale sig * ncalls.

(* parseMessage(raw): header signature yyyyuua(yv) (11 characters), body
   signature at most 255 characters = 1020 bytes of UTF-8: linear in |raw| *)
Definition parse_calls_bound (raw : bytes) : nat := 1042 + 3060 * length raw.
Definition parse_scan_bound (raw : bytes) : nat := 1024 * (1020 + 2160 * length raw).
