(* Specification for C11, written from the property text:

     "Between any two clients attached to the same bus, calling a method through
      a remote-object proxy - whether its interface was declared explicitly or
      discovered by introspection - runs that method on the exporting client with
      equal arguments and completes with a value equal to what it returned, or
      with a RemoteError mirroring what it raised.  This holds for any number of
      clients and concurrent calls and for any order in which the transports
      deliver their bytes."

   Vocabulary taken from the models (types only): Python values (PyVal), the
   request a proxy call makes (ProxyCall.creq), calls / invocations / how user
   code ends (Dispatch.call, invocation, later), completions (System.completion),
   and from the finished specifications:
     Spec/WireSpec.v, Conforms.v, Readback.v   "arguments conforming to a signature", and the
                                               value decoding yields for them ("equal", C01)
     Spec/DispatchSpec.v                       which exported method a call addresses, the
                                               implementations bound to it, the error name
                                               of a raised exception (C10)
     Spec/CallSpec.v                           the documented value convention of a completed
                                               call (C08): none -> None, one non-struct value
                                               -> it, else the list
   No function of Model/System.v or Model/ProxyCall.v is used here. *)
From Tx Require Import Lib.Base Model.PyVal Model.Marshal.
From Tx Require Import Spec.WireSpec Spec.Readback Spec.Conforms Spec.WireTyped.
From Tx Require Model.Dispatch Spec.DispatchSpec Model.Calls Spec.CallSpec Model.System Model.ProxyCall.
Local Open Scope N_scope.

(* "equal arguments": what arrives is the read-back (C01) of the values passed *)
Record passed (ts : list ty) (args : list pyval) (ws : list wval) (fuel : nat) : Prop := mkPassed {
  pa_conf : conf_seq ts args ws;                        (* the values conform to the declared signature *)
  pa_wt : wt_seq [] ts ws;                              (* ... which is a valid one (dict keys distinct) *)
  pa_depth : (wdepth_list ws <= fuel)%nat;              (* the codec's fuel covers the nesting depth *)
  pa_size : len (enc_seq ts ws 0%nat true) < 4294967296          (* and the encoding is shorter than 2^32 bytes *)
}.

Definition arrived (ts : list ty) (ws : list wval) : list pyval := readback_seq [] ts ws.

(* the C08 convention on decoded values *)
Definition convention_pv (sig : str) (vals : list pyval) : option pyval :=
  match vals with
  | [] => None
  | [v] => if starts_with [40] sig then Some (PList [v]) else Some v
  | _ => Some (PList vals)
  end.

(* a text a DBus STRING can carry *)
Definition dbus_text (t : bytes) : Prop :=
  existsb (N.eqb 0) t = false /\ utf8_valid t = true.

(* "completes with a value equal to what it returned, or with a RemoteError
   mirroring what it raised": [fin] is how the method ended (returned v / raised
   e, at once or through the Deferred it returned), [x] what the caller's
   Deferred delivered.
   A returned value is judged when it has the declared arity and conforms to the
   declared return signature [ts_out]; [returned_fits] is the fuel the
   dispatcher's encoder gives itself (a bound on the nesting depth that every
   value meets - its depth is below its size -, carried as a premise like the
   fuel premise of C01).
   A raised exception is judged when its error name (dbusErrorName, else
   org.txdbus.PythonException.<Class>) is a valid DBus error name and its text a
   DBus string: the RemoteError then carries exactly that name and that text.
   (With an invalid name the reply is org.txdbus.InvalidErrorName and the text
   is preceded by txdbus's note on the name: C10_result_mapping; the end-to-end
   form of that case is left to the correspondence run.) *)
Definition returned_fits (ts_out : list ty) (vals : pyval) (ws : list wval) : Prop :=
  (wdepth_list ws <= length (show_list ts_out) + 4 * pv_size vals + 8)%nat.

Definition mirrors (ts_out : list ty) (fuel : nat) (fin : Dispatch.later) (x : System.completion) : Prop :=
  match fin with
  | Dispatch.LValue v =>
      forall vals vs ws,
        DispatchSpec.returned_values (length ts_out) v = Some vals ->
        seq_items vals = Ok vs ->
        passed ts_out vs ws fuel -> returned_fits ts_out vals ws ->
        x = System.CValue (convention_pv (show_list ts_out) (arrived ts_out ws))
  | Dispatch.LFail e =>
      DispatchSpec.name_is_valid e = true ->
      passed [TString] [PStr (Dispatch.x_text e)] [WStr (Dispatch.x_text e)] fuel ->   (* the text is a DBus STRING *)
      x = System.CRemote (DispatchSpec.error_name_of e) (Dispatch.x_text e) [PStr (Dispatch.x_text e)]
  end.

(* the call as it must reach the exporter: path, interface, member and signature
   of the request, the read-back of the arguments, the caller's unique name *)
Definition arriving_call (q : ProxyCall.creq) (args : list pyval) (sender : str) (serial : Z) : Dispatch.call :=
  Dispatch.mkCall (ProxyCall.q_path q) (ProxyCall.q_iface q) (ProxyCall.q_member q) (ProxyCall.q_sig q)
                  args (Some sender) serial (ProxyCall.q_expect q).

(* exactly one entry of a log belongs to a key *)
Definition only {A} (p : A -> bool) (l : list A) (x : A) : Prop := filter p l = [x].
