(* Specification of UNIX file descriptor passing (property C20), written from
   the DBus specification ("UNIX_FD": a UINT32 index into the array of
   descriptors that accompanies the message; header field UNIX_FDS (9): "the
   number of Unix file descriptors that accompany the message") and from the
   property text - not from the code.

   Receiving.  A peer sends messages m1 m2 ... back to back on a stream socket;
   message mi is accompanied by the descriptors fds_i.  What reaches the receiver
   is a sequence of events  Fd v  (one descriptor arrived) and  Read b  (some
   bytes arrived) such that                                   [stream_order]
     - the bytes read so far are a prefix of  m1 ++ m2 ++ ...,
     - the descriptors arrived so far are a prefix of  fds_1 ++ fds_2 ++ ...
       (descriptors arrive in sending order),
     - when the read that carries the FINAL byte of mi is delivered, every
       descriptor of m1 ... mi has already arrived (each descriptor no later than
       the final byte of its message).  Nothing else is assumed: descriptors of
       later messages may arrive early, reads may be cut anywhere.
   Required                                                     [expected]
     - exactly the messages whose final byte has arrived are delivered, in order;
     - message mi is delivered with every UNIX_FD argument of index j resolved to
       the j-th element of fds_i (nothing - None - when fds_i has no such element),
       whatever else is queued;
     - afterwards the queue holds exactly the descriptors that arrived and belong
       to messages not yet delivered.

   Sending.  The descriptor arguments of a body are numbered in argument order
   (depth first, left to right: [fd_leaves] = 0, 1, 2 ...); the message's
   descriptor array lists them in that order; UNIX_FDS declares their count;
   the descriptors are handed to the transport, in that order, before the
   message's bytes. *)
From Tx Require Import Lib.Base Model.PyVal Model.Marshal Model.Message Model.FdFraming
  Spec.WireSpec Spec.Readback Spec.WireTyped Spec.Conforms Spec.MsgSpec.
Local Open Scope N_scope.

(* ------------------------------------------------------------------------ *)
(* a message as sent: the wire message and the descriptors accompanying it     *)

Record sent := mkSent { sn_msg : smsg; sn_fds : list pyval }.

Definition wire (x : sent) : bytes := msg_enc (sn_msg x).

(* the UNIX_FDS header field (code 9); for a list with several, the last one *)
Fixpoint fds_field (fields : list (Z * ty * wval)) : option Z :=
  match fields with
  | [] => None
  | (code, t, w) :: r =>
      match fds_field r with
      | Some z => Some z
      | None => match code, w with 9%Z, WInt z => Some z | _, _ => None end
      end
  end.

(* the number of descriptors the message declares (none without the field) *)
Definition declared (s : smsg) : nat :=
  match fds_field (s_fields s) with Some z => Z.to_nat z | None => 0%nat end.

(* a conformant message with its descriptors: well typed (Spec/MsgSpec.v;
   UNIX_FD indices are any UINT32 - they need not be below the count) and
   declaring exactly the descriptors that accompany it *)
Definition sent_ok (x : sent) : Prop :=
  msg_wt (sn_fds x) (sn_msg x) /\ declared (sn_msg x) = length (sn_fds x).

(* what the receiving callback must see of a message *)
Definition seen := (Z * Z * bool * bool * list (Z * pyval) * option (list pyval))%type.
  (* type, serial, reply expected, auto start, known header fields in header order, body *)

Definition seen_of (x : sent) : seen :=
  let s := sn_msg x in
  (s_type s, s_serial s, expect_reply_of s, auto_start_of s,
   recovered_fields (sn_fds x) s, recovered_body (sn_fds x) s).

(* the same view of a message object the implementation delivered *)
Definition view (p : parsed) : seen :=
  let '(mt, serial, er, au, attrs, body) := p in
  (Z.of_N mt, serial, er, au, map (fun a => (Z.of_N (attr_code (fst a)), snd a)) attrs, body).

(* ------------------------------------------------------------------------ *)
(* arrival                                                                    *)

Fixpoint bytes_of (ins : list input) : bytes :=
  match ins with
  | [] => []
  | Read b :: r => b ++ bytes_of r
  | Fd _ :: r => bytes_of r
  end.

Fixpoint fds_of (ins : list input) : list pyval :=
  match ins with
  | [] => []
  | Fd v :: r => v :: fds_of r
  | Read _ :: r => fds_of r
  end.

(* how many leading messages lie completely within the first n bytes of the stream *)
Fixpoint complete (msgs : list sent) (n : nat) : nat :=
  match msgs with
  | [] => 0%nat
  | x :: r =>
      if (length (wire x) <=? n)%nat then S (complete r (n - length (wire x))) else 0%nat
  end.

(* the descriptors of the first k messages, in sending order *)
Definition fds_upto (msgs : list sent) (k : nat) : list pyval :=
  concat (map sn_fds (firstn k msgs)).

Definition prefix {A} (p l : list A) : Prop := exists r, l = p ++ r.

Definition stream_order (msgs : list sent) (ins : list input) : Prop :=
  prefix (bytes_of ins) (concat (map wire msgs)) /\
  prefix (fds_of ins) (concat (map sn_fds msgs)) /\
  forall pre b post, ins = pre ++ Read b :: post ->
    (length (fds_upto msgs (complete msgs (length (bytes_of pre) + length b)))
     <= length (fds_of pre))%nat.

(* the required outcome after the events [ins]: the messages delivered (as the
   callbacks must see them), the queue, the bytes of the message still incomplete *)
Definition expected (msgs : list sent) (ins : list input) : list seen * list pyval * bytes :=
  let k := complete msgs (length (bytes_of ins)) in
  (map seen_of (firstn k msgs),
   skipn (length (fds_upto msgs k)) (fds_of ins),
   skipn (length (concat (map wire (firstn k msgs)))) (bytes_of ins)).

(* a decision procedure for stream_order (for descriptors that are plain integers),
   sound by Proofs/FdProofs.v stream_order_b_sound: walk the events; [nb] bytes and
   [nf] descriptors have arrived so far *)
Fixpoint order_ok (msgs : list sent) (ins : list input) (nb nf : nat) : bool :=
  match ins with
  | [] => true
  | Fd _ :: r => order_ok msgs r nb (S nf)
  | Read b :: r =>
      (length (fds_upto msgs (complete msgs (nb + length b))) <=? nf)%nat
      && order_ok msgs r (nb + length b) nf
  end.

Definition pv_eqb (a b : pyval) : bool :=
  match a, b with
  | PInt x, PInt y => Z.eqb x y
  | _, _ => false
  end.

Fixpoint is_prefix {A} (eqb : A -> A -> bool) (p l : list A) : bool :=
  match p, l with
  | [], _ => true
  | x :: p', y :: l' => eqb x y && is_prefix eqb p' l'
  | _ :: _, [] => false
  end.

Definition stream_order_b (msgs : list sent) (ins : list input) : bool :=
  is_prefix N.eqb (bytes_of ins) (concat (map wire msgs)) &&
  is_prefix pv_eqb (fds_of ins) (concat (map sn_fds msgs)) &&
  order_ok msgs ins 0 0.

(* ------------------------------------------------------------------------ *)
(* the same from the start of the connection: the stream is the handshake bytes
   [hs] (NUL byte, authentication lines) followed by the messages.  Descriptors
   may arrive anywhere after the start - also before or together with the line
   that completes the handshake (a peer pipelining its first message) -, still in
   sending order and each no later than the final byte of its message. *)
Definition stream_order_hs (hs : bytes) (msgs : list sent) (ins : list input) : Prop :=
  prefix (bytes_of ins) (hs ++ concat (map wire msgs)) /\
  prefix (fds_of ins) (concat (map sn_fds msgs)) /\
  forall pre b post, ins = pre ++ Read b :: post ->
    (length (fds_upto msgs (complete msgs (length (bytes_of pre) + length b - length hs)))
     <= length (fds_of pre))%nat.

(* messages that must have been delivered, and the queue *)
Definition expected_hs (hs : bytes) (msgs : list sent) (ins : list input) : list seen * list pyval :=
  let k := complete msgs (length (bytes_of ins) - length hs) in
  (map seen_of (firstn k msgs), skipn (length (fds_upto msgs k)) (fds_of ins)).

(* the reads of a history *)
Fixpoint reads (ins : list input) : list bytes :=
  match ins with
  | [] => []
  | Read b :: r => b :: reads r
  | Fd _ :: r => reads r
  end.

Fixpoint order_ok_hs (nhs : nat) (msgs : list sent) (ins : list input) (nb nf : nat) : bool :=
  match ins with
  | [] => true
  | Fd _ :: r => order_ok_hs nhs msgs r nb (S nf)
  | Read b :: r =>
      (length (fds_upto msgs (complete msgs (nb + length b - nhs))) <=? nf)%nat
      && order_ok_hs nhs msgs r (nb + length b) nf
  end.

Definition stream_order_hs_b (hs : bytes) (msgs : list sent) (ins : list input) : bool :=
  is_prefix N.eqb (bytes_of ins) (hs ++ concat (map wire msgs)) &&
  is_prefix pv_eqb (fds_of ins) (concat (map sn_fds msgs)) &&
  order_ok_hs (length hs) msgs ins 0 0.

(* ------------------------------------------------------------------------ *)
(* sending                                                                    *)

(* the UNIX_FD indices of a typed value in argument order (depth first, left to
   right).  A descriptor cannot be given inside a variant (sigFromPy infers no
   'h'), so variants contribute none. *)
Fixpoint fd_leaves (t : ty) (w : wval) {struct w} : list Z :=
  match t, w with
  | TFd, WInt z => [z]
  | TArray et, WArray l => flat_map (fd_leaves et) l
  | TStruct ts, WStruct l =>
      (fix go (ts : list ty) (l : list wval) {struct l} : list Z :=
         match ts, l with
         | t :: ts', x :: r => fd_leaves t x ++ go ts' r
         | _, _ => []
         end) ts l
  | TDictEntry kt vt, WStruct [k; x] => fd_leaves kt k ++ fd_leaves vt x
  | _, _ => []
  end.

Fixpoint fd_leaves_seq (ts : list ty) (ws : list wval) : list Z :=
  match ts, ws with
  | t :: ts', w :: ws' => fd_leaves t w ++ fd_leaves_seq ts' ws'
  | _, _ => []
  end.

Definition seqZ (n k : nat) : list Z := map Z.of_nat (seq n k).

(* "a Python value conforming to a type" (Spec/Conforms.v) extended to UNIX_FD:
   the Python value given for a UNIX_FD argument with index z is the z-th entry
   of the message's descriptor array [F] *)
Fixpoint fconf (F : list pyval) (t : ty) (v : pyval) (w : wval) {struct w} : Prop :=
  match t, w with
  | TFd, WInt z => (0 <= z)%Z /\ nth_error F (Z.to_nat z) = Some v
  | TArray et, WArray l =>
      exists items, array_items v = Ok items /\
        (fix all2 (items : list pyval) (l : list wval) {struct l} : Prop :=
           match items, l with
           | [], [] => True
           | x :: items', y :: l' => fconf F et x y /\ all2 items' l'
           | _, _ => False
           end) items l
  | TStruct ts, WStruct l =>
      exists items, seq_items v = Ok items /\
        (fix all3 (ts : list ty) (items : list pyval) (l : list wval) {struct l} : Prop :=
           match ts, items, l with
           | [], [], [] => True
           | t :: ts', x :: items', y :: l' => fconf F t x y /\ all3 ts' items' l'
           | _, _, _ => False
           end) ts items l
  | TDictEntry kt vt, WStruct [k; x] =>
      exists pk pv, seq_items v = Ok [pk; pv] /\ fconf F kt pk k /\ fconf F vt pv x
  | _, _ => conf t v w
  end.

Fixpoint fconf_seq (F : list pyval) (ts : list ty) (vs : list pyval) (ws : list wval) : Prop :=
  match ts, vs, ws with
  | [], [], [] => True
  | t :: ts', v :: vs', w :: ws' => fconf F t v w /\ fconf_seq F ts' vs' ws'
  | _, _, _ => False
  end.

(* constructor arguments denoting an application message whose body may contain
   descriptors: header attributes as in MsgSpec.args_denote (no unix_fds
   attribute given), the body conforming in the sense above, its UNIX_FD
   arguments numbered in argument order and F listing exactly those *)
Definition args_denote_fd (F : list pyval) (attrs : list (attr * pyval)) (body : pyval) (m : amsg) : Prop :=
  (forall a, match field_py m a with
             | Some v => get_attr a attrs = Some v
             | None => get_attr a attrs = None \/ get_attr a attrs = Some PNone
             end) /\
  match body_ts m with
  | [] => F = []
  | ts => exists vs, seq_items body = Ok vs /\ fconf_seq F ts vs (a_body m)
  end /\
  fd_leaves_seq (body_ts m) (a_body m) = seqZ 0 (length F).

(* the wire message sent: the application message's fields, then UNIX_FDS with
   the number of descriptors when there are any *)
Definition smsg_fd (m : amsg) (le : bool) (serial : Z) (nfds : nat) : smsg :=
  {| s_le := le; s_type := Z.of_N (a_type m); s_flags := flags_byte m; s_serial := serial;
     s_fields := fields_of m ++ match nfds with
                                | O => []
                                | _ => [(9%Z, TUInt32, WInt (Z.of_nat nfds))]
                                end;
     s_body_ts := body_ts m; s_body := a_body m |}.

(* what the transport must be asked to do for a message with descriptors F *)
Definition send_spec (F : list pyval) (raw : bytes) : list tcall := map SendFd F ++ [Write raw].
