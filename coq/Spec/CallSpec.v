(* Specification for C08, written from the property text: each outstanding
   remote call completes exactly once, with the outcome of the FIRST event
   that concerns it (the method return or error reply carrying its serial,
   the expiry of its deadline, the loss of the connection).

   Only the vocabulary (val, msg, retsig, ckind, event, outcome) is taken
   from Model/Calls.v; no function of the model is used here. *)
From Tx Require Import Lib.Base Model.Calls.
Local Open Scope N_scope.

(* ---- what a reply carries ------------------------------------------------- *)

(* the signature of the reply; an absent header field means the empty one *)
Definition sig_of (m : msg) : str := match m_sig m with Some s => s | None => [] end.

(* the values carried: none when the signature is empty *)
Definition carried (m : msg) : list val :=
  match sig_of m with [] => [] | _ => m_vals m end.

(* the documented convention: no value gives None, one non-struct value gives
   that value, anything else the list of values.  A single value is a struct
   exactly when the signature starts with '(' . *)
Definition convention (sig : str) (vals : list val) : option val :=
  match vals with
  | [] => None
  | [v] => if starts_with [40] sig then Some (VSeq [v]) else Some v
  | _ => Some (VSeq vals)
  end.

(* a declared return signature (None and '' both declare "no value") *)
Definition matches_declared (rs : retsig) (sig : str) : bool :=
  match rs with
  | RsNoCheck => true
  | RsNone => str_eqb sig []
  | RsStr s => str_eqb sig s
  end.

Definition reply_outcome (rs : retsig) (m : msg) : outcome :=
  if matches_declared rs (sig_of m) then OValue (convention (sig_of m) (carried m))
  else OSigMismatch.

(* RemoteError built from the error reply: its name, its message (the first
   value when that is a string, else ''), its values *)
Definition error_message (vals : list val) : str :=
  match vals with VStr s :: _ => s | _ => [] end.

Definition error_outcome (name : str) (m : msg) : outcome :=
  ORemote name (error_message (carried m)) (carried m).

(* ---- the calls of a history ------------------------------------------------ *)

(* A timeout of 0 is "no deadline", like None. *)
Definition has_deadline (t : option N) : bool :=
  match t with Some t => negb (t =? 0) | None => false end.

(* Calls that never become outstanding complete at once: a call that cannot be
   built or for which no 32-bit serial is left fails; a call that expects no
   reply yields None. *)
Definition serial_limit : N := 4294967295.

Definition takes_serial (k : ckind) : bool :=
  match k with CkInvalid => false | _ => true end.

Definition immediate (k : ckind) (serial : N) : option outcome :=
  match k with
  | CkInvalid => Some OFailed
  | CkNoReply => if serial <=? serial_limit then Some (OValue None) else Some OFailed
  | CkNormal => if serial <=? serial_limit then None else Some OFailed
  end.

Record call := Call {
  c_id : nat;                    (* k-th call of the history, k = 0, 1, ... *)
  c_serial : N;                  (* the serial it was sent with *)
  c_imm : option outcome;        (* Some o: completed at once, never outstanding *)
  c_deadline : bool;
  c_rs : retsig;
  c_after : list event           (* the events after it, in order *)
}.

(* serials are handed out consecutively to the calls that are marshalled *)
Fixpoint calls_of (evs : list event) (id : nat) (serial : N) : list call :=
  match evs with
  | [] => []
  | ECall k t rs :: r =>
      Call id serial (immediate k serial) (has_deadline t) rs r ::
      calls_of r (S id) (if takes_serial k then serial + 1 else serial)
  | _ :: r => calls_of r id serial
  end.

(* does event [e] end the outstanding call [c], and how *)
Definition terminal (c : call) (e : event) : option outcome :=
  match e with
  | EReturn s m => if s =? c_serial c then Some (reply_outcome (c_rs c) m) else None
  | EError s n m => if s =? c_serial c then Some (error_outcome n m) else None
  | ETimer s => if (s =? c_serial c) && c_deadline c then Some OTimeOut else None
  | ELost r => Some (OLost r)
  | ECall _ _ _ => None
  end.

Fixpoint first_terminal (c : call) (evs : list event) : option outcome :=
  match evs with
  | [] => None
  | e :: r => match terminal c e with Some o => Some o | None => first_terminal c r end
  end.

(* the outcome of call c in its history: whichever happens first *)
Definition outcome_of (c : call) : option outcome :=
  match c_imm c with
  | Some o => Some o
  | None => first_terminal c (c_after c)
  end.

Definition still_open (c : call) : bool :=
  match outcome_of c with None => true | Some _ => false end.

(* ---- completions in event order --------------------------------------------- *)

Fixpoint count_calls (evs : list event) : nat :=
  match evs with
  | [] => O
  | ECall _ _ _ :: r => S (count_calls r)
  | _ :: r => count_calls r
  end.

Fixpoint serial_after (evs : list event) (serial : N) : N :=
  match evs with
  | [] => serial
  | ECall k _ _ :: r => serial_after r (if takes_serial k then serial + 1 else serial)
  | _ :: r => serial_after r serial
  end.

(* what is delivered while event [e] is processed, [pre] being the history
   before it: every call of [pre] that is still open and that [e] ends, in
   call order; and the call [e] itself if it completes at once *)
Definition delivered_at (serial0 : N) (pre : list event) (e : event) : list (nat * outcome) :=
  flat_map (fun c => if still_open c
                     then match terminal c e with Some o => [(c_id c, o)] | None => [] end
                     else [])
           (calls_of pre 0 serial0)
  ++ match e with
     | ECall k _ _ =>
         match immediate k (serial_after pre serial0) with
         | Some o => [(count_calls pre, o)]
         | None => []
         end
     | _ => []
     end.

Fixpoint completions_from (serial0 : N) (pre post : list event) : list (nat * outcome) :=
  match post with
  | [] => []
  | e :: r => delivered_at serial0 pre e ++ completions_from serial0 (pre ++ [e]) r
  end.

Definition spec_completions (serial0 : N) (evs : list event) : list (nat * outcome) :=
  completions_from serial0 [] evs.

(* what must be left after a history: bookkeeping exactly for the open calls,
   timers exactly for the open calls that have a deadline *)
Definition open_serials (serial0 : N) (evs : list event) : list N :=
  map c_serial (filter still_open (calls_of evs 0 serial0)).

Definition open_deadline_serials (serial0 : N) (evs : list event) : list N :=
  map c_serial (filter (fun c => still_open c && c_deadline c) (calls_of evs 0 serial0)).
