(* Specification for C10, written from the property text:

     Every incoming method call receives at most one reply, addressed to the
     caller and carrying the call's serial: exactly one if the call expects
     a reply, and none when a call flagged as expecting no reply is
     dispatched to its implementation.  The implementation bound to the
     addressed object path, interface and member runs exactly once with the
     decoded arguments (and the caller's unique name when it asks for it) if
     and only if that path is exported, the member exists on that interface
     and the argument signature matches; otherwise the reply is
     UnknownObject, UnknownMethod or InvalidArgs and no user code runs.  A
     returned value, or the eventual result of a returned Deferred, is
     encoded under the declared return signature, and a raised exception
     becomes an error reply named by its dbusErrorName or
     org.txdbus.PythonException.<Class> (org.txdbus.InvalidErrorName if that
     is not a valid DBus error name) with the exception text as message.

   Only the vocabulary (declarations, classes, calls, invocations, outcomes,
   replies) and `encode_out` (= Marshal.m_marshal, what C01/C02 establish to
   be the DBus encoding under a signature) are taken from Model/Dispatch.v;
   no lookup or handler function of the model is used.  Names are judged by
   the DBus grammar of Spec/Grammar.v, not by txdbus's validators.

   Readings fixed here (each is also listed in the harness ASSUMPTIONS):
   - "its implementation" / "the implementation bound to ..." is user code
     bound to an interface member of an exported object.  The three calls
     the handler answers itself (Peer.Ping, Introspectable.Introspect,
     ObjectManager.GetManagedObjects) and calls that cannot be dispatched
     fall under "at most one reply, exactly one if a reply is expected";
     a reply to such a call flagged no-reply is allowed by "at most one".
   - a call without interface header addresses the first declared interface
     (declaration order: the class's own list, then its bases') that has the
     member.
   - binding: a function decorated dbusMethod(I, M) in a class of the object
     binds (I, M) to its attribute name, looked up on the instance the
     Python way (a subclass may override the name); an attribute
     dbus_<M> binds member M of every interface - of interface I only if it
     is itself decorated for I.  When several bindings exist any of them is
     "the implementation bound"; when none exists the declaration is
     unimplemented and only the reply-count and addressing clauses apply.
   - a returned value "encodable under the declared signature" and of the
     declared arity is sent as that encoding; a value that cannot be encoded
     must still be answered by exactly one (error) reply, whose name the
     property does not fix.
   - the message of an InvalidErrorName reply ends with the exception text
     (txdbus prefixes the offending name); a text that is not a DBus string
     (embedded NUL) cannot be the message as it is: any message is accepted. *)
From Tx Require Import Lib.Base Lib.Sexp.
From Tx Require Import Model.PyVal Spec.Grammar Model.Dispatch.
Local Open Scope N_scope.

(* --- names ------------------------------------------------------------------ *)
Definition e_unknown_object : str :=
  [111;114;103;46;102;114;101;101;100;101;115;107;116;111;112;46;68;66;117;115;46;69;114;114;111;114;46;
   85;110;107;110;111;119;110;79;98;106;101;99;116].
Definition e_unknown_method : str :=
  [111;114;103;46;102;114;101;101;100;101;115;107;116;111;112;46;68;66;117;115;46;69;114;114;111;114;46;
   85;110;107;110;111;119;110;77;101;116;104;111;100].
Definition e_invalid_args : str :=
  [111;114;103;46;102;114;101;101;100;101;115;107;116;111;112;46;68;66;117;115;46;69;114;114;111;114;46;
   73;110;118;97;108;105;100;65;114;103;115].
Definition e_python_exception : str :=
  [111;114;103;46;116;120;100;98;117;115;46;80;121;116;104;111;110;69;120;99;101;112;116;105;111;110;46].
Definition e_invalid_error_name : str :=
  [111;114;103;46;116;120;100;98;117;115;46;73;110;118;97;108;105;100;69;114;114;111;114;78;97;109;101].

Definition is_name (o : option str) (s : str) : bool :=
  match o with Some x => str_eqb x s | None => false end.

Definition dbus_ns : str :=       (* "org.freedesktop.DBus." *)
  [111;114;103;46;102;114;101;101;100;101;115;107;116;111;112;46;68;66;117;115;46].

(* answered by the connection itself, not by an exported object's code *)
Definition builtin (c : call) : bool :=
  (is_name (c_iface c) (dbus_ns ++ [80;101;101;114]) && str_eqb (c_member c) [80;105;110;103])
  || (is_name (c_iface c) (dbus_ns ++ [73;110;116;114;111;115;112;101;99;116;97;98;108;101])
      && str_eqb (c_member c) [73;110;116;114;111;115;112;101;99;116])
  || (is_name (c_iface c) (dbus_ns ++ [79;98;106;101;99;116;77;97;110;97;103;101;114])
      && str_eqb (c_member c) [71;101;116;77;97;110;97;103;101;100;79;98;106;101;99;116;115]).

(* --- what a call addresses --------------------------------------------------- *)

(* the interfaces an object declares: its class's, then those of its bases *)
Definition declared (o : object) : list iface :=
  concat (map (fun c => match c_ifaces c with Some l => l | None => [] end) o).

Definition member_of (member : str) (i : iface) : option meth :=
  hd_error (filter (fun m => str_eqb (m_name m) member) (i_methods i)).

(* an absent interface header and an empty one both mean "any interface" *)
Definition named (c : call) : option str :=
  match c_iface c with Some (x :: r) => Some (x :: r) | _ => None end.

(* the interfaces of o on which the call's member exists, and which the call names *)
Definition eligible (c : call) (o : object) : list (iface * meth) :=
  flat_map (fun i =>
              match member_of (c_member c) i with
              | Some m => match named c with
                          | Some n => if str_eqb (i_name i) n then [(i, m)] else []
                          | None => [(i, m)]
                          end
              | None => []
              end)
           (declared o).

Definition arg_signature (c : call) : str := match c_sig c with Some s => s | None => [] end.

Inductive target :=
| TNoObject                                   (* the path is not exported *)
| TNoMethod                                   (* the member does not exist on that interface *)
| TBadArgs                                    (* the argument signature does not match *)
| TMethod (o : object) (i : iface) (m : meth).

Fixpoint exported_at (p : str) (ex : exports) : option object :=
  match ex with
  | [] => None
  | (k, o) :: r => if str_eqb p k then Some o else exported_at p r
  end.

Definition addressed (ex : exports) (c : call) : target :=
  match exported_at (c_path c) ex with
  | None => TNoObject
  | Some o =>
      match eligible c o with
      | [] => TNoMethod
      | (i, m) :: _ => if str_eqb (m_in m) (arg_signature c) then TMethod o i m else TBadArgs
      end
  end.

(* --- binding ------------------------------------------------------------------- *)

(* Python attribute lookup on an instance: the first class of the MRO that defines the name *)
Definition lookup_attr (o : object) (n : str) : option func :=
  hd_error (flat_map (fun c => match filter (fun kf => str_eqb (fst kf) n) (c_attrs c) with
                               | kf :: _ => [snd kf]
                               | [] => []
                               end) o).

Definition decorated_for (iname member : str) (f : func) : bool :=
  match f_deco f with
  | Some (i, m) => str_eqb i iname && str_eqb m member
  | None => false
  end.

Definition opt_list {A} (o : option A) : list A := match o with Some x => [x] | None => [] end.

(* every implementation bound to (iname, member) on o *)
Definition candidates (o : object) (iname member : str) : list func :=
  flat_map (fun c =>
              flat_map (fun kf => if decorated_for iname member (snd kf)
                                  then opt_list (lookup_attr o (fst kf)) else [])
                       (c_attrs c)) o
  ++ match lookup_attr o ([100; 98; 117; 115; 95] ++ member) with
     | Some f => match f_deco f with
                 | None => [f]
                 | Some (i, _) => if str_eqb i iname then [f] else []
                 end
     | None => []
     end.

(* how the bound implementation is to be called *)
Definition expected_invocation (c : call) (f : func) : invocation :=
  mkInv f (c_args c) (if f_caller f then Some (c_sender c) else None).

(* --- results --------------------------------------------------------------------- *)

(* the values of a returned Python value under a declared signature of n
   complete types; None: the value has not the declared arity (no demand) *)
Definition returned_values (n : nat) (v : pyval) : option pyval :=
  if Nat.eqb n 1 then Some (PList [v])
  else match v with
       | PList l | PTuple l => if Nat.eqb (length l) n then Some v else None
       | _ => None
       end.

(* the error name of a raised exception *)
Definition error_name_of (e : exn) : str :=
  let n := match x_dbus_name e with Some n => n | None => e_python_exception ++ x_class e end in
  if g_error n then n else e_invalid_error_name.

Definition name_is_valid (e : exn) : bool :=
  g_error (match x_dbus_name e with Some n => n | None => e_python_exception ++ x_class e end).

(* a text that can be carried as a DBus string *)
Definition dbus_string (t : bytes) : bool := forallb (fun b => negb (b =? 0)) t.

Fixpoint ends_with (suffix s : bytes) : bool :=
  list_eqb N.eqb s suffix ||
  match s with [] => false | _ :: r => ends_with suffix r end.

(* --- the executable verdict on an observation --------------------------------------- *)

Record obs := mkObs {
  ob_escaped : bool;                 (* an exception left the dispatcher *)
  ob_now : list reply;               (* sent before handleMethodCallMessage returned *)
  ob_invs : list invocation;         (* user code run *)
  ob_later : list reply              (* sent when the returned Deferred fired *)
}.

Inductive verdict :=
| VOk
| VEscaped            (* an exception escapes: the caller gets nothing *)
| VTooMany            (* more than one reply *)
| VMissing            (* a reply is expected and none was sent *)
| VMisaddressed       (* destination is not the caller or reply_serial is not the call's serial *)
| VAnsweredNoReply    (* a no-reply call was dispatched to its implementation and answered *)
| VRanUnaddressed     (* user code ran although path / member / signature do not match *)
| VWrongErrorKind     (* ... and the reply is not the UnknownObject / UnknownMethod / InvalidArgs error *)
| VNotOnce            (* the bound implementation did not run exactly once *)
| VWrongImpl          (* something else than a bound implementation ran *)
| VWrongArgs          (* ... with other arguments / caller name than the call's *)
| VWrongReturn        (* the value is not sent encoded under the declared signature *)
| VUnencodableNoError (* a value that cannot be encoded was not answered by an error *)
| VWrongErrorName
| VWrongErrorText.

Definition opt_str_eqb (a b : option str) : bool :=
  match a, b with
  | Some x, Some y => str_eqb x y
  | None, None => true
  | _, _ => false
  end.

Definition is_error_named (n : str) (r : reply) : bool :=
  match r_kind r with KError x => str_eqb x n | _ => false end.

Definition is_error (r : reply) : bool :=
  match r_kind r with KReturn => false | _ => true end.

(* equality of decoded argument lists, through their canonical printed form *)
Definition args_eqb (a b : list pyval) : bool :=
  list_eqb N.eqb (print (SList (map pv_to_sexp a))) (print (SList (map pv_to_sexp b))).

Definition caller_eqb (a b : option (option str)) : bool :=
  match a, b with
  | None, None => true
  | Some x, Some y => opt_str_eqb x y
  | _, _ => false
  end.

(* the outcome of the one invocation, as far as it is known when judging:
   what the method did, and how its Deferred (if any) completed later *)
Inductive final :=
| FValue (v : pyval)
| FRaise (e : exn)
| FOpen.                          (* the Deferred has not fired in this observation *)

Definition final_of (out : outcome) (l : option later) : final :=
  match out with
  | OValue v => FValue v
  | ORaise e => FRaise e
  | ODeferred => match l with
                 | Some (LValue v) => FValue v
                 | Some (LFail e) => FRaise e
                 | None => FOpen
                 end
  end.

Definition judge_result (m : meth) (fin : final) (r : reply) : verdict :=
  match fin with
  | FOpen => VOk
  | FValue v =>
      match m_out m with
      | [] => match r_kind r, r_body r with
              | KReturn, BBytes [] => VOk
              | _, _ => VWrongReturn
              end
      | sig =>
          match returned_values (m_nret m) v with
          | None => VOk
          | Some vals =>
              match encode_out sig vals with
              | Ok b => match r_kind r, r_body r with
                        | KReturn, BBytes b' => if list_eqb N.eqb b b' && str_eqb (r_sig r) sig then VOk else VWrongReturn
                        | _, _ => VWrongReturn
                        end
              | Err _ => if is_error r then VOk else VUnencodableNoError
              end
          end
      end
  | FRaise e =>
      if negb (is_error_named (error_name_of e) r) then VWrongErrorName
      else if negb (dbus_string (x_text e)) then VOk
      else match r_body r with
           | BText t => if name_is_valid e
                        then (if list_eqb N.eqb t (x_text e) then VOk else VWrongErrorText)
                        else (if ends_with (x_text e) t then VOk else VWrongErrorText)
           | _ => VWrongErrorText
           end
  end.

(* the part of the verdict that depends on what the call addresses: `total`
   is everything sent for the call, `invs` the user code that ran, `fin` how
   that code ended *)
Definition judge_content (ex : exports) (c : call) (fin : final) (total : list reply)
           (invs : list invocation) : verdict :=
  if builtin c then
    (if c_expect c && Nat.eqb (length total) 0 then VMissing else VOk)
  else
    let unaddressed (n : str) :=
      if negb (Nat.eqb (length invs) 0) then VRanUnaddressed
      else if negb (forallb (is_error_named n) total) then VWrongErrorKind
      else if c_expect c && Nat.eqb (length total) 0 then VMissing
      else VOk in
    match addressed ex c with
    | TNoObject => unaddressed e_unknown_object
    | TNoMethod => unaddressed e_unknown_method
    | TBadArgs => unaddressed e_invalid_args
    | TMethod ob i m =>
        match candidates ob (i_name i) (c_member c) with
        | [] =>          (* declared but not implemented: count and addressing only *)
            if c_expect c && Nat.eqb (length total) 0 then VMissing else VOk
        | cands =>
            match invs with
            | [inv] =>
                if negb (existsb (fun f => f_id f =? f_id (v_func inv)) cands) then VWrongImpl
                else if negb (args_eqb (v_args inv) (c_args c)
                              && caller_eqb (v_caller inv)
                                            (if f_caller (v_func inv) then Some (c_sender c) else None))
                     then VWrongArgs
                else if negb (c_expect c) then
                       (if Nat.eqb (length total) 0 then VOk else VAnsweredNoReply)
                else match total with
                     | [] => match fin with FOpen => VOk | _ => VMissing end
                     | r :: _ => match fin with
                                 | FOpen => VTooMany     (* answered before the Deferred fired *)
                                 | _ => judge_result m fin r
                                 end
                     end
            | _ => VNotOnce
            end
        end
    end.

(* `out` is what the invoked user code did (irrelevant when none ran), `l`
   how its Deferred completed, if it did within the observation *)
Definition judge (ex : exports) (c : call) (out : outcome) (l : option later) (o : obs) : verdict :=
  let total := ob_now o ++ ob_later o in
  if ob_escaped o then VEscaped
  else if (1 <? length total)%nat then VTooMany
  else if negb (forallb (fun r => opt_str_eqb (r_dest r) (c_sender c) && Z.eqb (r_serial r) (c_serial c)) total)
       then VMisaddressed
  else judge_content ex c (final_of out l) total (ob_invs o).

(* --- hypotheses of the theorems ------------------------------------------------------ *)

(* the caller can be answered: the message carries no sender (peer-to-peer
   connection) or a bus name (the bus stamps the sender's unique name) *)
Definition caller_known (c : call) : Prop :=
  match c_sender c with None => True | Some s => g_bus s = true end.

(* no exported object declares two interfaces of the same name *)
Definition distinct_interfaces (ex : exports) : Prop :=
  forall p o, In (p, o) ex -> NoDup (map i_name (declared o)).
