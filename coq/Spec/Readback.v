(* What decoding a wire value yields in Python, as the property C01 spells it
   out: integers as int, booleans as bool, doubles as float, strings / object
   paths / signatures as str, arrays and structs as lists, arrays of dict
   entries as a dict, a variant as its content, a UNIX_FD index as the
   descriptor attached at that position (None when out of range). *)
From Tx Require Import Lib.Base Model.PyVal Spec.WireSpec.
Local Open Scope N_scope.

Section Readback.
  Variable fds : list pyval.     (* out-of-band descriptors of the message *)

  Fixpoint readback (t : ty) (w : wval) {struct w} : pyval :=
    match t, w with
    | TFd, WInt z => nth (Z.to_nat z) fds PNone
    | (TByte | TInt16 | TUInt16 | TInt32 | TUInt32 | TInt64 | TUInt64), WInt z => PInt z
    | TBool, WBool b => PBool b
    | TDouble, WDouble bits => PFloat bits
    | (TString | TObjPath | TSig), WStr s => PStr s
    | TArray (TDictEntry kt vt), WArray l =>
        PDict (map (fun e => match e with
                             | WStruct [k; v] => (readback kt k, readback vt v)
                             | _ => (PNone, PNone)
                             end) l)
    | TArray et, WArray l => PList (map (readback et) l)
    | TStruct ts, WStruct l =>
        PList ((fix go (ts : list ty) (l : list wval) {struct l} : list pyval :=
                  match ts, l with
                  | t :: ts', x :: r => readback t x :: go ts' r
                  | _, _ => []
                  end) ts l)
    | TDictEntry kt vt, WStruct [k; v] => PList [readback kt k; readback vt v]
    | TVariant, WVariant vt v => readback vt v
    | _, _ => PNone
    end.

  Fixpoint readback_seq (ts : list ty) (ws : list wval) : list pyval :=
    match ts, ws with
    | t :: ts', w :: ws' => readback t w :: readback_seq ts' ws'
    | _, _ => []
    end.
End Readback.
