(* The DBus wire format, written from the DBus specification ("Marshaling
   (Wire Format)", "Type System"), independently of txdbus:

   - every value starts at the next multiple of its type's alignment, counted
     from the start of the message; padding bytes are zero;
   - fixed-width integers in the requested byte order, two's complement;
     BOOLEAN is a UINT32 0 or 1; DOUBLE is the IEEE-754 binary64 pattern;
     UNIX_FD is a UINT32 index into the out-of-band descriptor array;
   - STRING / OBJECT_PATH: UINT32 byte length, the UTF-8 bytes, one NUL;
     SIGNATURE: one length byte, the ASCII bytes, one NUL;
   - ARRAY: UINT32 byte count n of the element data, padding to the element
     alignment (present even for an empty array, not counted in n), then the
     elements, each preceded by its own padding (counted in n);
   - STRUCT and DICT_ENTRY: aligned to 8, the fields in sequence;
   - VARIANT: the SIGNATURE of one complete type, then the value.            *)
From Tx Require Import Lib.Base.
Local Open Scope N_scope.

Inductive ty :=
| TByte | TBool | TInt16 | TUInt16 | TInt32 | TUInt32 | TInt64 | TUInt64
| TDouble | TString | TObjPath | TSig | TFd
| TArray (t : ty)
| TStruct (ts : list ty)
| TDictEntry (k v : ty)
| TVariant.

(* wire values; the type says how a [WInt] or [WStr] is laid out *)
Inductive wval :=
| WInt (z : Z)
| WBool (b : bool)
| WDouble (bits : N)
| WStr (s : bytes)
| WArray (l : list wval)
| WStruct (l : list wval)               (* also a dict entry: two fields *)
| WVariant (t : ty) (v : wval).

(* --- signatures ------------------------------------------------------------ *)

Fixpoint show (t : ty) : str :=
  match t with
  | TByte => [121] | TBool => [98] | TInt16 => [110] | TUInt16 => [113]
  | TInt32 => [105] | TUInt32 => [117] | TInt64 => [120] | TUInt64 => [116]
  | TDouble => [100] | TString => [115] | TObjPath => [111] | TSig => [103]
  | TFd => [104]
  | TArray t => 97 :: show t
  | TStruct ts => 40 :: (fix go (l : list ty) : str :=
                           match l with [] => [] | x :: r => show x ++ go r end) ts ++ [41]
  | TDictEntry k v => 123 :: show k ++ show v ++ [125]
  | TVariant => [118]
  end.

Definition show_list (ts : list ty) : str := flat_map show ts.

Definition basic (t : ty) : bool :=
  match t with
  | TArray _ | TStruct _ | TDictEntry _ _ | TVariant => false
  | _ => true
  end.

(* the type grammar: structs non-empty, dict entries only as array elements
   with a basic key *)
Fixpoint wf_ty (t : ty) : bool :=
  match t with
  | TArray (TDictEntry k v) => basic k && wf_ty v
  | TArray t => wf_ty t
  | TStruct ts => negb (match ts with [] => true | _ => false end) && forallb wf_ty ts
  | TDictEntry _ _ => false
  | _ => true
  end.

(* --- alignment (specification table) --------------------------------------- *)

Definition align (t : ty) : nat :=
  match t with
  | TByte | TSig | TVariant => 1
  | TInt16 | TUInt16 => 2
  | TBool | TInt32 | TUInt32 | TString | TObjPath | TFd | TArray _ => 4
  | TInt64 | TUInt64 | TDouble | TStruct _ | TDictEntry _ _ => 8
  end%nat.

(* zero bytes up to the next multiple of a *)
Definition padding (a : nat) (off : nat) : bytes :=
  repeat_n 0 ((a - off mod a) mod a)%nat.

(* --- integers ----------------------------------------------------------------- *)

Fixpoint little (n : nat) (v : N) : bytes :=
  match n with O => [] | S k => (v mod 256) :: little k (v / 256) end.

Definition uint (n : nat) (le : bool) (v : N) : bytes :=
  if le then little n v else rev (little n v).

(* two's complement of z in n bytes *)
Definition twos (n : nat) (z : Z) : N := Z.to_N (z mod (2 ^ (8 * Z.of_nat n))).

Definition width (t : ty) : nat :=
  match t with
  | TByte => 1 | TInt16 | TUInt16 => 2 | TInt64 | TUInt64 | TDouble => 8 | _ => 4
  end%nat.

(* --- the encoder ----------------------------------------------------------------- *)

(* [encb t w o le]: the value itself, starting at offset [o] (which the caller
   has aligned for [t]); contained values are each preceded by their padding *)
Fixpoint encb (t : ty) (w : wval) (o : nat) (le : bool) {struct w} : bytes :=
  match t, w with
  | (TByte | TInt16 | TUInt16 | TInt32 | TUInt32 | TInt64 | TUInt64 | TFd), WInt z =>
      uint (width t) le (twos (width t) z)
  | TBool, WBool b => uint 4 le (if b then 1 else 0)
  | TDouble, WDouble bits => uint 8 le bits
  | (TString | TObjPath), WStr s => uint 4 le (N.of_nat (length s)) ++ s ++ [0]
  | TSig, WStr s => uint 1 le (N.of_nat (length s)) ++ s ++ [0]
  | TArray et, WArray l =>
      let ip := padding (align et) (o + 4) in
      let start := (o + 4 + length ip)%nat in
      let body :=
        (fix go (l : list wval) (off : nat) : bytes :=
           match l with
           | [] => []
           | x :: r =>
               let p := padding (align et) off in
               let b := p ++ encb et x (off + length p) le in
               b ++ go r (off + length b)%nat
           end) l start in
      uint 4 le (N.of_nat (length body)) ++ ip ++ body
  | TStruct ts, WStruct l =>
      (fix go (ts : list ty) (l : list wval) (off : nat) {struct l} : bytes :=
         match ts, l with
         | t :: ts', x :: r =>
             let p := padding (align t) off in
             let b := p ++ encb t x (off + length p) le in
             b ++ go ts' r (off + length b)%nat
         | _, _ => []
         end) ts l o
  | TDictEntry kt vt, WStruct [k; v] =>
      let pk := padding (align kt) o in
      let bk := pk ++ encb kt k (o + length pk) le in
      let pv := padding (align vt) (o + length bk) in
      bk ++ pv ++ encb vt v (o + length bk + length pv) le
  | TVariant, WVariant vt v =>
      let s := uint 1 le (N.of_nat (length (show vt))) ++ show vt ++ [0] in
      let p := padding (align vt) (o + length s) in
      s ++ p ++ encb vt v (o + length s + length p) le
  | _, _ => []
  end.

(* [enc t w off le]: zero padding to the alignment of [t], then the value *)
Definition enc (t : ty) (w : wval) (off : nat) (le : bool) : bytes :=
  let p := padding (align t) off in
  p ++ encb t w (off + length p) le.

(* a sequence of values (a message body): each aligned in turn *)
Fixpoint enc_seq (ts : list ty) (ws : list wval) (off : nat) (le : bool) : bytes :=
  match ts, ws with
  | t :: ts', w :: ws' => let b := enc t w off le in b ++ enc_seq ts' ws' (off + length b)%nat le
  | _, _ => []
  end.

(* --- well-typed wire values ---------------------------------------------------------- *)

Definition int_range (t : ty) (z : Z) : bool :=
  match t with
  | TByte => (0 <=? z) && (z <? 256)
  | TInt16 => (-32768 <=? z) && (z <? 32768)
  | TUInt16 => (0 <=? z) && (z <? 65536)
  | TInt32 => (-2147483648 <=? z) && (z <? 2147483648)
  | TUInt32 | TFd => (0 <=? z) && (z <? 4294967296)
  | TInt64 => (-9223372036854775808 <=? z) && (z <? 9223372036854775808)
  | TUInt64 => (0 <=? z) && (z <? 18446744073709551616)
  | _ => false
  end%Z.
