(* Specification for C14, written from the property text - not from bus.py:

     "The built-in bus gives every connection a unique name that is never reused, and
      delivers each addressed message exactly once to the connection owning the destination
      name at that moment and to no other, unchanged except that the sender field is the
      true unique name of the originating connection whatever the originator wrote there;
      messages from one sender to one destination arrive in the order sent.  Messages
      addressed to the bus itself are answered by the bus and not forwarded, and a broadcast
      signal reaches exactly the connections that hold a rule matching it."

   Vocabulary taken from the models: messages (bmsg), events, the four message types
   (valid_type), the reading of a bus method call (bus_op_of, which method of
   org.freedesktop.DBus a message invokes) from Model/BusRoute.v; connection numbers and unique_name from Model/BusNames.v; rule, the
   reading of a rule text (parse_rule, whose agreement with the text client.addMatch writes
   is C12_rule_string) from Model/Router.v.  No delivery function of the model is used.

   Built on the two finished specifications:
     Spec/NameSpec.v   the reference name table (who owns a name at a moment: [owner])
     Spec/MatchSpec.v  when a message satisfies a match rule ([matches], [registrable])

   State: the reference name table and the rules held: (connection, rule) in the order
   they were accepted.

   What a message is owed [owed]:
   - addressed to the bus itself (destination org.freedesktop.DBus): to nobody;
   - addressed to a unique name: to the live connection with that name, if there is one;
     addressed to a well-known name: to its owner at that moment, if it has one;
     otherwise to nobody (no error reply is demanded: the property is silent);
   - no destination (a broadcast): to each connection holding a rule it satisfies -
     once per such rule [txdbus's choice: the reference daemon delivers once per
     connection; the theorems state the set of receivers];
   and what is delivered is the message with the sender field replaced by the originating
   connection's unique name and nothing else changed [stamped].

   A connection holds rule r from the moment the bus accepts its AddMatch(text) with
   parse_rule text = r and r naming an existing message type (if any), until the connection
   goes away.  [txdbus's choice: the built-in bus has no RemoveMatch - the call is answered
   with an error and the rule stays.]  An empty destination field is read as no destination
   [txdbus's choice]. *)
From Tx Require Import Lib.Base Model.BusNames Spec.NameSpec Model.BusRoute.
From Tx Require Model.Router Spec.MatchSpec.
Local Open Scope N_scope.

Record sstate := mkSS {
  s_table : table;                              (* the reference name table of C13 *)
  s_held : list (client * Router.rule)          (* who holds which match rule *)
}.

Definition spec_init : sstate := mkSS empty [].

(* the connection a bus name denotes at this moment *)
Definition addressee (t : table) (d : str) : option client :=
  if starts_with [58] d
  then find (fun c => str_eqb (unique_name c) d) (t_live t)      (* ":1.k": that connection, while it is live *)
  else owner t d.                                                (* a well-known name: its owner *)

(* the message as it must arrive: only the sender field differs *)
Definition stamped (c : client) (m : bmsg) : bmsg :=
  mkB (g_le m) (g_type m) (g_flags m) (g_serial m) (g_path m) (g_interface m) (g_member m) (g_error_name m)
      (g_reply_serial m) (g_destination m) (Some (unique_name c)) (g_signature m) (g_body m) (g_args m)
      (g_rs_signed m).

Definition dest_of (m : bmsg) : option str :=
  match g_destination m with Some (x :: r) => Some (x :: r) | _ => None end.

Definition to_bus (m : bmsg) : bool :=
  match dest_of m with Some d => str_eqb d bus_name | None => false end.

(* who must receive what, for a message m arriving from connection c *)
Definition owed (st : sstate) (c : client) (m : bmsg) : list (client * bmsg) :=
  match dest_of m with
  | Some d =>
      if str_eqb d bus_name then []
      else match addressee (s_table st) d with
           | Some o => [(o, stamped c m)]
           | None => []
           end
  | None =>
      flat_map (fun h => if MatchSpec.matches (snd h) (view (stamped c m)) then [(fst h, stamped c m)] else [])
               (s_held st)
  end.

(* a method call to the bus that expects a reply gets exactly one, carrying its serial *)
Definition expects_answer (m : bmsg) : bool :=
  (g_type m =? 1) && to_bus m && negb (N.testbit (g_flags m) 0).

(* the effect of a method call to the bus on names and rules *)
Definition bus_effect (st : sstate) (c : client) (m : bmsg) : sstate :=
  if (g_type m =? 1) && to_bus m then
    match bus_op_of m with
    | BRequest n f => mkSS (fst (NameSpec.spec_step (s_table st) (Request c n f))) (s_held st)
    | BRelease n => mkSS (fst (NameSpec.spec_step (s_table st) (Release c n))) (s_held st)
    | BAddMatch text =>
        match Router.parse_rule text with
        | Ok r => if MatchSpec.registrable r then mkSS (s_table st) (s_held st ++ [(c, r)]) else st
        | Err _ => st
        end
    | _ => st
    end
  else st.

Definition spec_recv (st : sstate) (c : client) (m : bmsg) : sstate * list (client * bmsg) :=
  (bus_effect st c m, owed st c m).

(* bytes that are not a message of one of the four types are not a DBus message: the
   connection sending them is owed nothing (txdbus drops it; a connection is not even
   named for them) *)
Definition sstep (st : sstate) (e : event) : sstate * list (client * bmsg) :=
  match e with
  | EFirst m =>
      if negb (valid_type m) then (st, []) else
      (* the new connection is number t_next and is live from now on *)
      let c := t_next (s_table st) in
      spec_recv (mkSS (fst (NameSpec.spec_step (s_table st) Connect)) (s_held st)) c m
  | ESend c m => if is_live (s_table st) c && valid_type m then spec_recv st c m else (st, [])
  | EDisconnect c =>
      if is_live (s_table st) c
      then (mkSS (fst (NameSpec.spec_step (s_table st) (Disconnect c)))
                 (filter (fun h => negb (N.eqb c (fst h))) (s_held st)), [])
      else (st, [])
  end.

Fixpoint srun_from (st : sstate) (h : list event) : sstate * list (list (client * bmsg)) :=
  match h with
  | [] => (st, [])
  | e :: r =>
      let (st1, x) := sstep st e in
      let (st2, xs) := srun_from st1 r in
      (st2, x :: xs)
  end.

Definition srun (h : list event) : sstate * list (list (client * bmsg)) := srun_from spec_init h.

(* ---- reading a history -------------------------------------------------------------------- *)
(* the connection an event's message comes from, given the state before the event, and the
   state in which the message is delivered (a new connection is live when its first message
   is) *)
Definition origin (st : sstate) (e : event) : option (client * bmsg) :=
  match e with
  | EFirst m => if valid_type m then Some (t_next (s_table st), m) else None
  | ESend c m => if is_live (s_table st) c && valid_type m then Some (c, m) else None
  | EDisconnect _ => None
  end.

Definition at_delivery (st : sstate) (e : event) : sstate :=
  match e with
  | EFirst m => if valid_type m then mkSS (fst (NameSpec.spec_step (s_table st) Connect)) (s_held st) else st
  | _ => st
  end.

(* what connection d has been sent: every delivery to d, oldest first *)
Definition received_by {A} (d : client) (l : list (client * A)) : list A :=
  map snd (filter (fun x => N.eqb d (fst x)) l).

(* the header fields a message of its type consists of (message.py's class tables): a
   call or signal has path / interface / member, a return reply_serial, an error
   error_name and reply_serial; all may have destination, sender, signature *)
Definition conforming (m : bmsg) : Prop :=
  ((g_type m = 1 \/ g_type m = 4) /\ g_error_name m = None /\ g_reply_serial m = None) \/
  (g_type m = 2 /\ g_path m = None /\ g_interface m = None /\ g_member m = None /\ g_error_name m = None) \/
  (g_type m = 3 /\ g_path m = None /\ g_interface m = None /\ g_member m = None).
