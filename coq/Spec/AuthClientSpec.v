(* Specification side of C07, written from the property text and the DBus
   specification ("Authentication protocol": commands, client and server state
   diagrams), not from txdbus.  It does not mention the model.

   Part 1  the server's lines as the property reads them (OK with a valid
           hexadecimal GUID, the answers to the descriptor negotiation, what
           lies outside the protocol);
   Part 2  what is observed of a client (events) and the property's safety
           statements as decidable predicates over observed sessions - these
           same functions judge the IMPLEMENTATION's sessions in harness/c07.py;
   Part 3  the DBus specification's reference SERVER, parameterised by the set
           of mechanisms it accepts, its answer to NEGOTIATE_UNIX_FD and whether
           its EXTERNAL challenges for the identity; used for the liveness
           statement. *)
From Tx Require Import Lib.Base Lib.Sexp.
Local Open Scope N_scope.

(* ======================= Part 1: lines =================================== *)

Definition w_AUTH : bytes := [65; 85; 84; 72].
Definition w_CANCEL : bytes := [67; 65; 78; 67; 69; 76].
Definition w_BEGIN : bytes := [66; 69; 71; 73; 78].
Definition w_DATA : bytes := [68; 65; 84; 65].
Definition w_ERROR : bytes := [69; 82; 82; 79; 82].
Definition w_NEGOTIATE_UNIX_FD : bytes := [78; 69; 71; 79; 84; 73; 65; 84; 69; 95; 85; 78; 73; 88; 95; 70; 68].
Definition w_REJECTED : bytes := [82; 69; 74; 69; 67; 84; 69; 68].
Definition w_OK : bytes := [79; 75].
Definition w_AGREE_UNIX_FD : bytes := [65; 71; 82; 69; 69; 95; 85; 78; 73; 88; 95; 70; 68].

Definition m_EXTERNAL : bytes := [69; 88; 84; 69; 82; 78; 65; 76].
Definition m_DBUS_COOKIE_SHA1 : bytes := [68; 66; 85; 83; 95; 67; 79; 79; 75; 73; 69; 95; 83; 72; 65; 49].
Definition m_ANONYMOUS : bytes := [65; 78; 79; 78; 89; 77; 79; 85; 83].

(* A line is a command word, optionally followed by one space and arguments. *)
Fixpoint word (l : bytes) : bytes :=
  match l with
  | [] => []
  | c :: r => if c =? 32 then [] else c :: word r
  end.

Fixpoint args (l : bytes) : option bytes :=       (* None: there is no space *)
  match l with
  | [] => None
  | c :: r => if c =? 32 then Some r else args r
  end.

Definition args_or_empty (l : bytes) : bytes := match args l with Some a => a | None => [] end.

Definition blank (c : N) : bool := (c =? 32) || ((9 <=? c) && (c <=? 13)).
Fixpoint drop_blanks (l : bytes) : bytes :=
  match l with
  | [] => []
  | c :: r => if blank c then drop_blanks r else l
  end.
Fixpoint drop_blanks_end (l : bytes) : bytes :=
  match l with
  | [] => []
  | c :: r => match drop_blanks_end r with
              | [] => if blank c then [] else [c]
              | r' => c :: r'
              end
  end.
(* surrounding white space is not part of an argument *)
Definition trim (l : bytes) : bytes := drop_blanks_end (drop_blanks l).

Definition hex_digit (c : N) : bool :=
  ((48 <=? c) && (c <=? 57)) || ((97 <=? c) && (c <=? 102)) || ((65 <=? c) && (c <=? 70)).

(* a GUID in hexadecimal: a non-empty string of hex-digit pairs *)
Definition valid_guid (g : bytes) : bool :=
  match g with [] => false | _ => forallb hex_digit g && Nat.even (length g) end.

(* "the server's OK carrying a valid hexadecimal GUID" *)
Definition ok_line (l : bytes) : bool :=
  str_eqb (word l) w_OK && valid_guid (trim (args_or_empty l)).

(* "the server answered its descriptor-passing negotiation with agreement or with ERROR" *)
Definition fd_answer_line (l : bytes) : bool :=
  str_eqb (word l) w_AGREE_UNIX_FD || str_eqb (word l) w_ERROR.

Definition server_words : list bytes := [w_REJECTED; w_OK; w_DATA; w_ERROR; w_AGREE_UNIX_FD].

(* ======================= Part 2: observed sessions ======================= *)

Inductive ev :=
| Rx (l : bytes)          (* a complete line received from the server *)
| Tx (l : bytes)          (* a line the client wrote *)
| TxRaw (b : bytes)       (* bytes the client wrote that are not a line (the initial NUL) *)
| Closed                  (* the client closed the connection *)
| Binary.                 (* the client switched to binary messages (connectionAuthenticated) *)

Definition ev_eqb (a b : ev) : bool :=
  match a, b with
  | Rx x, Rx y | Tx x, Tx y | TxRaw x, TxRaw y => str_eqb x y
  | Closed, Closed | Binary, Binary => true
  | _, _ => false
  end.

(* A session as observed: what the client did on connecting, then for each
   received line what it did in response. *)
Definition exchange : Type := bytes * list ev.
Definition flat (xs : list exchange) : list ev :=
  flat_map (fun x => Rx (fst x) :: snd x) xs.
Definition trace (init : list ev) (xs : list exchange) : list ev := init ++ flat xs.

Definition is_tx (w : bytes) (e : ev) : bool :=
  match e with Tx l => str_eqb l w | _ => false end.
Definition sent_lines (t : list ev) : list bytes :=
  flat_map (fun e => match e with Tx l => [l] | _ => [] end) t.

(* the connection is still in the handshake: neither closed nor switched to binary *)
Definition live (t : list ev) : bool :=
  negb (existsb (fun e => match e with Closed | Binary => true | _ => false end) t).

(* --- safety: BEGIN only after an OK that still stands (and after the descriptor answer) -- *)
(* how far the server's side of the condition has got.  The OK must STAND when
   BEGIN is sent: a REJECTED line (recognised as in clause 5 below, by its command
   word) withdraws whatever the server had granted - the OK and the answer to the
   descriptor negotiation that followed it - so the progress starts again from
   nothing; the answer to the negotiation is a line received while that OK stands. *)
Inductive progress := NoOk | GotOk | Answered.

Definition advance (p : progress) (e : ev) : progress :=
  match e with
  | Rx l =>
      if str_eqb (word l) w_REJECTED then NoOk
      else
        match p with
        | NoOk => if ok_line l then GotOk else NoOk
        | GotOk => if fd_answer_line l then Answered else GotOk
        | Answered => Answered
        end
  | _ => p
  end.

Definition may_begin (unix : bool) (p : progress) : bool :=
  match p with
  | NoOk => false
  | GotOk => negb unix
  | Answered => true
  end.

(* every BEGIN in the trace is sent when it may be, and binary mode follows a BEGIN *)
Fixpoint begin_safe_from (unix : bool) (p : progress) (begun : bool) (t : list ev) : bool :=
  match t with
  | [] => true
  | e :: r =>
      match e with
      | Tx l => if str_eqb l w_BEGIN
                then may_begin unix p && begin_safe_from unix p true r
                else begin_safe_from unix p begun r
      | Binary => begun && begin_safe_from unix p begun r
      | _ => begin_safe_from unix (advance p e) begun r
      end
  end.
Definition begin_safe (unix : bool) (t : list ev) : bool := begin_safe_from unix NoOk false t.

(* --- offers -------------------------------------------------------------- *)
(* the mechanism named by a sent "AUTH <mech> ..." line *)
Definition offer_of (l : bytes) : option bytes :=
  if str_eqb (word l) w_AUTH then
    match args l with Some a => Some (word a) | None => None end
  else None.

Definition offers (t : list ev) : list bytes :=
  flat_map (fun e => match e with
                     | Tx l => match offer_of l with Some m => [m] | None => [] end
                     | _ => []
                     end) t.

Fixpoint is_prefix (a b : list bytes) : bool :=
  match a, b with
  | [], _ => true
  | x :: a', y :: b' => str_eqb x y && is_prefix a' b'
  | _ :: _, [] => false
  end.

(* "in preference order, each at most once": the offers are an initial segment of the list *)
Definition offers_in_order (pref : list bytes) (t : list ev) : bool := is_prefix (offers t) pref.

(* the mechanism to offer next, if any is left *)
Fixpoint next_after (offered pref : list bytes) : option bytes :=
  match offered, pref with
  | [], m :: _ => Some m
  | _ :: o', _ :: p' => next_after o' p'
  | _, [] => None
  end.

(* --- no stall, no loop ---------------------------------------------------- *)
(* lines of the authentication protocol are bounded (16 KiB in the reference implementation) *)
Definition line_limit : N := 16384.

(* "the server says something outside the protocol": an over-long line, not one
   of its five commands, an OK that does not carry a valid GUID, or
   AGREE_UNIX_FD when the client never asked (no NEGOTIATE_UNIX_FD sent so far). *)
Definition outside_protocol (before : list ev) (l : bytes) : bool :=
  (line_limit <? N.of_nat (length l))
  || negb (existsb (str_eqb (word l)) server_words)
  || (str_eqb (word l) w_OK && negb (ok_line l))
  || (str_eqb (word l) w_AGREE_UNIX_FD && negb (existsb (is_tx w_NEGOTIATE_UNIX_FD) before)).

Definition evs_eqb (a b : list ev) : bool := list_eqb ev_eqb a b.

(* the client starts the next mechanism, or closes when none is left *)
Definition moved_on (pref : list bytes) (before : list ev) (resp : list ev) : bool :=
  match next_after (offers before) pref with
  | Some m => match resp with
              | [Tx l] => match offer_of l with Some m' => str_eqb m m' | None => false end
              | _ => false
              end
  | None => evs_eqb resp [Closed]
  end.

Definition began (resp : list ev) : bool := evs_eqb resp [Tx w_BEGIN; Binary].

(* judgement of one exchange given everything observed before it; 0 = fine *)
Definition exchange_verdict (pref : list bytes) (before : list ev) (x : exchange) : N :=
  let (l, resp) := x in
  if negb (live before) then
    match resp with [] => 0 | _ => 1 end                         (* 1: acts after closing / after the handshake *)
  else
    match resp with
    | [] => 2                                                    (* 2: a line is left unanswered: stall *)
    | _ =>
        if (1 <? N.of_nat (length (sent_lines resp))) then 3     (* 3: more than one line in answer to one *)
        else if outside_protocol before l then
          if existsb (ev_eqb Closed) resp then 0 else 4          (* 4: outside the protocol, not closed *)
        else if str_eqb (word l) w_REJECTED && negb (moved_on pref before resp) then 5
                                                                 (* 5: REJECTED: neither next mechanism nor close *)
        else if str_eqb (word l) w_ERROR && negb (moved_on pref before resp || began resp) then 6
                                                                 (* 6: ERROR: neither next mechanism, close nor BEGIN *)
        else 0
    end.

Fixpoint exchanges_verdict (pref : list bytes) (before : list ev) (xs : list exchange) : N :=
  match xs with
  | [] => 0
  | x :: r =>
      match exchange_verdict pref before x with
      | 0 => exchanges_verdict pref (before ++ Rx (fst x) :: snd x) r
      | n => n
      end
  end.

(* what the client does on connecting: the NUL byte, then its first offer *)
Definition opening_ok (pref : list bytes) (init : list ev) : bool :=
  match init, pref with
  | [TxRaw [0]; Tx l], m :: _ => match offer_of l with Some m' => str_eqb m m' | None => false end
  | _, _ => false
  end.

(* the whole judgement of an observed session; 0 = satisfies the property's
   safety part, otherwise the number of the clause that fails *)
Definition session_verdict (pref : list bytes) (unix : bool) (init : list ev) (xs : list exchange) : N :=
  if negb (opening_ok pref init) then 7
  else if negb (begin_safe unix (trace init xs)) then 8
  else if negb (offers_in_order pref (trace init xs)) then 9
  else exchanges_verdict pref init xs.

(* ======================= Part 3: reference server ========================= *)

Record server_cfg := mk_cfg {
  accepted : list bytes;          (* mechanisms the server accepts *)
  agrees_fd : bool;               (* answer to NEGOTIATE_UNIX_FD: AGREE_UNIX_FD or ERROR *)
  ext_challenges : bool           (* EXTERNAL without initial response: empty DATA challenge first (as in the
                                     specification's example) or OK at once from the socket credentials *)
}.

Inductive sstate :=
| SWaitNul | SWaitAuth | SWaitData (m : bytes) | SWaitBegin
| SDone            (* BEGIN received: the binary protocol starts *)
| SDead.           (* the server dropped the connection *)

Inductive cin := CRaw (b : bytes) | CLine (l : bytes) | CEof.

(* the server's fixed data *)
Definition srv_guid : bytes := [49; 50; 51; 52; 100; 101; 97; 100; 98; 101; 101; 102].           (* 1234deadbeef *)
Definition srv_ctx : bytes := [111; 114; 103; 95; 102; 114; 101; 101; 100; 101; 115; 107; 116; 111; 112; 95; 103; 101; 110; 101; 114; 97; 108].  (* org_freedesktop_general *)
Definition srv_cookie_id : bytes := [52; 50].                                                    (* 42 *)
Definition srv_challenge : bytes := [100; 101; 97; 100; 98; 101; 101; 102; 48; 49].              (* deadbeef01 *)
Definition srv_cookie : bytes := [99; 48; 102; 102; 101; 101; 99; 48; 102; 102; 101; 101].       (* c0ffeec0ffee *)

Fixpoint unhex (l : bytes) : option bytes :=
  match l with
  | [] => Some []
  | [_] => None
  | a :: b :: r =>
      match hexval a, hexval b, unhex r with
      | Some x, Some y, Some t => Some (x * 16 + y :: t)
      | _, _, _ => None
      end
  end.

Section Server.
  Variable sha1hex : bytes -> bytes.      (* x |-> lower-case hex of SHA-1(x) *)
  Variable cfg : server_cfg.

  Definition accepts (m : bytes) : bool := existsb (str_eqb m) (accepted cfg).

  Definition rejected_line : bytes :=
    match accepted cfg with
    | [] => w_REJECTED
    | _ => w_REJECTED ++ 32 :: join_with 32 (accepted cfg)
    end.
  Definition ok_reply : bytes := w_OK ++ 32 :: srv_guid.
  Definition cookie_challenge : bytes :=
    w_DATA ++ 32 :: hex_chars (srv_ctx ++ 32 :: srv_cookie_id ++ 32 :: srv_challenge).

  (* DBUS_COOKIE_SHA1: the response is "<client challenge> <sha1(server:client:cookie)>" in hex *)
  Definition cookie_response_ok (arg : bytes) : bool :=
    match unhex arg with
    | None => false
    | Some payload =>
        match split_on 32 payload with
        | [cc; resp] => str_eqb resp (sha1hex (srv_challenge ++ 58 :: cc ++ 58 :: srv_cookie))
        | _ => false
        end
    end.

  Definition start_mechanism (m : bytes) (initial : option bytes) : sstate * list bytes :=
    if str_eqb m m_EXTERNAL then
      match initial with
      | Some _ => (SWaitBegin, [ok_reply])
      | None => if ext_challenges cfg then (SWaitData m, [w_DATA]) else (SWaitBegin, [ok_reply])
      end
    else if str_eqb m m_DBUS_COOKIE_SHA1 then
      match initial with
      | Some _ => (SWaitData m, [cookie_challenge])
      | None => (SWaitAuth, [rejected_line])
      end
    else (SWaitBegin, [ok_reply]).                                   (* ANONYMOUS *)

  Definition continue_mechanism (m : bytes) (arg : bytes) : sstate * list bytes :=
    if str_eqb m m_DBUS_COOKIE_SHA1 then
      if cookie_response_ok arg then (SWaitBegin, [ok_reply]) else (SWaitAuth, [rejected_line])
    else (SWaitBegin, [ok_reply]).                                   (* EXTERNAL: the empty response *)

  (* the server state diagram of the specification *)
  Definition server_step (st : sstate) (i : cin) : sstate * list bytes :=
    match st, i with
    | SDead, _ => (SDead, [])
    | SDone, _ => (SDone, [])
    | _, CEof => (SDead, [])
    | SWaitNul, CRaw [0] => (SWaitAuth, [])
    | SWaitNul, _ => (SDead, [])
    | _, CRaw _ => (SDead, [])
    | SWaitAuth, CLine l =>
        if str_eqb (word l) w_AUTH then
          match args l with
          | None => (SWaitAuth, [rejected_line])
          | Some a => if accepts (word a) then start_mechanism (word a) (args a)
                      else (SWaitAuth, [rejected_line])
          end
        else if str_eqb (word l) w_BEGIN then (SDead, [])
        else if str_eqb (word l) w_ERROR then (SWaitAuth, [rejected_line])
        else (SWaitAuth, [w_ERROR])
    | SWaitData m, CLine l =>
        if str_eqb (word l) w_DATA then continue_mechanism m (args_or_empty l)
        else if str_eqb (word l) w_BEGIN then (SDead, [])
        else if str_eqb (word l) w_CANCEL || str_eqb (word l) w_ERROR then (SWaitAuth, [rejected_line])
        else (SWaitData m, [w_ERROR])
    | SWaitBegin, CLine l =>
        if str_eqb (word l) w_BEGIN then (SDone, [])
        else if str_eqb (word l) w_CANCEL || str_eqb (word l) w_ERROR then (SWaitAuth, [rejected_line])
        else if str_eqb (word l) w_NEGOTIATE_UNIX_FD then
          (SWaitBegin, [if agrees_fd cfg then w_AGREE_UNIX_FD else w_ERROR])
        else (SWaitBegin, [w_ERROR])
    end.

  (* all the lines the server writes for a sequence of client inputs, and where it ends *)
  Fixpoint server_run (st : sstate) (ins : list cin) : sstate * list bytes :=
    match ins with
    | [] => (st, [])
    | i :: r =>
        let (st1, o1) := server_step st i in
        let (st2, o2) := server_run st1 r in
        (st2, o1 ++ o2)
    end.
End Server.

(* every non-empty set of the three mechanisms x both descriptor answers x both EXTERNAL styles *)
Definition accepted_sets : list (list bytes) :=
  [ [m_EXTERNAL]; [m_DBUS_COOKIE_SHA1]; [m_ANONYMOUS];
    [m_EXTERNAL; m_DBUS_COOKIE_SHA1]; [m_EXTERNAL; m_ANONYMOUS]; [m_DBUS_COOKIE_SHA1; m_ANONYMOUS];
    [m_EXTERNAL; m_DBUS_COOKIE_SHA1; m_ANONYMOUS] ].

Definition all_cfgs : list server_cfg :=
  flat_map (fun a => [mk_cfg a true true; mk_cfg a true false; mk_cfg a false true; mk_cfg a false false])
           accepted_sets.
