(* A DBus message on the wire, from the DBus specification ("Message Format"):
   the fixed signature yyyyuua(yv) - endianness flag ('l' or 'B'), message
   type, flags, protocol version 1, body length, serial, array of header
   fields (code, variant) in any order, possibly with unknown codes - then
   zero padding to an 8-byte boundary, then the body: the values of the
   SIGNATURE header field encoded in sequence from offset 0 of the body.

   Part 1: messages as they appear on the wire ([smsg], [msg_enc]) and what a
           receiver must recover from them ([recovered]).
   Part 2: messages as an application describes them to a constructor
           ([amsg]: type, flags, the header fields of the specification's
           per-type table, a typed body) and the wire message they denote.   *)
From Tx Require Import Lib.Base Model.PyVal Model.Marshal Spec.WireSpec Spec.Readback Spec.WireTyped Spec.Conforms Spec.Grammar.
Local Open Scope N_scope.

(* ---------------------------------------------------------------------------
   Part 1: wire messages                                                        *)

Definition hdr_ts : list ty :=
  [TByte; TByte; TByte; TByte; TUInt32; TUInt32; TArray (TStruct [TByte; TVariant])].

Record smsg := {
  s_le : bool;                          (* byte order of the whole message *)
  s_type : Z;                           (* 1..4 *)
  s_flags : Z;                          (* bit 0: no reply expected, bit 1: no auto start *)
  s_serial : Z;
  s_fields : list (Z * ty * wval);      (* header fields: code, type and value of the variant *)
  s_body_ts : list ty;
  s_body : list wval;
}.

Definition field_w (f : Z * ty * wval) : wval :=
  let '(code, t, w) := f in WStruct [WInt code; WVariant t w].

Definition hdr_ws (m : smsg) (body_len : N) : list wval :=
  [WInt (if s_le m then 108 else 66); WInt (s_type m); WInt (s_flags m); WInt 1;
   WInt (Z.of_N body_len); WInt (s_serial m); WArray (map field_w (s_fields m))].

Definition msg_body (m : smsg) : bytes := enc_seq (s_body_ts m) (s_body m) 0 (s_le m).

Definition msg_header (m : smsg) : bytes :=
  enc_seq hdr_ts (hdr_ws m (N.of_nat (length (msg_body m)))) 0 (s_le m).

Definition msg_enc (m : smsg) : bytes :=
  msg_header m ++ padding 8 (length (msg_header m)) ++ msg_body m.

(* the type the specification assigns to each header field code ("Header
   Fields" table): PATH o, INTERFACE s, MEMBER s, ERROR_NAME s, REPLY_SERIAL u,
   DESTINATION s, SENDER s, SIGNATURE g, UNIX_FDS u; other codes: any type *)
Definition field_ty (code : Z) : option ty :=
  match code with
  | 1 => Some TObjPath | 2 | 3 | 4 | 6 | 7 => Some TString | 5 | 9 => Some TUInt32 | 8 => Some TSig
  | _ => None
  end%Z.

Definition known_code (code : Z) : bool := (1 <=? code)%Z && (code <=? 9)%Z.

Definition field_ok (fds : list pyval) (f : Z * ty * wval) : Prop :=
  let '(code, t, w) := f in
  (0 <= code < 256)%Z /\ (length (show t) <= 255)%nat /\ wt fds t w /\
  match field_ty code with Some t' => t = t' | None => True end.

(* the SIGNATURE header field (code 8) of a field list; a conformant message
   has at most one, for a list with several this is the last one *)
Fixpoint sig_field (fields : list (Z * ty * wval)) : option str :=
  match fields with
  | [] => None
  | (code, t, w) :: r =>
      match sig_field r with
      | Some s => Some s
      | None => match code, w with 8%Z, WStr s => Some s | _, _ => None end
      end
  end.

(* a well-typed wire message: what "spec-conformant bytes another
   implementation would produce" are the encoding of.  (The specification
   demands more - serial non-zero, the required fields of the type present,
   total length at most 2^27 - none of which the statements below need.) *)
Definition msg_wt (fds : list pyval) (m : smsg) : Prop :=
  (1 <= s_type m <= 4)%Z /\ (0 <= s_flags m < 256)%Z /\ (0 <= s_serial m < 4294967296)%Z /\
  Forall (field_ok fds) (s_fields m) /\
  wt_seq fds (s_body_ts m) (s_body m) /\
  (* the body is typed by the SIGNATURE field; without one (or with an empty one) there is no body *)
  match s_body_ts m with
  | [] => sig_field (s_fields m) = None \/ sig_field (s_fields m) = Some []
  | ts => sig_field (s_fields m) = Some (show_list ts)
  end /\
  len (msg_enc m) < 4294967296.

(* nesting depth of the values of a message: the fuel the model needs *)
Definition msg_depth (m : smsg) : nat :=
  Nat.max (wdepth_list (hdr_ws m 0)) (wdepth_list (s_body m)).

(* what parsing must recover (the property text): message type, serial, the
   two flags, every header field with a known code - in header order, with the
   decoded value of its variant -, and the decoded body (None without one) *)
Definition recovered_fields (fds : list pyval) (m : smsg) : list (Z * pyval) :=
  flat_map (fun f => let '(code, t, w) := f in
                     if known_code code then [(code, readback fds t w)] else []) (s_fields m).

Definition recovered_body (fds : list pyval) (m : smsg) : option (list pyval) :=
  match s_body_ts m with
  | [] => None
  | ts => Some (readback_seq fds ts (s_body m))
  end.

Definition expect_reply_of (m : smsg) : bool := negb (Z.testbit (s_flags m) 0).
Definition auto_start_of (m : smsg) : bool := negb (Z.testbit (s_flags m) 1).

(* ---------------------------------------------------------------------------
   The layout the property text spells out, as a predicate on bytes: a fixed
   16-byte part (endianness, type, flags, version 1, body length, serial,
   length of the field array), the field array, zero padding to a multiple of
   8, and a body of exactly the declared length.                               *)
Definition wellformed_layout (raw : bytes) (le : bool) (mtype flags : N) (serial : Z) : Prop :=
  exists farr pad body : bytes,
    raw = [if le then 108 else 66; mtype; flags; 1]
          ++ uint 4 le (N.of_nat (length body)) ++ uint 4 le (Z.to_N serial)
          ++ uint 4 le (N.of_nat (length farr)) ++ farr ++ pad ++ body /\
    Forall (fun b => b = 0) pad /\ (length pad < 8)%nat /\
    ((16 + length farr + length pad) mod 8 = 0)%nat.

(* ---------------------------------------------------------------------------
   Part 2: messages as given to a constructor                                   *)

Record amsg := {
  a_type : N;                           (* 1 method call, 2 method return, 3 error, 4 signal *)
  a_no_reply : bool;                    (* NO_REPLY_EXPECTED *)
  a_no_auto_start : bool;               (* NO_AUTO_START *)
  a_path : option str;
  a_interface : option str;
  a_member : option str;
  a_error_name : option str;
  a_reply_serial : option Z;
  a_destination : option str;
  a_sender : option str;
  a_sig : option (list ty);             (* SIGNATURE field; None: no field.  Some []: an empty one *)
  a_body : list wval;                   (* the body values, typed by a_sig *)
}.

Definition body_ts (m : amsg) : list ty := match a_sig m with Some ts => ts | None => [] end.

Definition opt_ok (p : str -> bool) (o : option str) : Prop :=
  match o with Some s => p s = true | None => True end.

Definition present {A} (o : option A) : Prop := o <> None.
Definition absent {A} (o : option A) : Prop := o = None.

(* a string a STRING field can carry: valid UTF-8 without NUL *)
Definition string_ok (s : str) : bool :=
  negb (existsb (N.eqb 0) s) && utf8_valid s.

Definition reserved_local_path : str :=
  [47; 111; 114; 103; 47; 102; 114; 101; 101; 100; 101; 115; 107; 116; 111; 112; 47; 68; 66; 117; 115; 47; 76; 111; 99; 97; 108].

(* the specification's per-type table of header fields (required ones present,
   those that do not belong to the type absent), names within their grammars
   (Spec/Grammar.v), a well-typed body *)
Definition valid_amsg (fds : list pyval) (m : amsg) : Prop :=
  match a_type m with
  | 1 => present (a_path m) /\ present (a_member m) /\ absent (a_error_name m) /\ absent (a_reply_serial m)
         /\ a_path m <> Some reserved_local_path
  | 2 => present (a_reply_serial m) /\ absent (a_path m) /\ absent (a_interface m) /\ absent (a_member m)
         /\ absent (a_error_name m)
  | 3 => present (a_error_name m) /\ present (a_reply_serial m) /\ absent (a_path m) /\ absent (a_interface m)
         /\ absent (a_member m)
  | 4 => present (a_path m) /\ present (a_interface m) /\ present (a_member m) /\ absent (a_error_name m)
         /\ absent (a_reply_serial m)
  | _ => False
  end /\
  opt_ok g_path (a_path m) /\ opt_ok g_interface (a_interface m) /\ opt_ok g_member (a_member m) /\
  opt_ok g_error (a_error_name m) /\ opt_ok g_bus (a_destination m) /\ opt_ok string_ok (a_sender m) /\
  match a_reply_serial m with Some z => (0 <= z < 4294967296)%Z | None => True end /\
  (length (show_list (body_ts m)) <= 255)%nat /\
  wt_seq fds (body_ts m) (a_body m).

Definition opt_field {A} (code : Z) (t : ty) (f : A -> wval) (o : option A) : list (Z * ty * wval) :=
  match o with Some x => [(code, t, f x)] | None => [] end.

(* the header fields in the order of their codes *)
Definition fields_of (m : amsg) : list (Z * ty * wval) :=
  opt_field 1 TObjPath WStr (a_path m) ++ opt_field 2 TString WStr (a_interface m) ++
  opt_field 3 TString WStr (a_member m) ++ opt_field 4 TString WStr (a_error_name m) ++
  opt_field 5 TUInt32 WInt (a_reply_serial m) ++ opt_field 6 TString WStr (a_destination m) ++
  opt_field 7 TString WStr (a_sender m) ++ opt_field 8 TSig (fun ts => WStr (show_list ts)) (a_sig m).

Definition flags_byte (m : amsg) : Z :=
  ((if a_no_reply m then 1 else 0) + (if a_no_auto_start m then 2 else 0))%Z.

(* the wire message an application message denotes, for a byte order and a serial *)
Definition smsg_of (m : amsg) (le : bool) (serial : Z) : smsg :=
  {| s_le := le; s_type := Z.of_N (a_type m); s_flags := flags_byte m; s_serial := serial;
     s_fields := fields_of m; s_body_ts := body_ts m; s_body := a_body m |}.

(* ---------------------------------------------------------------------------
   Part 3: which Python constructor arguments denote an application message.
   Strings are given as str, the reply serial as the constructors store it
   (marshal.UInt32), the signature as the str of the body's types; an absent
   field is an attribute that is unset or None; the body is any Python value
   conforming to the signature (Spec/Conforms.v).                               *)
From Tx Require Import Model.Message.

Definition field_py (m : amsg) (a : attr) : option pyval :=
  match a with
  | APath => option_map PStr (a_path m)
  | AInterface => option_map PStr (a_interface m)
  | AMember => option_map PStr (a_member m)
  | AErrorName => option_map PStr (a_error_name m)
  | AReplySerial => option_map (fun z => PWrap 117 (PInt z)) (a_reply_serial m)
  | ADestination => option_map PStr (a_destination m)
  | ASender => option_map PStr (a_sender m)
  | ASignature => option_map (fun ts => PStr (show_list ts)) (a_sig m)
  | AUnixFds => None
  end.

Definition args_denote (attrs : list (attr * pyval)) (body : pyval) (m : amsg) : Prop :=
  (forall a, match field_py m a with
             | Some v => get_attr a attrs = Some v
             | None => get_attr a attrs = None \/ get_attr a attrs = Some PNone
             end) /\
  match body_ts m with
  | [] => True
  | ts => exists vs, seq_items body = Ok vs /\ conf_seq ts vs (a_body m)
  end.

(* no descriptors travel with the message (descriptor passing is C20) *)
Definition no_fds (fds : fdst) : Prop := fds = None \/ fds = Some [].

(* what parsing a constructed message must give back, spelled out: the fields
   that were given, with their values, in the order of their codes; the body
   as decoding yields it (read-back convention of C01) *)
Definition opt_rec {A} (code : Z) (f : A -> pyval) (o : option A) : list (Z * pyval) :=
  match o with Some x => [(code, f x)] | None => [] end.

Definition own_fields (m : amsg) : list (Z * pyval) :=
  opt_rec 1 PStr (a_path m) ++ opt_rec 2 PStr (a_interface m) ++ opt_rec 3 PStr (a_member m) ++
  opt_rec 4 PStr (a_error_name m) ++ opt_rec 5 PInt (a_reply_serial m) ++ opt_rec 6 PStr (a_destination m) ++
  opt_rec 7 PStr (a_sender m) ++ opt_rec 8 (fun ts => PStr (show_list ts)) (a_sig m).

Definition own_body (fds : list pyval) (m : amsg) : option (list pyval) :=
  match a_sig m with
  | Some (t :: ts) => Some (readback_seq fds (t :: ts) (a_body m))
  | _ => None
  end.

(* constructor arguments naming an invalid path, interface, member, error name
   or destination (for the message types whose constructor takes that name) *)
Definition names_invalid (mtype : N) (attrs : list (attr * pyval)) : Prop :=
  exists s,
    ((mtype = 1 \/ mtype = 4) /\ get_attr APath attrs = Some (PStr s) /\ g_path s = false) \/
    ((mtype = 1 \/ mtype = 4) /\ get_attr AInterface attrs = Some (PStr s) /\ g_interface s = false) \/
    ((mtype = 1 \/ mtype = 4) /\ get_attr AMember attrs = Some (PStr s) /\ g_member s = false) \/
    (mtype = 3 /\ get_attr AErrorName attrs = Some (PStr s) /\ g_error s = false) \/
    ((mtype = 1 \/ mtype = 2 \/ mtype = 3 \/ mtype = 4) /\
     get_attr ADestination attrs = Some (PStr s) /\ g_bus s = false).
