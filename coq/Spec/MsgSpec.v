(* A DBus message on the wire, from the DBus specification ("Message Format"):
   the fixed signature yyyyuua(yv) - endianness flag ('l' or 'B'), message
   type, flags, protocol version 1, body length, serial, array of header
   fields (code, variant) in any order, possibly with unknown codes - then
   zero padding to an 8-byte boundary, then the body: the values of the
   SIGNATURE header field encoded in sequence from offset 0 of the body. *)
From Tx Require Import Lib.Base Spec.WireSpec.
Local Open Scope N_scope.

Definition hdr_ts : list ty :=
  [TByte; TByte; TByte; TByte; TUInt32; TUInt32; TArray (TStruct [TByte; TVariant])].

Record smsg := {
  s_le : bool;                          (* byte order of the whole message *)
  s_type : Z;                           (* 1..4 *)
  s_flags : Z;                          (* bit 0: no reply expected, bit 1: no auto start *)
  s_serial : Z;
  s_fields : list (Z * ty * wval);      (* header fields: code, type and value of the variant *)
  s_body_ts : list ty;
  s_body : list wval;
}.

Definition field_w (f : Z * ty * wval) : wval :=
  let '(code, t, w) := f in WStruct [WInt code; WVariant t w].

Definition hdr_ws (m : smsg) (body_len : N) : list wval :=
  [WInt (if s_le m then 108 else 66); WInt (s_type m); WInt (s_flags m); WInt 1;
   WInt (Z.of_N body_len); WInt (s_serial m); WArray (map field_w (s_fields m))].

Definition msg_body (m : smsg) : bytes := enc_seq (s_body_ts m) (s_body m) 0 (s_le m).

Definition msg_header (m : smsg) : bytes :=
  enc_seq hdr_ts (hdr_ws m (N.of_nat (length (msg_body m)))) 0 (s_le m).

Definition msg_enc (m : smsg) : bytes :=
  msg_header m ++ padding 8 (length (msg_header m)) ++ msg_body m.
