(* The precondition and the equality of property C19's variant round trip,
   written from the property text and the documented inference (sigFromPy's
   docstring: wrapper classes select their type; otherwise a generic type; the
   element type of a list / the value type of a dict is taken from the FIRST
   element when all elements are instances of its class, else VARIANT).

   [ref_ty v] is the DBus type a Python value travels as when it is sent as a
   variant AND lies inside the property's claim; [None] = outside the claim:

   - scalars must be representable: a plain int infers INT32 and so must fit
     INT32; a wrapper instance must fit the type it names (Boolean: 0 or 1);
     a str must be encodable as a STRING (valid UTF-8, no NUL); an ObjectPath
     a valid object path; a Signature ASCII of at most 255 characters; a float
     is a 64-bit pattern; a bytearray holds bytes;
   - "the elements of each container all share one DBus type": when all
     elements of a list (all values of a dict) are instances of the first
     one's class, they must all have the first one's DBus type, or
     ("differ in Python type and so travel as ... their common base type") the
     first one is a plain int / plain str and the others are instances of
     subclasses (bool, wrapper classes) whose value fits INT32 / STRING
     (lists and the values of a dict alike; before the repair of D61 the
     inference took a dict's value type from the LAST value and
     {'a': 5, 'b': True} came back as {'a': True, 'b': True}:
     Props/C19.v C19_variant_roundtrip_legacy_refuted);
   - "or differ in Python type (and so travel as nested variants)": otherwise
     each element must itself be inside the claim, with a signature a variant
     can carry (at most 255 characters);
   - a list of same-class elements with different DBus types ([[1], ['a']])
     is outside (the quantifier of the property: "containers whose elements
     share a Python class but not a DBus type are outside the claim");
   - tuples are structs and need at least one field;
   - dict keys all have one basic DBus type, are not NaN, and are pairwise
     distinct under Python equality (automatic for a real Python dict; the
     association-list representation has to say it).  Keys of different DBus
     types are outside the claim: the property's second alternative is
     "differ in Python type AND SO travel as nested variants or as their
     common base type"; a DBus dict key must be of one basic type (a{kv}), so
     keys cannot travel as variants, and the inference makes no class test on
     keys at all (it uses the type of the last key iterated; Python collapses
     1, True and Byte(1) into one key anyway) - neither consequence the text
     names exists for keys, so only "all share one DBus type" applies to them;
   - objects with dbusOrder and None have no inferred type.

   [py_eq v' v]: v' == v in Python, modulo the documented read-back
   normalisation [norm] (tuple -> list, bytearray -> list of ints, wrapper ->
   plain value; DESIGN.md section 9 (1)).  [py_eqb] is sound, not complete,
   for Python's ==: it contains True == 1 and 0.0 == -0.0 but not the
   int/float cross equality 1 == 1.0 (never needed: a float is read back as a
   float).  Floats are bit patterns; two NaN are taken as equal when their
   patterns are equal (Python's == never holds between NaN; the correspondence
   run compares "both NaN").

   Executable reference of the same notion on the Python side: ref_type /
   Outside / norm / eq_nan in harness/c19.py; the harness compares
   [inside_claim_b] with ref_type on every generated value. *)
From Tx Require Import Lib.Base Model.PyVal Model.Validators Model.Marshal Spec.WireSpec.
Local Open Scope N_scope.

(* --- equality of DBus types -------------------------------------------------- *)

Fixpoint ty_eqb (a b : ty) {struct a} : bool :=
  match a, b with
  | TByte, TByte | TBool, TBool | TInt16, TInt16 | TUInt16, TUInt16 | TInt32, TInt32
  | TUInt32, TUInt32 | TInt64, TInt64 | TUInt64, TUInt64 | TDouble, TDouble
  | TString, TString | TObjPath, TObjPath | TSig, TSig | TFd, TFd | TVariant, TVariant => true
  | TArray x, TArray y => ty_eqb x y
  | TStruct xs, TStruct ys =>
      (fix go (xs ys : list ty) {struct xs} : bool :=
         match xs, ys with
         | [], [] => true
         | x :: xs', y :: ys' => ty_eqb x y && go xs' ys'
         | _, _ => false
         end) xs ys
  | TDictEntry k v, TDictEntry k' v' => ty_eqb k k' && ty_eqb v v'
  | _, _ => false
  end.

Definition has_ty (o : option ty) (t : ty) : bool :=
  match o with Some t' => ty_eqb t' t | None => false end.

(* --- scalars ---------------------------------------------------------------------- *)

(* a str that has a STRING encoding *)
Definition str_ok (s : bytes) : bool := negb (existsb (N.eqb 0) s) && utf8_valid s.

Definition int_code_ty (c : N) : option ty :=
  if c =? 121 then Some TByte else if c =? 110 then Some TInt16 else if c =? 113 then Some TUInt16
  else if c =? 105 then Some TInt32 else if c =? 117 then Some TUInt32 else if c =? 120 then Some TInt64
  else if c =? 116 then Some TUInt64 else None.

(* an instance of the wrapper class with dbusSignature = [c] and plain value x *)
Definition wrap_ty (c : N) (x : pyval) : option ty :=
  match x with
  | PInt z =>
      if c =? 98 then (if (z =? 0)%Z || (z =? 1)%Z then Some TBool else None)
      else match int_code_ty c with
           | Some t => if int_range t z then Some t else None
           | None => None
           end
  | PStr s =>
      if c =? 103 then (if is_ascii s && (length s <=? 255)%nat then Some TSig else None)
      else if c =? 111 then (if str_ok s && validate_path s then Some TObjPath else None)
      else None
  | _ => None
  end.

(* the value of an instance of int or of one of its subclasses *)
Definition int_val (y : pyval) : option Z :=
  match y with
  | PInt z => Some z
  | PBool b => Some (if b then 1 else 0)%Z
  | PWrap _ (PInt z) => Some z
  | _ => None
  end.

Definition str_val (y : pyval) : option bytes :=
  match y with
  | PStr s => Some s
  | PWrap _ (PStr s) => Some s
  | _ => None
  end.

(* y, an instance of (a subclass of) the class of the first element x, travels
   as x's own type: only plain int and plain str have subclasses here *)
Definition as_base (x y : pyval) : bool :=
  match x with
  | PInt _ => match int_val y with Some z => int_range TInt32 z | None => false end
  | PStr _ => match str_val y with Some s => str_ok s | None => false end
  | _ => false
  end.

(* a variant can carry the type: its signature fits the one length byte *)
Definition sig_fits (t : ty) : bool := (length (show t) <=? 255)%nat.

Definition variant_ok (o : option ty) : bool :=
  match o with Some t => sig_fits t | None => false end.

(* --- the read-back normalisation and Python equality ---------------------------- *)

Fixpoint norm (v : pyval) : pyval :=
  match v with
  | PBytes b => PList (map (fun x => PInt (Z.of_N x)) b)
  | PList l | PTuple l => PList (map norm l)
  | PDict l => PDict (map (fun kv => (norm (fst kv), norm (snd kv))) l)
  | PWrap _ x => norm x
  | _ => v
  end.

(* identity of a hashable scalar under ==: True == 1, 0.0 == -0.0 *)
Inductive keyid := KNum (z : Z) | KStr (s : bytes) | KFlt (bits : N) | KNone.

Definition neg_zero : N := 9223372036854775808.
Definition is_nan (bits : N) : bool := 9218868437227405312 <? bits mod neg_zero.

Definition key_id (v : pyval) : option keyid :=
  match v with
  | PInt z => Some (KNum z)
  | PBool b => Some (KNum (if b then 1 else 0))
  | PStr s => Some (KStr s)
  | PFloat x => Some (KFlt (if x =? neg_zero then 0 else x))
  | PNone => Some KNone
  | _ => None
  end.

Definition keyid_eqb (a b : keyid) : bool :=
  match a, b with
  | KNum x, KNum y => Z.eqb x y
  | KStr x, KStr y => str_eqb x y
  | KFlt x, KFlt y => x =? y
  | KNone, KNone => true
  | _, _ => false
  end.

Definition scalar_eqb (a b : pyval) : bool :=
  match key_id a, key_id b with
  | Some x, Some y => keyid_eqb x y
  | _, _ => false
  end.

(* d[k] *)
Fixpoint lookup (k : pyval) (l : list (pyval * pyval)) : option pyval :=
  match l with
  | [] => None
  | (k', y) :: r => if scalar_eqb k k' then Some y else lookup k r
  end.

(* a == b for values in normal form: lists elementwise; dicts: same length
   and every key of a is in b with an equal value *)
Fixpoint py_eqb (a b : pyval) {struct a} : bool :=
  match a, b with
  | PList la, PList lb =>
      (fix go (la lb : list pyval) {struct la} : bool :=
         match la, lb with
         | [], [] => true
         | x :: la', y :: lb' => py_eqb x y && go la' lb'
         | _, _ => false
         end) la lb
  | PDict la, PDict lb =>
      (length la =? length lb)%nat &&
      forallb (fun kv => match lookup (fst kv) lb with
                         | Some y => py_eqb (snd kv) y
                         | None => false
                         end) la
  | _, _ => scalar_eqb a b
  end.

Definition py_eq (v' v : pyval) : Prop := py_eqb v' (norm v) = true.

(* pairwise distinct under == *)
Fixpoint distinct_b (ks : list pyval) : bool :=
  match ks with
  | [] => true
  | k :: r => forallb (fun k' => negb (scalar_eqb k k')) r && distinct_b r
  end.

Definition nan_key (k : pyval) : bool :=
  match k with PFloat x => is_nan x | _ => false end.

(* --- the claim ---------------------------------------------------------------------- *)

Fixpoint ref_ty (v : pyval) : option ty :=
  match v with
  | PInt z => if int_range TInt32 z then Some TInt32 else None
  | PBool _ => Some TBool
  | PFloat bits => if bits <? 2 ^ 64 then Some TDouble else None
  | PStr s => if str_ok s then Some TString else None
  | PBytes b => if forallb (fun x => x <? 256) b then Some (TArray TByte) else None
  | PWrap c x => wrap_ty c x
  | PList [] => Some (TArray TVariant)
  | PList (x :: r) =>
      if forallb (fun y => subclass (class_of y) (class_of x)) r then
        (* one Python class: one DBus type, or the common base type *)
        match ref_ty x with
        | Some t => if forallb (fun y => has_ty (ref_ty y) t || as_base x y) r
                    then Some (TArray t) else None
        | None => None
        end
      else
        (* the elements differ in Python type: each travels as a variant *)
        if variant_ok (ref_ty x) && forallb (fun y => variant_ok (ref_ty y)) r
        then Some (TArray TVariant) else None
  | PTuple [] => None
  | PTuple l =>
      option_map TStruct
        ((fix go (l : list pyval) : option (list ty) :=
            match l with
            | [] => Some []
            | x :: r => match ref_ty x, go r with
                        | Some t, Some ts => Some (t :: ts)
                        | _, _ => None
                        end
            end) l)
  | PDict [] => Some (TArray (TDictEntry TString TVariant))
  | PDict ((k0, x0) :: r) =>
      match ref_ty k0 with
      | None => None
      | Some kt =>
          if basic kt
             && forallb (fun kv => has_ty (ref_ty (fst kv)) kt) r
             && negb (existsb (fun kv => nan_key (fst kv)) ((k0, x0) :: r))
             && distinct_b (map (fun kv => norm (fst kv)) ((k0, x0) :: r))
          then
            if forallb (fun kv => subclass (class_of (snd kv)) (class_of x0)) r then
              match ref_ty x0 with
              | Some vt => if forallb (fun kv => has_ty (ref_ty (snd kv)) vt || as_base x0 (snd kv)) r
                           then Some (TArray (TDictEntry kt vt)) else None
              | None => None
              end
            else
              if variant_ok (ref_ty x0) && forallb (fun kv => variant_ok (ref_ty (snd kv))) r
              then Some (TArray (TDictEntry kt TVariant)) else None
          else None
      end
  | PObj _ | PNone => None
  end.

(* inside the claim: the value has a type, and a variant can carry it *)
Definition inside_claim_b (v : pyval) : bool := variant_ok (ref_ty v).
Definition inside_claim (v : pyval) : Prop := inside_claim_b v = true.
