(* Specification for C16, written from the property text and the DBus
   specification's description of object paths and of
   org.freedesktop.DBus.ObjectManager - not from txdbus.

   An object path is a sequence of elements; the root path has none.  Its
   text is '/' followed by the elements joined by '/'.  The exported tree
   is a partial map from paths to objects, changed only by export (bind the
   object's path to it, replacing what was there) and unexport (unbind).

   - an object is visible at p iff p is bound;
   - the children of p are the first elements below p of the bound paths
     strictly beneath p; p can be introspected iff it is bound or has a child;
   - the managed objects of p are the bindings strictly beneath p;
   - an export announces (path, object) as added; an unexport of a bound
     path announces (path, the object that was bound) as removed; an
     unexport of an unbound path has nothing to announce.                    *)
From Tx Require Import Lib.Base.
Local Open Scope N_scope.

Definition path := list str.

Definition path_eqb : path -> path -> bool := list_eqb str_eqb.

(* textual form and its inverse *)
Definition render (p : path) : str := 47 :: join_with 47 p.

Definition comps (s : str) : path :=
  match s with
  | c :: rest =>
      if c =? 47 then match rest with [] => [] | _ => split_on 47 rest end
      else [s]                  (* not the text of a path *)
  | [] => [s]
  end.

Section PathTree.
  Variable O : Type.            (* exported objects *)

  Definition tree := path -> option O.

  Definition empty : tree := fun _ => None.

  Inductive sevent :=
  | SExport (p : path) (o : O)
  | SUnexport (p : path).

  Definition s_step (t : tree) (e : sevent) : tree :=
    match e with
    | SExport p o => fun q => if path_eqb q p then Some o else t q
    | SUnexport p => fun q => if path_eqb q p then None else t q
    end.

  Definition s_run (h : list sevent) : tree := fold_left s_step h empty.

  (* --- what is visible ---------------------------------------------------- *)
  Definition bound (t : tree) (p : path) : Prop := t p <> None.

  (* q lies strictly beneath p *)
  Definition strictly_beneath (p q : path) : Prop := exists c r, q = p ++ c :: r.

  Definition child_of (t : tree) (p : path) (c : str) : Prop :=
    exists r, bound t (p ++ c :: r).

  Definition introspectable (t : tree) (p : path) : Prop :=
    bound t p \/ exists c, child_of t p c.

  Definition managed_by (t : tree) (p q : path) (o : O) : Prop :=
    strictly_beneath p q /\ t q = Some o.

  (* --- announcements ------------------------------------------------------ *)
  Inductive announce :=
  | Added (p : path) (o : O)
  | Removed (p : path) (o : O).

  Definition s_announce (t : tree) (e : sevent) : option announce :=
    match e with
    | SExport p o => Some (Added p o)
    | SUnexport p => match t p with Some o => Some (Removed p o) | None => None end
    end.

  (* --- the same notions, executable (used as the oracle of the
         correspondence run).  `dom` is any list of paths containing every
         bound path, e.g. the paths mentioned by the history. ---------------- *)
  Fixpoint strip_prefix (p q : path) : option path :=      (* Some r iff q = p ++ r *)
    match p, q with
    | [], _ => Some q
    | a :: p', b :: q' => if str_eqb a b then strip_prefix p' q' else None
    | _ :: _, [] => None
    end.

  Definition first_below (p q : path) : option str :=
    match strip_prefix p q with Some (c :: _) => Some c | _ => None end.

  Fixpoint dedupe {A} (eqb : A -> A -> bool) (l : list A) : list A :=
    match l with
    | [] => []
    | x :: r => if existsb (eqb x) r then dedupe eqb r else x :: dedupe eqb r
    end.

  Definition is_bound (t : tree) (p : path) : bool :=
    match t p with Some _ => true | None => false end.

  Definition x_children (t : tree) (dom : list path) (p : path) : list str :=
    dedupe str_eqb
      (flat_map (fun q => if is_bound t q
                          then match first_below p q with Some c => [c] | None => [] end
                          else [])
                dom).

  Definition x_introspectable (t : tree) (dom : list path) (p : path) : bool :=
    is_bound t p || match x_children t dom p with [] => false | _ => true end.

  Definition x_managed (t : tree) (dom : list path) (p : path) : list (path * O) :=
    flat_map (fun q => match first_below p q, t q with
                       | Some _, Some o => [(q, o)]
                       | _, _ => []
                       end)
             (dedupe path_eqb dom).

  Definition sevent_path (e : sevent) : path :=
    match e with SExport p _ => p | SUnexport p => p end.

End PathTree.

Arguments empty {O}.
Arguments SExport {O}.
Arguments SUnexport {O}.
Arguments s_step {O}.
Arguments s_run {O}.
Arguments bound {O}.
Arguments child_of {O}.
Arguments introspectable {O}.
Arguments managed_by {O}.
Arguments Added {O}.
Arguments Removed {O}.
Arguments s_announce {O}.
Arguments is_bound {O}.
Arguments x_children {O}.
Arguments x_introspectable {O}.
Arguments x_managed {O}.
Arguments sevent_path {O}.

(* "all its interfaces and readable properties": the reported dictionary has
   one entry per declared interface name, each carrying a property
   dictionary declared for that name.  When the declared names are distinct
   this makes `reported` a permutation of `declared`. *)
Definition ifaces_ok {P} (reported declared : list (str * P)) : Prop :=
  NoDup (map fst reported) /\
  (forall n, In n (map fst reported) <-> In n (map fst declared)) /\
  (forall n p, In (n, p) reported -> In (n, p) declared).
