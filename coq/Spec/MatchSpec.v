(* Specification for C12, written from the property text and the "Match
   Rules" section of the DBus specification - not from the code.

   Only the vocabulary is taken from Model/Router.v (arg, msg, rule, cbk,
   event and their field names); no function of the model is used here.

   A match rule is a set of constraints.  The property lists: message type,
   interface, member, path, path namespace, destination, exact string
   arguments and argument paths.  A message satisfies the rule when it
   satisfies every constraint present.  The keys `sender` and `arg0namespace`
   can be written in a rule (and are carried in the rule text) but are not
   among the constraints the property lists; they are not evaluated here. *)
From Tx Require Import Lib.Base Model.Router.
Local Open Scope N_scope.

(* ---- constraints -------------------------------------------------------------- *)

(* the four message types and the names match rules use for them *)
Definition type_names : list (str * N) :=
  [ ([101; 114; 114; 111; 114], 3);                                            (* error *)
    ([109; 101; 116; 104; 111; 100; 95; 99; 97; 108; 108], 1);                   (* method_call *)
    ([109; 101; 116; 104; 111; 100; 95; 114; 101; 116; 117; 114; 110], 2);       (* method_return *)
    ([115; 105; 103; 110; 97; 108], 4) ].                                        (* signal *)

Definition type_code (name : str) : option N := alist_get str_eqb name type_names.

Definition signal (m : msg) : Prop := m_type m = 4.

(* type='name': the message is of that type; a name that is no message type
   is satisfied by no message *)
Definition type_is (name : str) (m : msg) : bool :=
  match type_code name with Some c => c =? m_type m | None => false end.

(* interface / member / path / destination: the header field is present and
   equal to the value *)
Definition field_is (v : str) (field : option str) : bool :=
  match field with Some f => str_eqb f v | None => false end.

(* path_namespace='ns': the message's path is ns or a descendant of ns,
   i.e. continues ns after a '/'; the root '/' is an ancestor of every path *)
Definition within (ns p : str) : bool :=
  str_eqb p ns || str_eqb ns [47] || starts_with (ns ++ [47]) p.

Definition path_within (ns : str) (m : msg) : bool :=
  match m_path m with Some p => within ns p | None => false end.

(* the arguments of a message: none when it has no body *)
Definition arguments (m : msg) : list arg :=
  match m_body m with Some l => l | None => [] end.

(* the N-th argument if it exists and is a string *)
Definition string_arg (m : msg) (n : nat) : option str :=
  match nth_error (arguments m) n with Some (AStr s) => Some s | _ => None end.

(* argN='v': the N-th argument is the string v *)
Definition arg_is (m : msg) (nv : nat * str) : bool :=
  match string_arg m (fst nv) with Some s => str_eqb s (snd nv) | None => false end.

(* argNpath='v': the N-th argument is a string equal to v, or whichever of
   the two ends in '/' is a prefix of the other *)
Definition path_like (a v : str) : bool :=
  str_eqb a v
  || (ends_with_char 47 v && starts_with v a)
  || (ends_with_char 47 a && starts_with a v).

Definition arg_path_is (m : msg) (nv : nat * str) : bool :=
  match string_arg m (fst nv) with Some s => path_like s (snd nv) | None => false end.

(* an absent constraint is satisfied *)
Definition holds {A} (c : option A) (test : A -> bool) : bool :=
  match c with Some v => test v | None => true end.

(* the message satisfies every constraint of the rule *)
Definition matches (r : rule) (m : msg) : bool :=
  holds (r_type r) (fun n => type_is n m)
  && holds (r_interface r) (fun v => field_is v (m_interface m))
  && holds (r_member r) (fun v => field_is v (m_member m))
  && holds (r_path r) (fun v => field_is v (m_path m))
  && holds (r_path_namespace r) (fun ns => path_within ns m)
  && holds (r_destination r) (fun v => field_is v (m_destination m))
  && forallb (arg_is m) (r_args r)
  && forallb (arg_path_is m) (r_arg_paths r).

(* ---- histories ---------------------------------------------------------------- *)

(* A rule can be registered unless it names a message type that does not
   exist. *)
Definition registrable (r : rule) : bool :=
  match r_type r with Some n => match type_code n with Some _ => true | None => false end | None => true end.

(* The registrations of a history, numbered 0, 1, 2, ... in the order they
   were made (the number is the rule id handed back), each with the events
   that follow it. *)
Fixpoint registrations (h : list event) (n : nat) : list (nat * rule * cbk * list event) :=
  match h with
  | [] => []
  | EAdd r k :: h' =>
      if registrable r then (n, r, k, h') :: registrations h' (S n) else registrations h' n
  | _ :: h' => registrations h' n
  end.

(* rule i is removed by one of the events *)
Definition removed_in (i : nat) (later : list event) : bool :=
  existsb (fun e => match e with EDel j => Nat.eqb i j | _ => false end) later.

(* the rules registered, and not removed since, at the end of the history *)
Definition live (h : list event) : list (nat * rule * cbk) :=
  flat_map (fun x => match x with (i, r, k, later) => if removed_in i later then [] else [(i, r, k)] end)
           (registrations h 0).

(* what a signal arriving after the history must reach: one call per
   registered rule it satisfies - (rule id, callback) *)
Definition expected (h : list event) (m : msg) : list (nat * N) :=
  flat_map (fun x => match x with (i, r, k) => if matches r m then [(i, cb_tag k)] else [] end) (live h).

(* callbacks that only observe (and may raise): they do not call back into
   the router *)
Definition passive_history (h : list event) : Prop :=
  forall r k, In (EAdd r k) h -> cb_acts k = [].

(* ---- the proxy's signal subscription ----------------------------------------- *)

(* a declared or received signature; absent and empty both mean "no arguments" *)
Definition sig_norm (s : option str) : str := match s with Some x => x | None => [] end.

(* the arguments are passed on only when the signal's signature is the declared one *)
Definition gate (declared : option str) (m : msg) : option (list arg) :=
  if str_eqb (sig_norm declared) (sig_norm (m_signature m)) then Some (arguments m) else None.
