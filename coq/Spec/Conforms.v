(* "A list of Python values conforming to a signature" (property C01), as a
   relation between a DBus type, a Python value and the wire value it denotes:

   - integer types: an int (or bool, or an int subclass such as the wrapper
     classes) within the type's range;
   - BOOLEAN: a bool, or the integers 0 / 1;
   - DOUBLE: a float;  STRING: a str, valid UTF-8 without NUL;
     OBJECT_PATH: a str passing the object-path grammar;  SIGNATURE: an ASCII
     str of at most 255 characters;
   - ARRAY: a list, tuple or bytearray of conforming elements, or a dict whose
     items conform to the dict-entry type;
   - STRUCT / DICT_ENTRY: a list, tuple or object declaring its field order,
     with exactly one conforming value per field;
   - VARIANT: a value whose inferred signature is a single complete type it
     conforms to.
   UNIX_FD values are tied to out-of-band state and are treated in C20. *)
From Tx Require Import Lib.Base Model.PyVal Model.Validators Model.Marshal Spec.WireSpec.
Local Open Scope N_scope.

Definition is_int_ty (t : ty) : bool :=
  match t with
  | TByte | TInt16 | TUInt16 | TInt32 | TUInt32 | TInt64 | TUInt64 => true
  | _ => false
  end.

Fixpoint conf (t : ty) (v : pyval) (w : wval) {struct w} : Prop :=
  match t, w with
  | (TByte | TInt16 | TUInt16 | TInt32 | TUInt32 | TInt64 | TUInt64), WInt z =>
      as_int v = Ok z /\ int_range t z = true
  | TBool, WBool b =>
      unwrap v = PBool b \/ unwrap v = PInt (if b then 1 else 0)%Z
  | TDouble, WDouble bits => unwrap v = PFloat bits /\ bits < 2 ^ 64
  | TString, WStr s =>
      str_of v = Some s /\ existsb (N.eqb 0) s = false /\ utf8_valid s = true
  | TObjPath, WStr s =>
      str_of v = Some s /\ existsb (N.eqb 0) s = false /\ utf8_valid s = true /\ validate_path s = true
  | TSig, WStr s =>
      str_of v = Some s /\ is_ascii s = true /\ (length s <= 255)%nat
  | TArray et, WArray l =>
      exists items, array_items v = Ok items /\
        (fix all2 (items : list pyval) (l : list wval) {struct l} : Prop :=
           match items, l with
           | [], [] => True
           | x :: items', y :: l' => conf et x y /\ all2 items' l'
           | _, _ => False
           end) items l
  | TStruct ts, WStruct l =>
      exists items, seq_items v = Ok items /\
        (fix all3 (ts : list ty) (items : list pyval) (l : list wval) {struct l} : Prop :=
           match ts, items, l with
           | [], [], [] => True
           | t :: ts', x :: items', y :: l' => conf t x y /\ all3 ts' items' l'
           | _, _, _ => False
           end) ts items l
  | TDictEntry kt vt, WStruct [k; x] =>
      exists pk pv, seq_items v = Ok [pk; pv] /\ conf kt pk k /\ conf vt pv x
  | TVariant, WVariant vt x =>
      sig_from_py v = Ok (show vt) /\ (length (show vt) <= 255)%nat /\ conf vt v x
  | _, _ => False
  end.

Fixpoint conf_seq (ts : list ty) (vs : list pyval) (ws : list wval) : Prop :=
  match ts, vs, ws with
  | [], [], [] => True
  | t :: ts', v :: vs', w :: ws' => conf t v w /\ conf_seq ts' vs' ws'
  | _, _, _ => False
  end.

(* nesting depth of a wire value: the fuel the model needs *)
Fixpoint wdepth (w : wval) : nat :=
  match w with
  | WArray l | WStruct l => S (fold_right (fun x n => Nat.max (wdepth x) n) 0%nat l)
  | WVariant _ v => S (wdepth v)
  | _ => 1%nat
  end.

Definition wdepth_list (l : list wval) : nat :=
  fold_right (fun x n => Nat.max (wdepth x) n) 0%nat l.
