(* Well-typed wire values: which (type, value) pairs are spec-conformant
   encodable data, independently of any Python value.  This is the domain of
   "any spec-conformant encoding produced by another implementation" (C02). *)
From Tx Require Import Lib.Base Model.PyVal Model.Marshal Spec.WireSpec Spec.Readback.
Local Open Scope N_scope.

(* pairwise distinct dict keys under Python equality of the decoded keys *)
Fixpoint keys_distinct (ks : list pyval) : Prop :=
  match ks with
  | [] => True
  | k :: r => Forall (fun k' => py_eqb_key k' k = Some false) r /\ keys_distinct r
  end.

Definition entry_key (fds : list pyval) (et : ty) (e : wval) : pyval :=
  match et, e with
  | TDictEntry kt _, WStruct (k :: _) => readback fds kt k
  | _, _ => PNone
  end.

(* dict keys: a basic type (UNIX_FD excluded: its read-back is an arbitrary
   descriptor object whose hashability is outside the wire format) *)
Definition key_ty (t : ty) : bool :=
  match t with TFd => false | _ => basic t end.

Section Typed.
  Variable fds : list pyval.

  Fixpoint wt (t : ty) (w : wval) {struct w} : Prop :=
    match t, w with
    | (TByte | TInt16 | TUInt16 | TInt32 | TUInt32 | TInt64 | TUInt64 | TFd), WInt z =>
        int_range t z = true
    | TBool, WBool _ => True
    | TDouble, WDouble bits => bits < 2 ^ 64
    | (TString | TObjPath), WStr s => utf8_valid s = true
    | TSig, WStr s => is_ascii s = true /\ (length s <= 255)%nat
    | TArray et, WArray l =>
        (fix all (l : list wval) : Prop :=
           match l with [] => True | x :: r => wt et x /\ all r end) l
        /\ (match et with
            | TDictEntry _ _ => keys_distinct (map (entry_key fds et) l)
            | _ => True
            end)
    | TStruct ts, WStruct l =>
        ts <> [] /\
        (fix all2 (ts : list ty) (l : list wval) {struct l} : Prop :=
           match ts, l with
           | [], [] => True
           | t :: ts', x :: r => wt t x /\ all2 ts' r
           | _, _ => False
           end) ts l
    | TDictEntry kt vt, WStruct [k; x] => key_ty kt = true /\ wt kt k /\ wt vt x
    | TVariant, WVariant vt x => (length (show vt) <= 255)%nat /\ wt vt x
    | _, _ => False
    end.

  Fixpoint wt_seq (ts : list ty) (ws : list wval) : Prop :=
    match ts, ws with
    | [], [] => True
    | t :: ts', w :: ws' => wt t w /\ wt_seq ts' ws'
    | _, _ => False
    end.
End Typed.
