(* Specification of DBus stream framing, written from the DBus specification and
   the text of property C04 - on the WHOLE byte stream of a connection, with no
   notion of reads, buffers or cached lengths.

   A connection's incoming stream is
     [server side only: one NUL byte]
     authentication lines, each terminated by "\r\n", handed one by one to the
       authenticator until it reports success;
     from the byte after that line's terminator on: DBus messages back to back.
       A message starts with a 16-byte fixed part: byte 0 is the byte order
       ('l' little endian, otherwise big endian), bytes 4..7 the body length,
       bytes 12..15 the length of the header-field array; the header (16 bytes +
       field array) is padded with zeros to a multiple of 8, the body follows.
       So its total length is  round8 (16 + fields) + body.

   [sem client a stream] = (events, residual): the events the receiver must
   produce for that stream, and the bytes left over that do not yet form a
   complete line / message (None when the receiver closed the connection).
   Types [event] and [ares] are shared with Model/Framing.v (vocabulary only). *)
From Tx Require Import Lib.Base Model.Framing.
Local Open Scope N_scope.

Definition size (s : bytes) : N := N.of_nat (length s).

(* unsigned 32-bit integer at byte offset [off] *)
Definition u32_at (le : bool) (s : bytes) (off : nat) : N :=
  let b i := nth (off + i) s 0 in
  if le then b 0%nat + 256 * (b 1%nat + 256 * (b 2%nat + 256 * b 3%nat))
  else b 3%nat + 256 * (b 2%nat + 256 * (b 1%nat + 256 * b 0%nat)).

Definition round8 (n : N) : N := (n + 7) / 8 * 8.

Definition little (s : bytes) : bool :=
  match s with x :: _ => x =? 108 | [] => false end.       (* 'l' *)

(* total length of the message that starts at the front of [s] (needs the
   first 16 bytes of [s]) *)
Definition frame_total (s : bytes) : N :=
  round8 (16 + u32_at (little s) s 12) + u32_at (little s) s 4.

(* cut the stream into messages.  [take_N s n] (Model/Framing.v, a list helper)
   is Some (first n bytes, rest) when s has at least n bytes, else None. *)
Fixpoint frames (fuel : nat) (s : bytes) : list event * option bytes :=
  match fuel with
  | O => ([], Some s)
  | S f =>
      match take_N s 16 with
      | None => ([], Some s)                        (* fixed part incomplete *)
      | Some _ =>
          match take_N s (frame_total s) with
          | None => ([], Some s)                    (* message incomplete *)
          | Some (m, rest) =>
              let '(evs, r) := frames f rest in (Msg m :: evs, r)
          end
      end
  end.

(* a message has at least 16 bytes, so length s + 1 rounds always suffice *)
Definition frames_of (s : bytes) : list event * option bytes := frames (S (length s)) s.

(* the first "\r\n" of s: (bytes before it, bytes after it) *)
Fixpoint cut_line (s : bytes) : option (bytes * bytes) :=
  match s with
  | [] => None
  | x :: t =>
      match t with
      | y :: r =>
          if (x =? 13) && (y =? 10) then Some ([], r)
          else match cut_line t with
               | Some (l, r') => Some (x :: l, r')
               | None => None
               end
      | [] => None
      end
  end.

Section Spec.
  Context {A : Type}.
  Variable astep : A -> bytes -> A * ares.
  Variable maxl : N.          (* longest authentication line accepted *)

  (* Authentication phase.  A complete line longer than [maxl] closes the
     connection; so does an unterminated remainder that can no longer become an
     acceptable line (longer than [maxl] plus a pending '\r').  A line on which
     the authenticator fails closes the connection; nothing after it counts. *)
  Fixpoint handshake (fuel : nat) (a : A) (s : bytes) : list event * option bytes :=
    match fuel with
    | O => ([], Some s)
    | S f =>
        match cut_line s with
        | None => if maxl + 1 <? size s then ([Close], None) else ([], Some s)
        | Some (l, r) =>
            if maxl <? size l then ([Close], None)
            else
              match astep a l with
              | (a', AContinue) => let '(evs, x) := handshake f a' r in (Line l :: evs, x)
              | (_, ADone) => let '(evs, x) := frames_of r in (Line l :: AuthOk :: evs, x)
              | (_, AFail) => ([Line l; Close], None)
              | (_, ACrash) => ([Line l; Crash], None)
              end
        end
    end.

  Definition handshake_of (a : A) (s : bytes) := handshake (S (length s)) a s.

  Definition sem (client : bool) (a : A) (s : bytes) : list event * option bytes :=
    if client then handshake_of a s
    else match s with
         | [] => ([], Some [])
         | b0 :: r => if b0 =? 0 then handshake_of a r else ([Close], None)
         end.

  (* --- vocabulary of the theorems ---------------------------------------- *)

  (* the authenticator accepts exactly at the last of these lines *)
  Fixpoint auth_accepts (a : A) (lines : list bytes) : bool :=
    match lines with
    | [] => false
    | l :: rest =>
        match astep a l, rest with
        | (_, ADone), [] => true
        | (a', AContinue), _ :: _ => auth_accepts a' rest
        | _, _ => false
        end
    end.

  (* a line as the peer sends it: no "\r\n" inside, not over-long *)
  Definition good_line (l : bytes) : Prop := cut_line l = None /\ size l <= maxl.

  (* the bytes of a complete handshake *)
  Definition hs_bytes (client : bool) (lines : list bytes) : bytes :=
    (if client then [] else [0]) ++ concat (map (fun l => l ++ [13; 10]) lines).
End Spec.

(* the reactor never delivers an empty read; all that is needed of that here:
   the very first read of a connection is not empty *)
Definition first_read_nonempty (chunks : list bytes) : Prop :=
  match chunks with [] => True | c :: _ => c <> [] end.

(* a well-framed message: its own first 16 bytes announce exactly its length
   (C03 shows this of every message txdbus constructs and of every encoding
   of a message per the DBus specification, either byte order) *)
Definition wellframed (m : bytes) : Prop := 16 <= size m /\ frame_total m = size m.
