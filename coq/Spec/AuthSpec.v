(* The SERVER side of the DBus authentication protocol, transcribed from the
   DBus specification ("Authentication Protocol": protocol overview, commands,
   "Authentication state diagrams / Server states"), plus the four closing
   rules of property C06.  Written from the specification text, not from
   txdbus.  Only the text primitives and the [verdict] vocabulary of
   Model/AuthText.v are shared with the model.

   Commands (client -> server):  AUTH [mechanism] [initial-response]
                                 CANCEL | BEGIN | DATA <data in hex encoding>
                                 ERROR [human-readable text] | NEGOTIATE_UNIX_FD
   Replies (server -> client):   REJECTED <space-separated mechanism names>
                                 OK <GUID in hex> | DATA <data in hex> | ERROR [text]
                                 AGREE_UNIX_FD

   Server states:
     WaitingForAuth
       AUTH (no mechanism)            -> REJECTED, stay
       AUTH MECH RESP, MECH unknown   -> REJECTED, stay
       AUTH MECH RESP: MECH(RESP) = CONTINUE(CHALL) -> DATA CHALL, WaitingForData
                                  = OK              -> OK guid,    WaitingForBegin
                                  = REJECTED        -> REJECTED,   WaitingForAuth
       BEGIN                          -> terminate the conversation, disconnect
       ERROR                          -> REJECTED, stay
       anything else                  -> ERROR, stay
     WaitingForData
       DATA RESP: as AUTH MECH RESP above with the mechanism in progress
       BEGIN                          -> disconnect
       CANCEL | ERROR                 -> REJECTED, WaitingForAuth
       anything else                  -> ERROR, stay
     WaitingForBegin
       BEGIN                          -> the client is authenticated
       NEGOTIATE_UNIX_FD              -> AGREE_UNIX_FD or ERROR, stay
       CANCEL | ERROR                 -> REJECTED, WaitingForAuth
       anything else                  -> ERROR, stay
   "ERROR ... the server or client did not know a command, does not accept the
   given command in the current context, or did not understand the arguments to
   the command": an argument that is not hex is answered ERROR, state unchanged.

   C06 adds: disconnect on a first byte other than NUL, on a line longer than
   16384 bytes (also while it is still being received, see spec_stream), and
   instead of the sixth REJECTED ("after more than five
   rejections").  Nothing is read after disconnecting; after BEGIN the bytes
   are messages. *)
From Tx Require Import Lib.Base Model.AuthText.
Local Open Scope N_scope.

Inductive command :=
| CAuth (mech : option bytes) (resp : option bytes)   (* resp: the hex text as sent *)
| CCancel
| CBegin
| CData (resp : bytes)
| CError
| CNegotiateUnixFd
| CUnknown.

(* The command name is the text up to the first space; AUTH's arguments are
   separated by white space, DATA's argument may be surrounded by it. *)
Definition parse_command (line : bytes) : command :=
  let (name, rest) := cut_space line in
  let args := match rest with Some r => r | None => [] end in
  if str_eqb name w_AUTH then
    match split_ws args with
    | [] => CAuth None None
    | [m] => CAuth (Some m) None
    | m :: r :: _ => CAuth (Some m) (Some r)
    end
  else if str_eqb name w_CANCEL then CCancel
  else if str_eqb name w_BEGIN then CBegin
  else if str_eqb name w_DATA then CData args
  else if str_eqb name w_ERROR then CError
  else if str_eqb name w_NEGOTIATE_UNIX_FD then CNegotiateUnixFd
  else CUnknown.

Inductive reply :=
| RRejected (mechs : bytes)     (* the space-separated list as sent *)
| ROk (guid : bytes)
| RData (hex : bytes)
| RError                        (* the explanatory text is free *)
| RAgreeUnixFd
| ROther (line : bytes).        (* not a reply of the protocol *)

(* reading a line the server wrote *)
Definition parse_reply (line : bytes) : reply :=
  let (name, rest) := cut_space line in
  let args := match rest with Some r => r | None => [] end in
  if str_eqb name w_REJECTED then RRejected args
  else if str_eqb name w_OK then ROk args
  else if str_eqb name w_DATA then RData args
  else if str_eqb name w_ERROR then RError
  else if str_eqb name w_AGREE_UNIX_FD then RAgreeUnixFd
  else ROther line.

Inductive sstate :=
| SWaitingForAuth
| SWaitingForData
| SWaitingForBegin
| SAuthenticated
| SDisconnected.

(* what an observer sees; SMech is the consultation MECH(RESP) = v *)
Inductive sevent :=
| SReply (r : reply)
| SMech (name : bytes) (v : verdict)
| SDisconnect
| SAuthenticatedNow
| SFault.                        (* never produced by the specification *)

Record sconf := {
  s_state : sstate;
  s_mech : option bytes;         (* the mechanism in progress *)
  s_rejections : nat;            (* REJECTED sent so far *)
  s_script : list verdict        (* what the mechanisms will answer, in order *)
}.

Section Server.
  Variable mechs : list bytes.         (* the mechanisms the server offers *)
  Variable guid : bytes.
  Variable unix_fd : bool.             (* whether the server agrees to pass descriptors *)
  Variable max_rejections : nat.       (* C06: five *)
  Variable max_line : N.               (* C06: 16384 *)

  Definition offered (m : bytes) : bool := existsb (str_eqb m) mechs.

  Definition goto (c : sconf) (s : sstate) (m : option bytes) : sconf :=
    {| s_state := s; s_mech := m; s_rejections := s_rejections c; s_script := s_script c |}.

  Definition disconnect (c : sconf) : sconf * list sevent :=
    (goto c SDisconnected None, [SDisconnect]).

  Definition send_error (c : sconf) : sconf * list sevent := (c, [SReply RError]).

  (* REJECTED and back to WaitingForAuth; the sixth time, disconnect instead *)
  Definition rejected (c : sconf) : sconf * list sevent :=
    if Nat.leb max_rejections (s_rejections c) then disconnect c
    else ({| s_state := SWaitingForAuth; s_mech := None; s_rejections := S (s_rejections c);
             s_script := s_script c |},
          [SReply (RRejected (join_with 32 mechs))]).

  (* MECH(RESP): the next verdict of the script (none left: rejected) *)
  Definition consult (c : sconf) (m : bytes) : sconf * list sevent :=
    let (v, rest) := match s_script c with v :: r => (v, r) | [] => (VReject, []) end in
    let c' := {| s_state := s_state c; s_mech := Some m; s_rejections := s_rejections c;
                 s_script := rest |} in
    match v with
    | VOk => (goto c' SWaitingForBegin (Some m), [SMech m v; SReply (ROk guid)])
    | VContinue _ chal => (goto c' SWaitingForData (Some m), [SMech m v; SReply (RData (hexlify chal))])
    | VReject => let (c2, evs) := rejected c' in (c2, SMech m v :: evs)
    end.

  (* the response must be hex *)
  Definition understood (resp : bytes) : bool :=
    match unhex (strip_ws resp) with Some _ => true | None => false end.

  Definition server_step (c : sconf) (cmd : command) : sconf * list sevent :=
    match s_state c with
    | SWaitingForAuth =>
        match cmd with
        | CAuth None _ => rejected c
        | CAuth (Some m) resp =>
            if offered m then
              match resp with
              | None => consult c m
              | Some r => if understood r then consult c m else send_error c
              end
            else rejected c
        | CBegin => disconnect c
        | CError => rejected c
        | _ => send_error c
        end
    | SWaitingForData =>
        match cmd with
        | CData r =>
            match s_mech c with
            | Some m => if understood r then consult c m else send_error c
            | None => rejected c            (* no mechanism in progress: not reachable *)
            end
        | CBegin => disconnect c
        | CCancel | CError => rejected c
        | _ => send_error c
        end
    | SWaitingForBegin =>
        match cmd with
        | CBegin => (goto c SAuthenticated None, [SAuthenticatedNow])
        | CNegotiateUnixFd => if unix_fd then (c, [SReply RAgreeUnixFd]) else send_error c
        | CCancel | CError => rejected c
        | _ => send_error c
        end
    | SAuthenticated | SDisconnected => (c, [])
    end.

  (* one line as received (without its \r\n) *)
  Definition server_line (c : sconf) (line : bytes) : sconf * list sevent :=
    match s_state c with
    | SAuthenticated | SDisconnected => (c, [])
    | _ =>
        if max_line <? N.of_nat (length line) then disconnect c
        else server_step c (parse_command line)
    end.

  Fixpoint server_lines (c : sconf) (lines : list bytes) : sconf * list sevent :=
    match lines with
    | [] => (c, [])
    | l :: r =>
        let (c1, e1) := server_line c l in
        let (c2, e2) := server_lines c1 r in
        (c2, e1 ++ e2)
    end.

  Definition server_init (sc : list verdict) : sconf :=
    {| s_state := SWaitingForAuth; s_mech := None; s_rejections := 0; s_script := sc |}.

  Definition spec_lines (sc : list verdict) (lines : list bytes) : list sevent :=
    snd (server_lines (server_init sc) lines).

  (* The whole byte stream of a connection: a NUL byte, then lines ended by
     \r\n.  What follows the last \r\n is a line still being received.  It can
     become an acceptable line only by growing and then being ended by \r\n, so
     once it holds more than max_line + 1 bytes it is lost: at most its last byte
     can be the \r of the delimiter, which leaves a line of more than max_line
     bytes.  With exactly max_line + 1 bytes it may still be a line of max_line
     bytes followed by the \r of its delimiter, and must be waited for.  So the
     server disconnects on an unfinished remainder longer than max_line + 1 (it
     may do so as early as that, or wait for the end of the line: no reply is
     due in between, the observable behaviour is the same). *)
  Definition spec_stream (sc : list verdict) (stream : bytes) : list sevent :=
    match stream with
    | [] => []
    | b :: rest =>
        if b =? 0 then
          let fields := split_crlf rest in
          let (c, evs) := server_lines (server_init sc) (removelast fields) in
          match s_state c with
          | SAuthenticated | SDisconnected => evs
          | _ => if max_line + 1 <? N.of_nat (length (last fields [])) then evs ++ [SDisconnect] else evs
          end
        else [SDisconnect]
    end.
End Server.

(* ---------------------------------------------------------------------------
   The CLIENT of the specification ("Client states"), used to state that a
   conforming client with acceptable credentials gets in.

     start: send AUTH MECH [initial response]; WaitingForData if the mechanism
            expects a challenge, WaitingForOK if it is done
     WaitingForData:  DATA CHALL -> MECH(CHALL) = CONTINUE(RESP): DATA RESP, stay
                                               = OK(RESP): DATA RESP, WaitingForOK
                                               = ERROR: ERROR, stay
                      REJECTED -> next mechanism (or give up);  ERROR -> CANCEL, WaitingForReject
                      OK -> BEGIN, authenticated;  anything else -> ERROR, stay
     WaitingForOK:    OK -> BEGIN, authenticated;  REJECTED -> next mechanism
                      DATA | ERROR -> CANCEL, WaitingForReject;  anything else -> ERROR, stay
     WaitingForReject: REJECTED -> next mechanism;  anything else -> give up      *)

Inductive canswer :=
| CContinue (resp : bytes)
| CDone (resp : bytes)
| CFail.

Record cmech := {
  cm_name : bytes;
  cm_initial : option bytes;            (* initial response, not yet hex-encoded *)
  cm_expects_challenge : bool;          (* after AUTH: WaitingForData rather than WaitingForOK *)
  cm_respond : bytes -> canswer         (* MECH(CHALL), challenge already decoded *)
}.

Inductive cstate :=
| CWaitingForData
| CWaitingForOK
| CWaitingForReject
| CAuthenticated
| CGaveUp.

Record cconf := {
  k_state : cstate;
  k_mech : option cmech;
  k_todo : list cmech
}.

Definition auth_line (m : cmech) : bytes :=
  match cm_initial m with
  | None => sp w_AUTH (cm_name m)
  | Some r => sp w_AUTH (sp (cm_name m) (hexlify r))
  end.

(* try the next mechanism: the line to send and the new configuration *)
Definition client_next (todo : list cmech) : cconf * list bytes :=
  match todo with
  | [] => ({| k_state := CGaveUp; k_mech := None; k_todo := [] |}, [])
  | m :: r =>
      ({| k_state := if cm_expects_challenge m then CWaitingForData else CWaitingForOK;
          k_mech := Some m; k_todo := r |}, [auth_line m])
  end.

Definition client_start (ms : list cmech) : cconf * list bytes := client_next ms.

Definition client_step (k : cconf) (r : reply) : cconf * list bytes :=
  let stay (l : bytes) := (k, [l]) in
  let goto s l := ({| k_state := s; k_mech := k_mech k; k_todo := k_todo k |}, [l]) in
  match k_state k with
  | CWaitingForData =>
      match r with
      | RData hex =>
          match k_mech k, unhex hex with
          | Some m, Some chal =>
              match cm_respond m chal with
              | CContinue resp => stay (sp w_DATA (hexlify resp))
              | CDone resp => goto CWaitingForOK (match resp with [] => w_DATA | _ => sp w_DATA (hexlify resp) end)
              | CFail => stay w_ERROR
              end
          | _, _ => stay w_ERROR
          end
      | RRejected _ => client_next (k_todo k)
      | RError => goto CWaitingForReject w_CANCEL
      | ROk _ => goto CAuthenticated w_BEGIN
      | _ => stay w_ERROR
      end
  | CWaitingForOK =>
      match r with
      | ROk _ => goto CAuthenticated w_BEGIN
      | RRejected _ => client_next (k_todo k)
      | RData _ | RError => goto CWaitingForReject w_CANCEL
      | _ => stay w_ERROR
      end
  | CWaitingForReject =>
      match r with
      | RRejected _ => client_next (k_todo k)
      | _ => ({| k_state := CGaveUp; k_mech := None; k_todo := [] |}, [])
      end
  | CAuthenticated | CGaveUp => (k, [])
  end.

(* Closed loop of the specification's client with some server given by its
   step function on lines: [server s line = (s', lines written, finished)]
   where finished is Some true when the server treats the peer as
   authenticated and Some false when it closed the connection.  The client
   sends one line, reads the replies, answers each.  Result: did the server
   authenticate the peer while the client believes it is authenticated. *)
Section Loop.
  Context {Srv : Type}.
  Variable server : Srv -> bytes -> Srv * list bytes * option bool.

  Fixpoint client_reads (k : cconf) (replies : list bytes) : cconf * list bytes :=
    match replies with
    | [] => (k, [])
    | l :: r =>
        let (k1, o1) := client_step k (parse_reply l) in
        let (k2, o2) := client_reads k1 r in
        (k2, o1 ++ o2)
    end.

  Fixpoint loop (fuel : nat) (s : Srv) (k : cconf) (pending : list bytes) : bool :=
    match fuel with
    | O => false
    | S f =>
        match pending with
        | [] => false
        | l :: rest =>
            let '(s1, replies, fin) := server s l in
            match fin with
            | Some true => match k_state k with CAuthenticated => true | _ => false end
            | Some false => false
            | None =>
                let (k1, more) := client_reads k replies in
                loop f s1 k1 (rest ++ more)
            end
        end
    end.

  Definition accepted (fuel : nat) (s : Srv) (ms : list cmech) : bool :=
    let (k, first) := client_start ms in loop fuel s k first.
End Loop.

(* The client halves of the three mechanisms ("EXTERNAL": the identity is
   established out of band, the client answers the server's empty challenge with
   empty data; "ANONYMOUS": nothing to prove, an optional trace string;
   "DBUS_COOKIE_SHA1": send the user name, on the challenge "context id
   server-challenge" answer "client-challenge hash" where hash is the hex SHA-1
   of server-challenge:client-challenge:cookie). *)
Definition external_client : cmech :=
  {| cm_name := n_EXTERNAL; cm_initial := None; cm_expects_challenge := true;
     cm_respond := fun _ => CDone [] |}.

Definition anonymous_client (trace : option bytes) : cmech :=
  {| cm_name := n_ANONYMOUS; cm_initial := trace; cm_expects_challenge := false;
     cm_respond := fun _ => CFail |}.

Definition cookie_client (sha1hex : bytes -> bytes) (user client_challenge : bytes)
           (lookup : bytes -> bytes -> bytes) : cmech :=
  {| cm_name := n_DBUS_COOKIE_SHA1; cm_initial := Some user; cm_expects_challenge := true;
     cm_respond := fun ch =>
       match split_ws ch with
       | [ctx; id; sc] =>
           CDone (sp client_challenge
                     (sha1hex (sc ++ 58 :: client_challenge ++ 58 :: lookup ctx id)))
       | _ => CFail
       end |}.
