(* Specification for C15, written from the property text and the DBus
   specification's introspection format - not from the code.

   An interface definition is a name and a sequence of typed member
   declarations.  What a client can observe of an interface object is: its
   name; per method name the input and output signatures and the two
   argument counts; per signal name its signature and argument count; per
   property name its type signature and access mode.  (The change-
   notification mode of a property is not in the property's list and is not
   part of the observation.)

   [declared name ds o] says that the observation o shows exactly the
   definition (name, ds): signatures are the renderings of the declared type
   sequences, argument counts are the numbers of declared types, a later
   declaration of a member name replaces an earlier one, and nothing else is
   present.

   Cache rule: "interfaces already known locally are reused unless
   replacement is requested" - [reuse] decides, per interface block met in a
   document, between handing out the known object and building a new one
   (which then becomes the known one). *)
From Tx Require Import Lib.Base.
From Tx Require Import Spec.SigTy.
Local Open Scope N_scope.

Inductive access := ARead | AWrite | AReadWrite.
Inductive notify := NTrue | NFalse | NInvalidates.

Inductive tdecl :=
| TMethod (name : str) (ins outs : list ty)
| TSignal (name : str) (args : list ty)
| TProperty (name : str) (t : ty) (acc : access) (n : notify).

Definition access_name (a : access) : str :=
  match a with
  | ARead => [114; 101; 97; 100]                                  (* "read" *)
  | AWrite => [119; 114; 105; 116; 101]                           (* "write" *)
  | AReadWrite => [114; 101; 97; 100; 119; 114; 105; 116; 101]    (* "readwrite" *)
  end.

Record observed := mkObs {
  o_name : str;
  o_method : str -> option (str * str * Z * Z);     (* sigIn, sigOut, nargs, nret *)
  o_signal : str -> option (str * Z);               (* sig, nargs *)
  o_prop : str -> option (str * str) }.             (* type, access *)

(* the last declaration of a method / signal / property called n *)
Definition last_method (n : str) (ds : list tdecl) : option (list ty * list ty) :=
  fold_left (fun acc d => match d with
                          | TMethod m i o => if str_eqb m n then Some (i, o) else acc
                          | _ => acc end) ds None.

Definition last_signal (n : str) (ds : list tdecl) : option (list ty) :=
  fold_left (fun acc d => match d with
                          | TSignal m a => if str_eqb m n then Some a else acc
                          | _ => acc end) ds None.

Definition last_property (n : str) (ds : list tdecl) : option (ty * access) :=
  fold_left (fun acc d => match d with
                          | TProperty m t a _ => if str_eqb m n then Some (t, a) else acc
                          | _ => acc end) ds None.

Definition count (ts : list ty) : Z := Z.of_nat (length ts).

Definition declared (name : str) (ds : list tdecl) (o : observed) : Prop :=
  o_name o = name /\
  (forall n, o_method o n =
             option_map (fun io => (show_list (fst io), show_list (snd io), count (fst io), count (snd io)))
                        (last_method n ds)) /\
  (forall n, o_signal o n = option_map (fun a => (show_list a, count a)) (last_signal n ds)) /\
  (forall n, o_prop o n = option_map (fun ta => (show (fst ta), access_name (snd ta))) (last_property n ds)).

(* two observations show the same interface *)
Definition same_interface (a b : observed) : Prop :=
  o_name a = o_name b /\
  (forall n, o_method a n = o_method b n) /\
  (forall n, o_signal a n = o_signal b n) /\
  (forall n, o_prop a n = o_prop b n).

(* the cache rule: Some id = hand out the known object id *)
Definition reuse (replace : bool) (known : list (str * nat)) (name : str) : option nat :=
  if replace then None else alist_get str_eqb name known.
