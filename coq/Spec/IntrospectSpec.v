(* Specification for C15, written from the property text and the DBus
   specification's introspection format - not from the code.

   An interface definition is a name and a sequence of typed member
   declarations.  What a client can observe of an interface object is: its
   name; per method name the input and output signatures and the two
   argument counts; per signal name its signature and argument count; per
   property name its type signature and access mode.  (The change-
   notification mode of a property is not in the property's list and is not
   part of the observation.)

   [declared name ds o] says that the observation o shows exactly the
   definition (name, ds): signatures are the renderings of the declared type
   sequences, argument counts are the numbers of declared types, a later
   declaration of a member name replaces an earlier one, and nothing else is
   present.

   Cache rule: "interfaces already known locally are reused unless
   replacement is requested" - [reuse] decides, per interface block met in a
   document, between handing out the known object and building a new one
   (which then becomes the known one). *)
From Tx Require Import Lib.Base.
From Tx Require Import Spec.SigTy.
Local Open Scope N_scope.

Inductive access := ARead | AWrite | AReadWrite.
Inductive notify := NTrue | NFalse | NInvalidates.

Inductive tdecl :=
| TMethod (name : str) (ins outs : list ty)
| TSignal (name : str) (args : list ty)
| TProperty (name : str) (t : ty) (acc : access) (n : notify).

Definition access_name (a : access) : str :=
  match a with
  | ARead => [114; 101; 97; 100]                                  (* "read" *)
  | AWrite => [119; 114; 105; 116; 101]                           (* "write" *)
  | AReadWrite => [114; 101; 97; 100; 119; 114; 105; 116; 101]    (* "readwrite" *)
  end.

Record observed := mkObs {
  o_name : str;
  o_method : str -> option (str * str * Z * Z);     (* sigIn, sigOut, nargs, nret *)
  o_signal : str -> option (str * Z);               (* sig, nargs *)
  o_prop : str -> option (str * str) }.             (* type, access *)

(* the last declaration of a method / signal / property called n *)
Definition last_method (n : str) (ds : list tdecl) : option (list ty * list ty) :=
  fold_left (fun acc d => match d with
                          | TMethod m i o => if str_eqb m n then Some (i, o) else acc
                          | _ => acc end) ds None.

Definition last_signal (n : str) (ds : list tdecl) : option (list ty) :=
  fold_left (fun acc d => match d with
                          | TSignal m a => if str_eqb m n then Some a else acc
                          | _ => acc end) ds None.

Definition last_property (n : str) (ds : list tdecl) : option (ty * access) :=
  fold_left (fun acc d => match d with
                          | TProperty m t a _ => if str_eqb m n then Some (t, a) else acc
                          | _ => acc end) ds None.

Definition count (ts : list ty) : Z := Z.of_nat (length ts).

Definition declared (name : str) (ds : list tdecl) (o : observed) : Prop :=
  o_name o = name /\
  (forall n, o_method o n =
             option_map (fun io => (show_list (fst io), show_list (snd io), count (fst io), count (snd io)))
                        (last_method n ds)) /\
  (forall n, o_signal o n = option_map (fun a => (show_list a, count a)) (last_signal n ds)) /\
  (forall n, o_prop o n = option_map (fun ta => (show (fst ta), access_name (snd ta))) (last_property n ds)).

(* two observations show the same interface *)
Definition same_interface (a b : observed) : Prop :=
  o_name a = o_name b /\
  (forall n, o_method a n = o_method b n) /\
  (forall n, o_signal a n = o_signal b n) /\
  (forall n, o_prop a n = o_prop b n).

(* the cache rule: Some id = hand out the known object id *)
Definition reuse (replace : bool) (known : list (str * nat)) (name : str) : option nat :=
  if replace then None else alist_get str_eqb name known.

(* --- histories: the interface as currently declared ------------------------------

   An exporter may keep changing an interface object after it has been made:
   declare a further member (or declare an existing member name again, with
   another definition), delete a member, and ask for the XML at any moment in
   between.  [in_force h] is the definition in force after the history h: the
   declarations made so far, in order, without those whose member has been
   deleted since.  Deleting a member that is not there changes nothing (the
   call fails).  Asking for the XML changes nothing. *)
Inductive mkind := IsMethod | IsSignal | IsProperty.

Inductive hop :=
| HAdd (d : tdecl)               (* declare a member *)
| HDel (k : mkind) (n : str)     (* delete the method / signal / property called n *)
| HGetXml.                       (* ask for the interface's XML *)

(* d declares the k called n *)
Definition declares (k : mkind) (n : str) (d : tdecl) : bool :=
  match k, d with
  | IsMethod, TMethod m _ _ => str_eqb m n
  | IsSignal, TSignal m _ => str_eqb m n
  | IsProperty, TProperty m _ _ _ => str_eqb m n
  | _, _ => false
  end.

Definition in_force_step (ds : list tdecl) (o : hop) : list tdecl :=
  match o with
  | HAdd d => ds ++ [d]
  | HDel k n => filter (fun d => negb (declares k n d)) ds
  | HGetXml => ds
  end.

Definition in_force (h : list hop) : list tdecl := fold_left in_force_step h [].
