(* C15 - Introspection XML round-trips every interface definition.
   Statements only; proofs are in Proofs/SigSplitProofs.v,
   Proofs/IntrospectProofs.v and Proofs/IfaceCacheProofs.v.

   Vocabulary (definitions in Model/Introspect.v, Model/SigSplit.v,
   Spec/SigTy.v, Spec/IntrospectSpec.v, Proofs/IntrospectProofs.v):
     gen_complete_types   marshal.genCompleteTypes, fully consumed
     new_iface name ds    DBusInterface(name, *ds)  (addMethod/addSignal counting)
     gen_doc path exp     generateIntrospectionXML(path, exp) as element events
     parse r heap known   getInterfacesFromXML(xml, r) in a world where [heap] holds
                          all DBusInterface objects and [known] is knownInterfaces;
                          returns (result indices, heap afterwards, known afterwards)
     observe i            what a client sees of object i (Spec: name; per method
                          sigIn/sigOut/nargs/nret; per signal sig/nargs; per
                          property type/access)
     declared name ds o   Spec: observation o shows exactly the typed definition
     normalise i          i with its members in name order and each property's
                          notification mode as the bool the parser stores
     built i              i is an object the declaring API returned
     consistent i         the invariant of such objects (keys distinct and equal to the
                          member names, member classes right, argument counts equal to
                          what the splitter yields, access one of the three modes)
     std_ifaces           the three interfaces of introspection._intro
     fresh r known ifs    r = true, or the names of ifs are pairwise distinct and
                          none is in known
   Mutable interface objects (Model/IfaceCache.v, Spec/IntrospectSpec.v "histories"):
     cobj                 a DBusInterface object: its members (c_iface) and self._xml (c_xml)
     cop, cstep, crun     addMethod/addSignal/addProperty (any object), delMethod/delSignal/
                          delProperty, _getXml, as the code performs them; crun st ops = the
                          object after the calls ops and what each returned or raised
     gen_iface i          the XML (element events) _getXml generates from the members i
     coherent st          self._xml is None or equals gen_iface of the members as they are
     export_doc path st   generateIntrospectionXML for an object exporting this one
                          interface (reads .introspectionXml, i.e. goes through the cache)
     hop, in_force h      Spec: typed history (declare / delete / ask for XML) and the
                          definition in force after it
     cop_of               the call a step of a typed history makes
     first_parsed r       the first interface object of a parse result *)
From Tx Require Import Lib.Base.
From Tx Require Import Model.SigSplit.
From Tx Require Import Model.Introspect.
From Tx Require Import Model.IfaceCache.
From Tx Require Import Spec.SigTy.
From Tx Require Import Spec.IntrospectSpec.
From Tx Require Import Proofs.SigSplitProofs.
From Tx Require Import Proofs.IntrospectProofs.
From Tx Require Import Proofs.IfaceCacheProofs.

(* --- the signature splitter ------------------------------------------------- *)

(* Whatever string the splitter accepts, re-concatenating the <arg> types gives
   the signature back (no hypothesis on s: any list of code points). *)
Theorem C15_split_concat :
  forall s l, gen_complete_types s = Ok l -> concat l = s.
Proof. exact gen_complete_types_concat. Qed.

(* Every sequence of type trees - containers, nested structs, dict entries at any
   depth; in particular every valid signature - is accepted and split into
   exactly its single complete types, so the number of <arg> elements is the
   number of declared types. *)
Theorem C15_split_valid :
  forall ts : list ty, gen_complete_types (show_list ts) = Ok (map show ts).
Proof. exact gen_complete_types_show. Qed.

(* In the words of the DBus grammar (Spec/SigTy.v: wf, valid_sig): every valid
   signature is accepted, and the pieces concatenate back to it. *)
Theorem C15_split_grammar :
  forall s, valid_sig s -> exists l, gen_complete_types s = Ok l /\ concat l = s.
Proof. exact gen_complete_types_valid. Qed.

(* The fuel the model supplies is never exhausted. *)
Theorem C15_split_fuel :
  forall s, gen_complete_types s <> Err EFuel.
Proof. exact gen_complete_types_fuel. Qed.

(* --- round trip --------------------------------------------------------------- *)

(* For every list of typed interface definitions (any number of interfaces, any
   number of methods / signals / properties, any type trees, all access and
   notification modes, repeated member names allowed - the last one counts):
   the declaring API accepts each and builds an object showing exactly the
   definition; and for an object exporting them at any path among any other
   exported paths, in any world, the generated document parses - with
   replacement requested, or when the interface names are distinct and not
   known yet (the standard interfaces may or may not be known) - to objects
   that show exactly the same definitions, in the same order, followed by three
   objects for the standard interfaces. *)
Theorem C15_roundtrip :
  forall defs : list (str * list tdecl),
  exists ifs,
    Forall2 (fun def i => new_iface (fst def) (map decl_of (snd def)) = Ok i /\
                          declared (fst def) (snd def) (observe i)) defs ifs /\
    forall replace heap known path exported,
      alist_get str_eqb path exported = Some ifs ->
      (replace = true \/
       (NoDup (map fst defs) /\ forall n, In n (map fst defs) -> alist_get str_eqb n known = None)) ->
      exists evs out heap' known',
        gen_doc path exported = Ok (Some evs) /\
        parse replace heap known evs = Ok (out, heap', known') /\
        length out = (length defs + 3)%nat /\
        Forall2 (fun def id => exists r, nth_error heap' id = Some r /\
                                         declared (fst def) (snd def) (observe r))
                defs (firstn (length defs) out).
Proof. exact roundtrip. Qed.

(* Exact form, for objects built by the declaring API from arbitrary signature
   strings it accepts (not only grammar-valid ones): the parse result is the
   list of new objects heap[len..], they are precisely the normal forms of the
   exported objects followed by the standard interfaces, each is registered as
   the known interface of its name, and a normal form shows the same interface
   as the object it came from. *)
Theorem C15_roundtrip_exact :
  forall replace heap known path exported ifs,
    alist_get str_eqb path exported = Some ifs ->
    Forall built ifs ->
    fresh replace known (ifs ++ std_ifaces) ->
    exists evs, gen_doc path exported = Ok (Some evs) /\
      parse replace heap known evs
      = Ok (seq (length heap) (length ifs + 3),
            heap ++ map normalise ifs ++ std_ifaces,
            register_all (ifs ++ std_ifaces) (length heap) known) /\
      Forall (fun i => same_interface (observe (normalise i)) (observe i)) ifs.
Proof. exact roundtrip_built. Qed.

(* After a parse in which all names were new, each interface of the document is
   the known one under its name. *)
Theorem C15_registered :
  forall ifs base known k i,
    NoDup (map i_name ifs) -> nth_error ifs k = Some i ->
    alist_get str_eqb (i_name i) (register_all ifs base known) = Some (base + k)%nat.
Proof. exact register_all_get. Qed.

(* --- known interfaces ------------------------------------------------------------ *)

(* Every interface of the document already known and no replacement requested:
   exactly the known objects are returned, no object is created or modified and
   the cache is unchanged - the content of the document is ignored (the known
   objects need not resemble the exported ones). *)
Theorem C15_known_reused :
  forall heap known path exported ifs ids,
    alist_get str_eqb path exported = Some ifs ->
    Forall built ifs ->
    Forall2 (fun i id => alist_get str_eqb (i_name i) known = Some id) (ifs ++ std_ifaces) ids ->
    exists evs, gen_doc path exported = Ok (Some evs) /\
      parse false heap known evs = Ok (ids, heap, known).
Proof. exact known_reused_built. Qed.

(* Replacement requested: whatever is known, new objects with the parsed content
   are returned and registered. *)
Theorem C15_known_replaced :
  forall heap known path exported ifs,
    alist_get str_eqb path exported = Some ifs ->
    Forall built ifs ->
    exists evs, gen_doc path exported = Ok (Some evs) /\
      parse true heap known evs
      = Ok (seq (length heap) (length ifs + 3),
            heap ++ map normalise ifs ++ std_ifaces,
            register_all (ifs ++ std_ifaces) (length heap) known).
Proof. exact known_replaced_built. Qed.

(* The general rule behind the three theorems above, for any mixture of known
   and unknown names: the document is processed block by block with
   Spec.IntrospectSpec.reuse deciding between the known object and a new one. *)
Theorem C15_cache_rule :
  forall replace heap known path exported ifs,
    alist_get str_eqb path exported = Some ifs ->
    Forall consistent ifs ->
    exists evs, gen_doc path exported = Ok (Some evs) /\
      parse replace heap known evs
      = Ok (result_of (fold_left (expect_block replace) (ifs ++ std_ifaces) (heap, known, []))).
Proof. exact parse_doc. Qed.

(* --- interface objects that keep changing ------------------------------------------

   gen_doc above generates the XML from the members of the exported objects;
   the code goes through the per-object cache self._xml.  The two agree at
   every moment of every life of an object: *)

(* For every interface object that starts with an empty cache (as the
   constructor leaves it) and every history of addMethod / addSignal /
   addProperty (of any object, under a new or an existing name), delMethod /
   delSignal / delProperty (present or not) and _getXml calls, of any length:
   the cache is coherent afterwards, and a _getXml made then - whatever calls
   follow - answers exactly what would be generated from the members as they
   are at that moment (or raises what generating raises). *)
Theorem C15_cache_coherent :
  forall (i0 : iface) (pre post : list cop),
    let st := fst (crun (mkC i0 None) pre) in
    coherent st /\
    nth_error (snd (crun (mkC i0 None) (pre ++ OGetXml :: post))) (length pre)
    = Some (obs_of (gen_iface (c_iface st))).
Proof. exact cache_coherent. Qed.

(* Hence the round trip holds after any typed history: for every name and every
   sequence of member declarations (names may repeat: re-declaration), member
   deletions and requests for the XML, the object then shows exactly the
   definition in force, and the document generated for an object exporting it
   (at any path, in any world; replacement requested or the name not known)
   parses to an object showing exactly the definition in force - not an
   earlier one. *)
Theorem C15_roundtrip_after_history :
  forall (name : str) (h : list hop),
    let st := fst (crun (c_new name) (map cop_of h)) in
    declared name (in_force h) (observe (c_iface st)) /\
    forall replace heap known path,
      replace = true \/ alist_get str_eqb name known = None ->
      exists evs r,
        snd (export_doc path st) = Ok evs /\
        first_parsed (parse replace heap known evs) = Some r /\
        declared name (in_force h) (observe r).
Proof. exact roundtrip_after_history. Qed.

(* --- non-vacuity --------------------------------------------------------------------- *)

(* the example signatures are valid DBus signatures with nested containers *)
Example C15_example_valid : forallb wf (ex_sig_in ++ ex_sig_out) = true.
Proof. exact example_valid. Qed.

(* an interface with two methods, a signal and two properties over them goes
   through declaration, generation (48 element events) and parsing *)
Example C15_example_runs :
  ex_run false [] []
  = Ok (46%nat, [0; 1; 2; 3]%nat, 4%nat,
        Some (Some (show_list ex_sig_in, show_list ex_sig_out, 3%Z, 1%Z), Some ([115%N], s_write)),
        Some 0%nat).
Proof. exact example_runs. Qed.

(* the hypotheses of C15_known_reused / C15_known_replaced are satisfiable *)
Example C15_example_known :
  ex_run false [ex_old; ex_old] ex_known = Ok (46%nat, [0; 1; 1; 1]%nat, 2%nat, None, Some 0%nat) /\
  ex_run true [ex_old; ex_old] ex_known
  = Ok (46%nat, [2; 3; 4; 5]%nat, 6%nat,
        Some (Some (show_list ex_sig_in, show_list ex_sig_out, 3%Z, 1%Z), Some ([115%N], s_write)),
        Some 2%nat).
Proof. exact example_reused. Qed.

(* C15_cache_coherent is not a triviality of the model's shape: the variant of
   the object whose addX resets the cache only when the member name is new
   (Proofs/IfaceCacheProofs.v, c_add_stale_variant) violates it - declare M,
   ask for the XML, declare M again with another signature, ask again *)
Example C15_cache_stale_variant_refuted :
  exists i0 pre post,
    let st := fst (crun_stale_variant (mkC i0 None) pre) in
    nth_error (snd (crun_stale_variant (mkC i0 None) (pre ++ OGetXml :: post))) (length pre)
    <> Some (obs_of (gen_iface (c_iface st))).
Proof. exact stale_variant_differs. Qed.

(* ... while the model answers two different documents on that history *)
Example C15_example_redeclare :
  map (fun o => match o with RXml x => Some (length x) | _ => None end)
      (snd (crun (c_new ex_iname) (ex_redeclare ++ [OGetXml])))
  = [None; Some 8%nat; None; Some 8%nat] /\
  nth_error (snd (crun (c_new ex_iname) (ex_redeclare ++ [OGetXml]))) 1
  <> nth_error (snd (crun (c_new ex_iname) (ex_redeclare ++ [OGetXml]))) 3.
Proof. exact redeclare_regenerates. Qed.

(* a history with re-declaration of a method, a signal and a property after the
   XML had been produced, a deletion, a failing deletion and a re-addition: the
   XML asked for in between has 16, 20, 14 element events, the final document
   (34 events) parses to the definitions in force *)
Example C15_example_history :
  ex_history_run
  = ([None; None; None; Some 16%nat; None; None; None; Some 20%nat; None; Some 14%nat; Some 0%nat; None],
     Some (34%nat,
           Some (show_list [ex_s; TArr (TEntry ex_s TVariant)], show_list [TStruct [ex_i; ex_i]], 2%Z, 1%Z),
           Some ([], 0%Z),
           Some ([117%N], s_readwrite))) /\
  map (fun d => match d with TMethod n _ _ => n | TSignal n _ => n | TProperty n _ _ _ => n end)
      (in_force ex_history) = [ex_M; ex_P; ex_M; ex_P; ex_S].
Proof. exact example_history. Qed.
