(* C20 - File descriptors stay attached to the message that carried them.
   Statements only; proofs in Proofs/FdProofs.v (receiving), Proofs/FdSendProofs.v
   (sending), Proofs/FdExamples.v (witnesses).

   Model (Model/FdFraming.v, on top of Model/Framing.v = C04, Model/Message.v = C03,
   Model/Marshal.v = C01/C02; tree with the repair D60):
     run_fd astep maxl legacy fuel client a ins
        an authenticated connection (any authenticator, either side) fed the events
        ins : list input -  Fd v  = fileDescriptorReceived(v),  Read b = dataReceived(b) -;
        returns the callbacks made (Deliver p: one of methodCallReceived /
        methodReturnReceived / errorReceived / signalReceived got message p), the
        queue _receivedFDs and the unframed bytes afterwards.  legacy = false: the
        current code; fuel: nesting depth available to the decoder.
     construct_st / send_message / call_remote   MethodCallMessage(..., oobFDs=[]),
        BasicDBusProtocol.sendMessage, DBusClientConnection.callRemote.
   Specification (Spec/FdSpec.v): sent (a wire message with the descriptors
   accompanying it), sent_ok, stream_order (the property's arrival discipline),
   expected (what must have been delivered, what must be queued), fd_leaves /
   fconf / args_denote_fd / smsg_fd / send_spec (sending). *)
From Tx Require Import Lib.Base Model.PyVal Model.Marshal Model.Message Model.Framing Model.FdFraming
  Spec.WireSpec Spec.Readback Spec.WireTyped Spec.Conforms Spec.MsgSpec Spec.FramingSpec Spec.FdSpec
  Proofs.MarshalProofs Proofs.FramingProofs Proofs.FdProofs Proofs.FdStartProofs Proofs.FdSendProofs
  Proofs.FdExamples.
Local Open Scope N_scope.

(* ---- receiving ------------------------------------------------------------------------- *)

(* For ALL sequences of conformant messages (any types, either byte order, any
   number of descriptors each, UNIX_FD arguments anywhere in the body including
   inside variants), ALL event histories in stream order - descriptors in
   sending order, each no later than the read carrying the final byte of its
   message, descriptors of later messages arbitrarily early, reads cut anywhere -
   the connection has delivered exactly the messages whose final byte arrived,
   in order, each as sent with every UNIX_FD argument resolved within ITS OWN
   descriptors (seen_of), the queue holds exactly the arrived descriptors of the
   messages not yet delivered, and the buffer the bytes of the incomplete one.
   Since every prefix of such a history is one, this holds after every event:
   each message consumes exactly its declared count. *)
Theorem C20_attribution :
  forall (A : Type) (astep : A -> bytes -> A * ares) (maxl : N) (fuel : nat) (client : bool) (a : A)
         (msgs : list sent) (ins : list input),
    Forall sent_ok msgs ->
    Forall (fun x => (msg_depth (sn_msg x) <= fuel)%nat) msgs ->
    stream_order msgs ins ->
    let '(seen, q, rest) := expected msgs ins in
    exists ps, run_fd astep maxl false fuel client a ins = (map Deliver ps, q, Some rest) /\
               map view ps = seen.
Proof. exact @attribution. Qed.

(* The same from the START of the connection (run_start: state right after
   connectionMade, either side, any authenticator).  The peer sends the handshake
   hs = (NUL,) lines the authenticator accepts at the last one, then the messages;
   a descriptor may arrive ANYWHERE after the start - before, or in the same read
   as, the line that completes authentication (a peer pipelining its first
   message behind BEGIN) - still in sending order and each no later than the read
   carrying the final byte of its message (stream_order_hs); reads are cut anywhere,
   inside the handshake too.  Then: the queue is carried untouched through the
   line phase and across the switch to binary framing; the callbacks are the
   handshake events hl (exactly those of C04's stream semantics), then exactly the
   messages completed so far, each with its own descriptors; the queue holds
   exactly the arrived descriptors of the messages not yet delivered.  (Server
   side: the very first read is not empty, as in C04.) *)
Theorem C20_attribution_from_start :
  forall (A : Type) (astep : A -> bytes -> A * ares) (maxl : N) (fuel : nat) (client : bool) (a : A)
         (lines : list bytes) (msgs : list sent),
    Forall (good_line maxl) lines -> auth_accepts astep a lines = true ->
    Forall sent_ok msgs ->
    Forall (fun x => (msg_depth (sn_msg x) <= fuel)%nat) msgs ->
    forall ins : list input,
    stream_order_hs (hs_bytes client lines) msgs ins ->
    client = true \/ first_read_nonempty (reads ins) ->
    exists hl ps r,
      run_start astep maxl false fuel client a ins
        = (map Other hl ++ map Deliver ps, snd (expected_hs (hs_bytes client lines) msgs ins), Some r) /\
      map view ps = fst (expected_hs (hs_bytes client lines) msgs ins) /\
      Forall nomsg hl /\
      fst (sem astep maxl client a (bytes_of ins))
        = hl ++ map Msg (map wire (firstn (complete msgs (length (bytes_of ins) - length (hs_bytes client lines))) msgs)) /\
      ((length (hs_bytes client lines) <= length (bytes_of ins))%nat ->
         hl = map Line lines ++ [AuthOk] /\
         bytes_of ins = hs_bytes client lines
                        ++ wire_all (firstn (complete msgs (length (bytes_of ins) - length (hs_bytes client lines))) msgs)
                        ++ r).
Proof. exact @attribution_start. Qed.

Theorem C20_stream_order_hs_checker :
  forall hs msgs ins, stream_order_hs_b hs msgs ins = true -> stream_order_hs hs msgs ins.
Proof. exact stream_order_hs_b_sound. Qed.

(* One message, ANY queue behind its own descriptors ("even when descriptors of
   later messages are already queued"): rawDBusMessageReceived delivers it as
   sent, its UNIX_FD arguments resolved within [own] only (an index not below the
   own count yields None, never an element of [later]), and removes exactly
   [own] from the queue. *)
Theorem C20_own_descriptors_only :
  forall (own later : list pyval) (s : smsg) (fuel : nat),
    msg_wt own s -> declared s = length own -> (msg_depth s <= fuel)%nat ->
    exists p, raw_received false fuel (msg_enc s) (own ++ later) = Ok (p, later) /\
              view p = seen_of (mkSent s own).
Proof. exact raw_received_own. Qed.

(* stream_order is decidable on integer descriptors; the procedure the harness
   uses to classify its event plans is sound *)
Theorem C20_stream_order_checker :
  forall msgs ins, stream_order_b msgs ins = true -> stream_order msgs ins.
Proof. exact stream_order_b_sound. Qed.

(* the pre-repair parseMessage is the function C03 reasons about *)
Theorem C20_legacy_parse_is_C03 :
  forall fuel raw fds, parse_message_fd true fuel raw fds = parse_message false fuel raw fds.
Proof. exact parse_message_fd_legacy. Qed.

(* ---- sending --------------------------------------------------------------------------- *)

(* For EVERY application message (any of the four types the model's constructor
   accepts; in the tree only MethodCallMessage takes oobFDs) whose body conforms
   to its signature with UNIX_FD arguments anywhere outside variants - plain, in
   arrays, structs, dict entries, nested - numbered in argument order
   (args_denote_fd: fd_leaves = 0, 1, ... and F lists the Python values given
   for them in that order): constructing it with oobFDs = [] yields
     - the descriptor list F, i.e. the descriptors in argument order,
     - exactly the specification encoding of the message with the UNIX_FD
       arguments written as their positions 0, 1, ... and the header field
       UNIX_FDS = |F| (absent when there are none)  [smsg_fd, declared],
   and sendMessage asks the transport to send every descriptor of F, in order,
   BEFORE writing the message's bytes. *)
Theorem C20_sender_order :
  forall (F : list pyval) (m : amsg) (attrs : list (attr * pyval)) (body : pyval) (next : Z) (fuel : nat),
    N.of_nat (length F) < 4294967296 ->
    valid_amsg F m -> args_denote_fd F attrs body m ->
    (0 <= next < 4294967296)%Z ->
    let s := smsg_fd m true next (length F) in
    (msg_depth s <= fuel)%nat -> len (msg_enc s) <= max_msg_len ->
    construct_st false fuel (a_type m) (negb (a_no_reply m)) (negb (a_no_auto_start m)) attrs body next (Some [])
      = (Ok (msg_header s, padding 8 (length (msg_header s)), msg_body s, Some F), (next + 1)%Z) /\
    msg_header s ++ padding 8 (length (msg_header s)) ++ msg_body s = msg_enc s /\
    declared s = length F /\
    send_message (Some F) (msg_enc s) = map SendFd F ++ [Write (msg_enc s)].
Proof.
  intros F m attrs body next fuel HF V A Hn s Hd Hsz.
  split; [exact (construct_refines_fd F HF m attrs body next fuel V A Hn Hd Hsz)|].
  split; [reflexivity|]. split; [apply declared_smsg_fd|reflexivity].
Qed.

(* callRemote (a fresh list per call): the transport sees the descriptors in
   argument order, then one write of the message *)
Theorem C20_call_remote :
  forall (F : list pyval) (m : amsg) (attrs : list (attr * pyval)) (body : pyval) (next : Z) (fuel : nat),
    N.of_nat (length F) < 4294967296 ->
    a_type m = 1 -> valid_amsg F m -> args_denote_fd F attrs body m ->
    (0 <= next < 4294967296)%Z ->
    (msg_depth (smsg_fd m true next (length F)) <= fuel)%nat ->
    len (msg_enc (smsg_fd m true next (length F))) <= max_msg_len ->
    call_remote fuel (negb (a_no_reply m)) (negb (a_no_auto_start m)) attrs body next =
      (Ok (send_spec F (msg_enc (smsg_fd m true next (length F)))), (next + 1)%Z).
Proof. intros F m attrs body next fuel HF. exact (call_remote_spec F HF m attrs body next fuel). Qed.

(* marshal() alone: the body bytes and the collected descriptors *)
Theorem C20_marshal_collects :
  forall (F : list pyval) (le : bool) (ts : list ty) (vals : pyval) (vs : list pyval) (ws : list wval)
         (off fuel : nat),
    N.of_nat (length F) < 4294967296 ->
    seq_items vals = Ok vs -> fconf_seq F ts vs ws -> (wdepth_list ws <= fuel)%nat ->
    len (enc_seq ts ws off le) < 4294967296 ->
    fd_leaves_seq ts ws = seqZ 0 (length F) ->
    m_marshal fuel (show_list ts) vals (N.of_nat off) le (Some []) =
      Ok (len (enc_seq ts ws off le), enc_seq ts ws off le, Some F).
Proof. intros F le ts vals vs ws off fuel HF. exact (marshal_refines_fd F le HF ts vals vs ws off fuel). Qed.

(* Sender and receiver together: what MethodCallMessage(..., oobFDs=[]) builds,
   sent with its descriptors F and received behind ANY queue tail [later], is
   delivered with the body read back against the sender's own list F
   (MsgSpec.own_body: a UNIX_FD argument of position j is the j-th element of F,
   which is the Python value the sender gave there - C20_fd_argument_is_own), and
   exactly F leaves the queue. *)
Theorem C20_end_to_end :
  forall (F : list pyval) (m : amsg) (attrs : list (attr * pyval)) (body : pyval) (next : Z)
         (fuel fuel' : nat) (later : list pyval),
    N.of_nat (length F) < 4294967296 ->
    valid_amsg F m -> args_denote_fd F attrs body m -> (0 <= next < 4294967296)%Z ->
    (msg_depth (smsg_fd m true next (length F)) <= fuel)%nat ->
    (msg_depth (smsg_fd m true next (length F)) <= fuel')%nat ->
    len (msg_enc (smsg_fd m true next (length F))) <= max_msg_len ->
    exists h p b pd,
      construct_st false fuel (a_type m) (negb (a_no_reply m)) (negb (a_no_auto_start m)) attrs body next (Some [])
        = (Ok (h, p, b, Some F), (next + 1)%Z) /\
      send_message (Some F) (h ++ p ++ b) = send_spec F (h ++ p ++ b) /\
      raw_received false fuel' (h ++ p ++ b) (F ++ later) = Ok (pd, later) /\
      snd (view pd) = own_body F m.
Proof. exact end_to_end. Qed.

Theorem C20_fd_argument_is_own :
  forall (F : list pyval) (v : pyval) (z : Z),
    fconf F TFd v (WInt z) -> readback F TFd (WInt z) = v.
Proof. exact fd_leaf_readback. Qed.

(* ---- the behaviour before the repair (D60) ------------------------------------------------ *)

(* parseMessage handed the body decoder the WHOLE queue: a call A whose UNIX_FD
   argument has index 0 while A carries (and declares) no descriptor, followed by
   a message D with one descriptor 13 that is already queued: A was delivered
   with D's descriptor - and so was D.  The specification (and the current model)
   give A nothing. *)
Theorem C20_attribution_legacy_refuted :
  exists msgs ins,
    Forall sent_ok msgs /\ Forall (fun x => (msg_depth (sn_msg x) <= 8)%nat) msgs /\
    stream_order msgs ins /\
    map (fun o => match o with Deliver p => snd (view p) | _ => None end)
        (fst (fst (run_fd (astep_rules ex_rules) 16384 true 8 true tt ins)))
      = [Some [PInt 13]; Some [PInt 13]] /\
    map snd (fst (fst (expected msgs ins))) = [Some [PNone]; Some [PInt 13]] /\
    map (fun o => match o with Deliver p => snd (view p) | _ => None end)
        (fst (fst (run_fd (astep_rules ex_rules) 16384 false 8 true tt ins)))
      = [Some [PNone]; Some [PInt 13]].
Proof. exact legacy_refuted. Qed.

(* ---- non-vacuity ---------------------------------------------------------------------------- *)

(* B (three descriptors 10 11 12; body ((h s) ah) with positions 1, 0, 2), C (a
   big-endian signal without descriptors), D (a method return with descriptor 13
   inside a variant); D's descriptor arrives while B is still incomplete, reads
   are cut inside B's header, inside C and one byte before the end of D.  The
   hypotheses of C20_attribution hold; after the second read B has been delivered
   with ((11, "x"), (10, 12)) while 13 stays queued; with the last byte D gets 13. *)
Example C20_instance :
  Forall sent_ok [ex_B; ex_C; ex_D] /\
  Forall (fun x => (msg_depth (sn_msg x) <= 8)%nat) [ex_B; ex_C; ex_D] /\
  stream_order [ex_B; ex_C; ex_D] ex_ins /\
  (exists p, run_fd (astep_rules ex_rules) 16384 false 8 true tt (firstn 6 ex_ins)
             = ([Deliver p], [PInt 13], Some (firstn 24 (wire ex_C))) /\
             snd (view p) = Some [PList [PInt 11; PStr [120]]; PList [PInt 10; PInt 12]]) /\
  length (fst (fst (expected [ex_B; ex_C; ex_D] ex_ins))) = 2%nat /\
  snd (fst (expected [ex_B; ex_C; ex_D] ex_ins)) = [PInt 13] /\
  map snd (fst (fst (expected [ex_B; ex_C; ex_D] (ex_ins ++ [Read (skipn 207 ex_stream)]))))
    = [Some [PList [PInt 11; PStr [120]]; PList [PInt 10; PInt 12]]; None; Some [PInt 13]] /\
  snd (fst (expected [ex_B; ex_C; ex_D] (ex_ins ++ [Read (skipn 207 ex_stream)]))) = [].
Proof. exact ex_attribution. Qed.

(* a call /a M with body ((10, "x"), [11, 12]) of signature (hs)ah satisfies the
   hypotheses of C20_sender_order / C20_call_remote; what is sent satisfies those
   of C20_attribution and is read back as ((10, "x"), (11, 12)) *)
Example C20_send_instance :
  let s := smsg_fd ex_send true 5 3 in
  valid_amsg ex_send_fds ex_send /\ args_denote_fd ex_send_fds ex_send_attrs ex_send_body ex_send /\
  (msg_depth s <= 8)%nat /\ len (msg_enc s) <= max_msg_len /\
  call_remote 8 true true ex_send_attrs ex_send_body 5
    = (Ok (send_spec ex_send_fds (msg_enc s)), 6%Z) /\
  sent_ok (mkSent s ex_send_fds) /\
  snd (seen_of (mkSent s ex_send_fds)) = Some [PList [PInt 10; PStr [120]]; PList [PInt 11; PInt 12]].
Proof. exact ex_send_ok. Qed.

(* server side: NUL, "AUTH X", "GO" (accepted), then B and D.  Descriptors 10 and
   11 arrive while the handshake is incomplete, 12 just before the read carrying
   "GO\r\n" together with the first 30 bytes of B.  The hypotheses of
   C20_attribution_from_start hold; after that read the connection is
   authenticated with 10 11 12 still queued; at the end B and D have their own. *)
Example C20_start_instance :
  Forall (good_line 16384) [AUTHX; GO] /\ auth_accepts (astep_rules go_rules) tt [AUTHX; GO] = true /\
  Forall sent_ok [ex_B; ex_D] /\ Forall (fun x => (msg_depth (sn_msg x) <= 8)%nat) [ex_B; ex_D] /\
  stream_order_hs ex_hs [ex_B; ex_D] ex_ins2 /\ first_read_nonempty (reads ex_ins2) /\
  run_start (astep_rules go_rules) 16384 false 8 false tt (firstn 5 ex_ins2)
    = ([Other (Line AUTHX); Other (Line GO); Other AuthOk], [PInt 10; PInt 11; PInt 12],
       Some (firstn 30 (wire ex_B))) /\
  (exists p1 p2,
     run_start (astep_rules go_rules) 16384 false 8 false tt ex_ins2
       = ([Other (Line AUTHX); Other (Line GO); Other AuthOk; Deliver p1; Deliver p2], [], Some []) /\
     snd (view p1) = Some [PList [PInt 11; PStr [120]]; PList [PInt 10; PInt 12]] /\
     snd (view p2) = Some [PInt 13]).
Proof. exact ex_start. Qed.
