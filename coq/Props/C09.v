(* C09 - Connecting always concludes; a lost connection fails all pending work once.
   Statements only; proofs are in Proofs/ConnectProofs.v.

   [run addr serial0 evs] is the faithful model (Model/Connect.v, embedding the call table of
   Model/Calls.v) of one txdbus.client.connect() on the bus address list [addr], with
   DBusMessage._nextSerial = serial0, driven through the event list evs: endpoints failing or
   connecting, authentication accepted or refused, messages from the bus, timers, the transport
   closing, and - once the connection has been handed over - the user issuing calls, obtaining
   proxies, registering and cancelling disconnect callbacks.  Every statement is for every address
   list, every first serial and every event list. *)
From Tx Require Import Lib.Base Model.Calls Model.Connect Model.ConnectRe Spec.ConnectSpec Proofs.ConnectProofs
  Proofs.ConnectReProofs Model.ConnectCancel Proofs.ConnectCancelProofs.
From Coq Require Import Permutation.
Local Open Scope N_scope.

(* The Deferred returned by connect() has fired exactly with what the property says of the history
   ([connect_outcome], Spec/ConnectSpec.v: the connection once authentication and Hello succeeded on
   the first reachable address in listed order; a failure when no address is reachable, authentication
   is refused, Hello fails or the transport closes before; nothing while none of this has happened) -
   so it never fires twice and never early - and connecting has concluded (phase Ready, HelloFailed
   or Dead) exactly when it has fired. *)
Theorem C09_connect_fires_once :
  forall addr serial0 evs,
    st_fired (run addr serial0 evs) = fired_as (connect_outcome addr serial0 evs) /\
    (terminal (st_phase (run addr serial0 evs)) = true <-> connect_outcome addr serial0 evs <> None).
Proof. exact connect_fires_once. Qed.

(* the connection is ready only if the history is one the property calls a success *)
Theorem C09_ready_only_via_hello :
  forall addr serial0 evs,
    st_phase (run addr serial0 evs) = Ready -> connect_outcome addr serial0 evs = Some CReady.
Proof. exact ready_only_after_hello. Qed.

(* When a ready connection is lost with reason r after any history [pre]: every outstanding call
   fails with r, none of them had completed before and no Deferred ever completes twice; no pending
   entry and no timer is left; no disconnect callback had run before, and every callback registered
   and not cancelled on the connection or on a proxy the user holds runs exactly once, with r; the
   Deferred of connect() does not fire again ([loss_ok]).  And whatever follows ([post]), no callback
   runs again, connect()'s Deferred stays as it is, and a completion can only belong to a call the
   user issued after the loss ([quiet]). *)
Theorem C09_loss_fails_all_once :
  forall addr serial0 pre r post,
    st_phase (run addr serial0 pre) = Ready ->
    loss_ok r (snap (run addr serial0 pre))
              (snap (run addr serial0 (pre ++ [ECalls (ELost r)]))) /\
    quiet (snap (run addr serial0 (pre ++ [ECalls (ELost r)])))
          (snap (run addr serial0 (pre ++ ECalls (ELost r) :: post))).
Proof. exact loss_fails_all_once. Qed.

(* What [sn_registered] - "registered and not cancelled" - means in terms of the user's requests:
   no event other than notifyOnDisconnect / cancelNotifyOnDisconnect changes it (a new proxy, explicit
   or introspected, starts without callbacks; replies, timers, the loss itself leave the lists alone); *)
Theorem C09_registered_changes_only_by_request :
  forall st e,
    (forall o cb, e <> EReg o cb) -> (forall o cb, e <> ECancel o cb) ->
    sn_registered (snap (step st e)) = sn_registered (snap st).
Proof. exact registered_frame'. Qed.

(* on the connection, registering adds one registration of that callback, cancelling removes one
   (the call raises ValueError when there is none); *)
Theorem C09_registration_on_connection :
  forall st cb,
    handle st = true ->
    Permutation (sn_registered (snap (step st (EReg OConn cb)))) ((OConn, cb) :: sn_registered (snap st)) /\
    (mem cb (st_dcbs st) = true ->
     Permutation ((OConn, cb) :: sn_registered (snap (step st (ECancel OConn cb)))) (sn_registered (snap st))) /\
    (mem cb (st_dcbs st) = false ->
     sn_registered (snap (step st (ECancel OConn cb))) = sn_registered (snap st) /\
     st_raised (step st (ECancel OConn cb)) = S (st_raised st)).
Proof. exact registered_conn. Qed.

(* on a proxy, exactly the callback list of the proxy of that request is extended, or loses the first
   occurrence of the callback (or nothing changes: no such proxy, empty list, or ValueError). *)
Theorem C09_registration_on_proxy :
  forall st q cb,
    handle st = true ->
    st_objs (step st (EReg (OProxy q) cb)) = upd_cbs q (fun l => l ++ [cb]) (st_objs st) /\
    st_dcbs (step st (EReg (OProxy q) cb)) = st_dcbs st /\
    st_dcbs (step st (ECancel (OProxy q) cb)) = st_dcbs st /\
    (st_objs (step st (ECancel (OProxy q) cb)) = upd_cbs q (remove_first cb) (st_objs st) \/
     st_objs (step st (ECancel (OProxy q) cb)) = st_objs st).
Proof. exact registered_proxy. Qed.

(* ---- non-vacuity ------------------------------------------------------------------------- *)

Definition hello_reply (s : N) : event := ECalls (EReturn s (Msg (Some [115]) [VStr [58; 49; 46; 53]])).
Definition xml_reply (s : N) : event := ECalls (EReturn s (Msg (Some [115]) [VStr [60; 110; 47; 62]])).

(* address list  launchd:... ; unix:... ; tcp:... ; the unix socket is unreachable, the tcp one connects;
   authentication, Hello (serial 7); then two calls (serials 8, 9; the first with a deadline), an explicit
   proxy with a callback, an introspected proxy (Introspect = serial 10) with a callback, one more
   introspection still pending (serial 11), three callbacks on the connection of which one is cancelled. *)
Definition busy : list event :=
  [ EEpFail; EEpOk; EAuthOk; hello_reply 7;
    ECalls (ECall CkNormal (Some 5) RsNoCheck); ECalls (ECall CkNormal None RsNoCheck);
    EGetObject PkExplicit 1; EReg (OProxy 0) 21;
    EGetObject (PkIntro true) 2; xml_reply 10; EReg (OProxy 1) 22;
    EGetObject (PkIntro true) 3;
    EReg OConn 31; EReg OConn 32; EReg OConn 31; ECancel OConn 31 ].

Example C09_busy_connection :
  let addr := [AOther; AUnix; ATcp] in
  connect_outcome addr 7 busy = Some CReady /\
  st_phase (run addr 7 busy) = Ready /\
  sn_outstanding (snap (run addr 7 busy)) = [1; 2; 4]%nat /\
  sn_timers (snap (run addr 7 busy)) = [8] /\
  sn_registered (snap (run addr 7 busy)) =
    [(OConn, 32); (OConn, 31); (OProxy 0, 21); (OProxy 1, 22)] /\
  let lost := run addr 7 (busy ++ [ECalls (ELost 2)]) in
  st_phase lost = Dead /\
  sn_completed (snap lost) = [(0%nat, OValue (Some (VStr [58; 49; 46; 53])));
                              (3%nat, OValue (Some (VStr [60; 110; 47; 62])));
                              (1%nat, OLost 2); (2%nat, OLost 2); (4%nat, OLost 2)] /\
  sn_ran (snap lost) = [(OConn, 32, 2); (OConn, 31, 2); (OProxy 0, 21, 2); (OProxy 1, 22, 2)] /\
  sn_timers (snap lost) = [] /\ st_fired lost = [CReady].
Proof. vm_compute. repeat split; reflexivity. Qed.

(* every way of failing that the property lists, and the liveness side: not concluded, not fired *)
Example C09_outcomes :
  let a := [AUnix; ATcp] in
  connect_outcome [] 1 [] = Some (CFailed CNoAddress) /\
  connect_outcome [AOther] 1 [EEpOk] = Some (CFailed CNoAddress) /\
  connect_outcome a 1 [EEpFail; EEpFail] = Some (CFailed CNoAddress) /\
  connect_outcome a 1 [EEpFail] = None /\
  connect_outcome a 1 [EEpOk; ECalls (ELost 3)] = Some (CFailed (CLost 3)) /\
  connect_outcome a 1 [EEpFail; EEpOk; EAuthRefused] = None /\
  connect_outcome a 1 [EEpFail; EEpOk; EAuthRefused; EAuthOk; ECalls (ELost 3)] = Some (CFailed (CLost 3)) /\
  connect_outcome a 1 [EEpOk; EAuthOk; ECalls (ELost 3); hello_reply 1] = Some (CFailed (CLost 3)) /\
  connect_outcome a 1 [EEpOk; EAuthOk; ECalls (EError 1 [97] (Msg None []))] = Some (CFailed CHello) /\
  connect_outcome a 1 [EEpOk; EAuthOk; hello_reply 2; ECalls (ETimer 1)] = None /\
  connect_outcome a 1 [EEpOk; EAuthOk; hello_reply 2; hello_reply 1; ECalls (ELost 3)] = Some CReady /\
  connect_outcome a 4294967296 [EEpOk; EAuthOk] = Some (CFailed CHello) /\
  st_phase (run a 1 [EEpFail; EEpOk; EAuthRefused]) = Authenticating true /\
  st_fired (run a 1 [EEpFail; EEpOk; EAuthRefused]) = [].
Proof. vm_compute. repeat split; reflexivity. Qed.

(* ---- disconnect callbacks that act on the connection while the loss is handled --------------------

   [run_re acts] is [run] with connectionLost of an authenticated connection replaced by the re-entrant
   model of Model/ConnectRe.v: a callback cb, when it runs, performs [acts cb] - it issues calls (with or
   without deadline), registers or cancels disconnect callbacks on the connection or on a proxy.  The
   statements hold for EVERY assignment acts. *)

(* The passive development is the special case in which no callback does anything. *)
Theorem C09_reentrant_extends_passive :
  forall addr serial0 evs, run_re no_actions addr serial0 evs = run addr serial0 evs.
Proof. exact run_re_passive. Qed.

(* When a ready connection is lost with reason r ([loss_reentrant_ok], Spec/ConnectSpec.v):
   every call outstanding at the loss has failed with r, and so has every call a callback issued while
   the loss was handled (unless no 32-bit serial was left for it: then it failed at once); no Deferred
   completes twice and nothing else completed; no pending entry and no timer remains; no callback had
   run before; the callbacks that run are every connection-level callback registered at the loss, once
   per registration - even if a callback cancels it meanwhile, and NOT one that a callback registers
   meanwhile - and every proxy-level callback registered when the connection-level callbacks have
   finished ([conn_phase]), once per registration; connect()'s Deferred is untouched.
   And for every continuation of the history ([quiet]): no callback runs again - in particular a
   callback registered during the loss never runs -, connect()'s Deferred stays as it is, and a completion
   can only belong to a call the user issued after connectionLost had returned. *)
Theorem C09_loss_reentrant :
  forall acts addr serial0 pre r post,
    st_phase (run_re acts addr serial0 pre) = Ready ->
    loss_reentrant_ok r (snap (run_re acts addr serial0 pre))
                        (snap (conn_phase acts (set_open (run_re acts addr serial0 pre) false) r))
                        (snap (run_re acts addr serial0 (pre ++ [ECalls (ELost r)]))) /\
    quiet (snap (run_re acts addr serial0 (pre ++ [ECalls (ELost r)])))
          (snap (run_re acts addr serial0 (pre ++ ECalls (ELost r) :: post))).
Proof. exact loss_reentrant. Qed.

(* If the connection-level callbacks registered at the loss do not (un)register callbacks on proxies -
   whatever else they and the proxy-level callbacks do -, the callbacks that ran are exactly the ones
   registered at the loss, connection and proxies, each once: the passive statement. *)
Theorem C09_loss_reentrant_all_registered :
  forall acts addr serial0 pre r,
    st_phase (run_re acts addr serial0 pre) = Ready ->
    (forall cb, In cb (st_dcbs (run_re acts addr serial0 pre)) -> touches_proxy (acts cb) = false) ->
    Permutation (sn_ran (snap (run_re acts addr serial0 (pre ++ [ECalls (ELost r)]))))
                (expected_runs r (snap (run_re acts addr serial0 pre))).
Proof. exact loss_reentrant_all_registered. Qed.

(* A connection-level callback that ran had been registered before the loss began. *)
Theorem C09_registered_during_loss_does_not_run :
  forall acts addr serial0 pre r cb r',
    st_phase (run_re acts addr serial0 pre) = Ready ->
    In (OConn, cb, r') (sn_ran (snap (run_re acts addr serial0 (pre ++ [ECalls (ELost r)])))) ->
    In cb (st_dcbs (run_re acts addr serial0 pre)) /\ r' = r.
Proof. exact conn_callback_ran_was_registered. Qed.

(* Non-vacuity.  One call with a deadline in flight (Deferred 1, serial 8); an explicit proxy with
   callbacks 21 and 50; connection-level callbacks 40, 7, 41.  40 issues a call with a deadline, registers
   60 on the connection and 61 on the proxy, cancels 7, itself and 21; 41 issues two calls; 50 (proxy
   level) issues a call and cancels itself.  After the loss: Deferreds 1-5 have all failed with the
   reason, no timer is left; 40, 7, 41 ran (7 although cancelled, 60 not); on the proxy 50 and 61 ran
   (21 was cancelled in time).  Afterwards the timers' serials tick and the user registers once more:
   nothing happens. *)
Definition acting : assignment :=
  table_assignment
    [ (40, [ACall (Some 5); AReg OConn 60; AReg (OProxy 0) 61; ACancel OConn 7; ACancel OConn 40;
            ACancel (OProxy 0) 21]);
      (41, [ACall None; ACall (Some 9)]);
      (50, [ACall (Some 3); ACancel (OProxy 0) 50]) ].

Definition acting_history : list event :=
  [ EEpOk; EAuthOk; hello_reply 7; ECalls (ECall CkNormal (Some 5) RsNoCheck);
    EGetObject PkExplicit 1; EReg (OProxy 0) 21; EReg (OProxy 0) 50;
    EReg OConn 40; EReg OConn 7; EReg OConn 41 ].

Example C09_acting_callbacks :
  let lost := run_re acting [AUnix] 7 (acting_history ++ [ECalls (ELost 2)]) in
  st_phase (run_re acting [AUnix] 7 acting_history) = Ready /\
  sn_outstanding (snap (run_re acting [AUnix] 7 acting_history)) = [1%nat] /\
  sn_completed (snap lost) =
    [(0%nat, OValue (Some (VStr [58; 49; 46; 53]))); (1%nat, OLost 2); (2%nat, OLost 2); (3%nat, OLost 2);
     (4%nat, OLost 2); (5%nat, OLost 2)] /\
  sn_outstanding (snap lost) = [] /\ sn_timers (snap lost) = [] /\ sn_issued (snap lost) = 6%nat /\
  sn_ran (snap lost) = [(OConn, 40, 2); (OConn, 7, 2); (OConn, 41, 2); (OProxy 0, 50, 2); (OProxy 0, 61, 2)] /\
  let later := run_re acting [AUnix] 7
                 (acting_history ++ ECalls (ELost 2) ::
                  [ECalls (ETimer 8); ECalls (ETimer 9); ECalls (ETimer 11); ECalls (ETimer 12); EReg OConn 60;
                   ECalls (ELost 3)]) in
  sn_completed (snap later) = sn_completed (snap lost) /\ sn_ran (snap later) = sn_ran (snap lost).
Proof. vm_compute. repeat split; reflexivity. Qed.

(* Proxies created while the loss is handled ([AMkProxy]: a callback calls getRemoteObject with explicit
   interfaces on the dying connection and may register a callback on the new proxy).  C09_loss_reentrant
   holds unchanged for assignments with such actions; spelled out for the proxy-level callbacks: the ones
   that run are exactly those on the proxies that exist when the connection-level callbacks have finished
   ([conn_phase]), with the lists they have then, and they run with the loss reason.  Hence a proxy
   created by a CONNECTION-level callback is notified (it is in _weakProxies before the snapshot of the
   proxies is taken); a proxy created by a PROXY-level callback is not - whatever is registered on it never
   runs ([quiet]) - and creating it disturbs nothing: the other proxies are told, the calls are failed. *)
Theorem C09_loss_reentrant_proxy_creation :
  forall acts addr serial0 pre r q cb r',
    st_phase (run_re acts addr serial0 pre) = Ready ->
    (In (OProxy q, cb, r') (sn_ran (snap (run_re acts addr serial0 (pre ++ [ECalls (ELost r)])))) <->
     r' = r /\ exists p, In p (st_objs (conn_phase acts (set_open (run_re acts addr serial0 pre) false) r)) /\
                         po_req p = q /\ In cb (po_cbs p)).
Proof. exact proxy_callback_ran_iff. Qed.

(* Non-vacuity: proxies 0 and 1 exist, a call with a deadline is pending.  Connection-level callback 40
   creates proxy 2 with callback 71; proxy-level callback 50 (on proxy 0) creates proxy 3 with callback 72.
   At the loss: 40, then 50 on proxy 0, 21 on proxy 1 and 71 on the new proxy 2 run; 72 does not; both new
   proxies exist afterwards; the pending call has failed with the reason, nothing is left armed. *)
Example C09_proxies_created_during_loss :
  let acts := table_assignment [ (40, [AMkProxy 5 (Some 71)]); (50, [AMkProxy 6 (Some 72)]) ] in
  let pre := [ EEpOk; EAuthOk; hello_reply 7; ECalls (ECall CkNormal (Some 5) RsNoCheck);
               EGetObject PkExplicit 1; EGetObject PkExplicit 2; EReg (OProxy 0) 50; EReg (OProxy 1) 21;
               EReg OConn 40 ] in
  let lost := run_re acts [AUnix] 7 (pre ++ [ECalls (ELost 2)]) in
  sn_ran (snap lost) = [(OConn, 40, 2); (OProxy 0, 50, 2); (OProxy 1, 21, 2); (OProxy 2, 71, 2)] /\
  map po_req (st_objs lost) = [0; 1; 2; 3]%nat /\
  sn_completed (snap lost) = [(0%nat, OValue (Some (VStr [58; 49; 46; 53]))); (1%nat, OLost 2)] /\
  sn_outstanding (snap lost) = [] /\ sn_timers (snap lost) = [].
Proof. vm_compute. repeat split; reflexivity. Qed.

(* ---- calls whose Deferred the caller has cancelled ------------------------------------------------

   [run_c acts] runs histories that may also contain [CCancel i]: the caller calls .cancel() on the
   Deferred number i that callRemote returned (Model/ConnectCancel.v).  txdbus gives that Deferred no
   canceller, so Twisted fires it with CancelledError at once and swallows what the library delivers
   later.  [vsnap cs] is the snapshot as the caller sees it: the cancelled Deferreds are neither
   outstanding nor do later completions of theirs count - but sn_timers is the whole reactor. *)

(* For the connection a cancellation is no event at all: the pending entry and the timeout stay where
   they are until the reply, the timeout or the loss removes them. *)
Theorem C09_cancel_is_a_view :
  forall acts addr serial0 evs,
    cs_core (run_c acts addr serial0 evs) = run_re acts addr serial0 (erase evs).
Proof. exact core_erase. Qed.

(* Every Deferred fires at most once, by a completion or by the caller's cancellation, never both. *)
Theorem C09_deferred_fires_once_with_cancellations :
  forall acts addr serial0 evs,
    let cs := run_c acts addr serial0 evs in
    NoDup (map fst (sn_completed (vsnap cs)) ++ cs_cancelled cs).
Proof. exact fires_once. Qed.

(* C09_loss_fails_all_once / C09_loss_reentrant with cancelled calls around (any assignment of actions to
   callbacks, passive ones included; any number of cancellations anywhere in the history):
   the statement of C09_loss_reentrant holds for what the caller sees - in particular
   sn_timers = [] after the loss: the timeouts of cancelled calls are cancelled as well; and no entry
   at all is left in the table.  The loss cancels nothing and un-cancels nothing.  For every
   continuation [quiet] holds - nothing fires for a cancelled call either -, the only Deferreds that
   can still be cancelled are those of calls issued after the loss, no Deferred is cancelled twice and a
   cancelled one never shows a completion. *)
Theorem C09_loss_with_cancelled_calls :
  forall acts addr serial0 pre r post,
    st_phase (cs_core (run_c acts addr serial0 pre)) = Ready ->
    let b := run_c acts addr serial0 pre in
    let a := run_c acts addr serial0 (pre ++ [CEv (ECalls (ELost r))]) in
    let l := run_c acts addr serial0 (pre ++ CEv (ECalls (ELost r)) :: post) in
    loss_reentrant_ok r (vsnap b)
                        (view (cs_cancelled b) (snap (conn_phase acts (set_open (cs_core b) false) r)))
                        (vsnap a) /\
    pending_serials (st_calls (cs_core a)) = [] /\
    cs_cancelled a = cs_cancelled b /\
    quiet (vsnap a) (vsnap l) /\
    (exists lc, cs_cancelled l = cs_cancelled a ++ lc /\
                Forall (fun i => (sn_issued (vsnap a) <= i)%nat) lc) /\
    NoDup (cs_cancelled l) /\
    (forall i, In i (cs_cancelled l) -> ~ In i (map fst (sn_completed (vsnap l)))).
Proof. exact loss_with_cancelled. Qed.

(* Non-vacuity.  Two calls with deadlines (Deferreds 1, 2; serials 8, 9) and one without (3; serial 10).
   The caller cancels 1 and 3, then (no effect) 1 again, Hello's Deferred 0 and a Deferred 7 that does not
   exist; the reply for 3 arrives and is absorbed.  Entries and timers of the cancelled calls are still
   there until then.  At the loss only 2 is failed for the caller; the reactor is empty, timer of the
   cancelled call 1 included.  Later ticks and a late reply for serial 8 do nothing. *)
Definition cancelling : list cevent :=
  map CEv [ EEpOk; EAuthOk; hello_reply 7; ECalls (ECall CkNormal (Some 5) RsNoCheck);
            ECalls (ECall CkNormal (Some 9) RsNoCheck); ECalls (ECall CkNormal None RsNoCheck) ] ++
  [ CCancel 1; CCancel 3; CCancel 1; CCancel 0; CCancel 7;
    CEv (ECalls (EReturn 10 (Msg (Some [105]) [VInt 7]))) ].

Example C09_cancelled_calls :
  let b := run_c no_actions [AUnix] 7 cancelling in
  st_phase (cs_core b) = Ready /\ cs_cancelled b = [1; 3]%nat /\
  pending_serials (st_calls (cs_core b)) = [8; 9] /\ sn_timers (vsnap b) = [8; 9] /\
  sn_outstanding (vsnap b) = [2%nat] /\
  sn_completed (vsnap b) = [(0%nat, OValue (Some (VStr [58; 49; 46; 53])))] /\
  let a := run_c no_actions [AUnix] 7 (cancelling ++ [CEv (ECalls (ELost 2))]) in
  sn_completed (vsnap a) = [(0%nat, OValue (Some (VStr [58; 49; 46; 53]))); (2%nat, OLost 2)] /\
  sn_timers (vsnap a) = [] /\ pending_serials (st_calls (cs_core a)) = [] /\
  let l := run_c no_actions [AUnix] 7
             (cancelling ++ CEv (ECalls (ELost 2)) ::
              [CEv (ECalls (ETimer 8)); CEv (ECalls (ETimer 9)); CCancel 2; CCancel 1;
               CEv (ECalls (EReturn 8 (Msg (Some [105]) [VInt 7])))]) in
  sn_completed (vsnap l) = sn_completed (vsnap a) /\ cs_cancelled l = [1; 3]%nat.
Proof. vm_compute. repeat split; reflexivity. Qed.

(* ---- the tree before the repairs (step_legacy = step_gen true true) ------------------------------ *)

(* D12: connectionLost returned early while busName was None.  The transport closes during
   authentication / after a refusal / before the Hello reply: connecting is over (phase Dead), the
   property demands a failure, the Deferred of connect() has not fired and never will. *)
Theorem C09_connect_fires_once_legacy_refuted :
  exists addr serial0 evs,
    terminal (st_phase (run_legacy addr serial0 evs)) = true /\
    connect_outcome addr serial0 evs <> None /\
    st_fired (run_legacy addr serial0 evs) = [].
Proof.
  exists [AUnix], 1, [EEpOk; ECalls (ELost 1)]. vm_compute. repeat split. discriminate.
Qed.

Example C09_legacy_never_fires_other_points :
  st_fired (run_legacy [AUnix] 1 [EEpOk; EAuthRefused; ECalls (ELost 1)]) = [] /\
  st_fired (run_legacy [AUnix] 1 [EEpOk; EAuthOk; ECalls (ELost 1)]) = [] /\
  st_fired (run [AUnix] 1 [EEpOk; EAuthRefused; ECalls (ELost 1)]) = [CFailed (CLost 1)] /\
  st_fired (run [AUnix] 1 [EEpOk; EAuthOk; ECalls (ELost 1)]) = [CFailed (CLost 1)].
Proof. vm_compute. repeat split; reflexivity. Qed.

(* D13: a proxy built from explicit interfaces was not registered with the object handler: its
   disconnect callback does not run when the ready connection is lost. *)
Theorem C09_loss_fails_all_once_legacy_refuted :
  exists addr serial0 pre r,
    st_phase (run_legacy addr serial0 pre) = Ready /\
    ~ loss_ok r (snap (run_legacy addr serial0 pre))
                (snap (run_legacy addr serial0 (pre ++ [ECalls (ELost r)]))).
Proof.
  exists [AUnix], 1, [EEpOk; EAuthOk; hello_reply 1; EGetObject PkExplicit 1; EReg (OProxy 0) 7], 2.
  split; [reflexivity|].
  intros (_ & _ & _ & _ & _ & H & _). vm_compute in H.
  apply Permutation_nil in H. discriminate H.
Qed.

(* D13, second half: two introspected proxies for the same (bus name, path, interfaces): the second
   evicted the first from the weak dictionary; D12, second face: a Hello return without a value left
   busName None, so that the loss of the ready connection failed nothing. *)
Example C09_legacy_eviction_and_nameless_hello :
  let two := [EEpOk; EAuthOk; hello_reply 1;
              EGetObject (PkIntro true) 5; xml_reply 2; EReg (OProxy 0) 7;
              EGetObject (PkIntro true) 5; xml_reply 3; EReg (OProxy 1) 8; ECalls (ELost 2)] in
  st_ran (run_legacy [AUnix] 1 two) = [(OProxy 1, 8, 2)] /\
  st_ran (run [AUnix] 1 two) = [(OProxy 0, 7, 2); (OProxy 1, 8, 2)] /\
  let nameless := [EEpOk; EAuthOk; ECalls (EReturn 1 (Msg None []));
                   ECalls (ECall CkNormal (Some 5) RsNoCheck); EReg OConn 3; ECalls (ELost 2)] in
  (st_fired (run_legacy [AUnix] 1 nameless) = [CReady] /\
   completions (st_calls (run_legacy [AUnix] 1 nameless)) = [(0%nat, OValue None)] /\
   timer_serials (st_calls (run_legacy [AUnix] 1 nameless)) = [2] /\
   st_ran (run_legacy [AUnix] 1 nameless) = []) /\
  (completions (st_calls (run [AUnix] 1 nameless)) = [(0%nat, OValue None); (1%nat, OLost 2)] /\
   timer_serials (st_calls (run [AUnix] 1 nameless)) = [] /\
   st_ran (run [AUnix] 1 nameless) = [(OConn, 3, 2)]).
Proof. vm_compute. repeat split; reflexivity. Qed.

(* D63: before the repair the proxies were notified after the pending calls had been failed and the table
   replaced: a call issued by a proxy-level disconnect callback stayed pending, its timer armed (and
   fired TimeOut later).  D62: both loops walked the live callback list: a callback cancelling itself made
   the loop skip the next one. *)
Theorem C09_loss_reentrant_legacy_refuted :
  exists acts addr serial0 pre r,
    st_phase (run_re_legacy 100 acts addr serial0 pre) = Ready /\
    ~ loss_reentrant_ok r (snap (run_re_legacy 100 acts addr serial0 pre))
                          (snap (conn_phase acts (set_open (run_re_legacy 100 acts addr serial0 pre) false) r))
                          (snap (run_re_legacy 100 acts addr serial0 (pre ++ [ECalls (ELost r)]))).
Proof.
  exists (table_assignment [(50, [ACall (Some 5)])]), [AUnix], 1,
         [EEpOk; EAuthOk; hello_reply 1; EGetObject PkExplicit 1; EReg (OProxy 0) 50], 2.
  split; [reflexivity|].
  intros (H & _). vm_compute in H. discriminate H.
Qed.

Example C09_legacy_self_cancel_skips_next :
  let acts := table_assignment [(40, [ACancel OConn 40])] in
  let pre := [EEpOk; EAuthOk; hello_reply 1; EReg OConn 40; EReg OConn 7; EReg OConn 8] in
  st_ran (run_re_legacy 100 acts [AUnix] 1 (pre ++ [ECalls (ELost 2)])) = [(OConn, 40, 2); (OConn, 8, 2)] /\
  st_ran (run_re acts [AUnix] 1 (pre ++ [ECalls (ELost 2)])) = [(OConn, 40, 2); (OConn, 7, 2); (OConn, 8, 2)] /\
  (* before: a callback registered meanwhile was run by the same loop; now it is not *)
  let acts' := table_assignment [(40, [AReg OConn 60])] in
  st_ran (run_re_legacy 100 acts' [AUnix] 1 (pre ++ [ECalls (ELost 2)])) =
    [(OConn, 40, 2); (OConn, 7, 2); (OConn, 8, 2); (OConn, 60, 2)] /\
  st_ran (run_re acts' [AUnix] 1 (pre ++ [ECalls (ELost 2)])) = [(OConn, 40, 2); (OConn, 7, 2); (OConn, 8, 2)].
Proof. vm_compute. repeat split; reflexivity. Qed.
