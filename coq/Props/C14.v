(* C14 - Built-in bus delivers each message to the right peer with the true sender.
   Statements only; proofs are in Proofs/BusRouteProofs.v.

   [run h] is the faithful model of txdbus's built-in bus (Model/BusRoute.v on top of
   Model/BusNames.v and Model/Router.v: BusProtocol.rawDBusMessageReceived,
   Bus.clientConnected / clientDisconnected / messageReceived / sendMessage / sendSignal /
   broadcastSignal / dbus_AddMatch and the name methods) driven from the empty bus through
   the history h of events
       EFirst m        a new connection's first message (it is given the next unique name),
       ESend c m       a further message of connection c,
       EDisconnect c   connection c is lost,
   where m is an arbitrary message: any of the four types, any header fields - including
   whatever the originator wrote in the SENDER field -, any body bytes, either byte order.
   [step s e] is one event from state s; its output lists the messages written to each
   connection's transport, in order: [fwds] the forwarded peer messages, [replies] the bus's
   own replies.  [srun h] / [sstep] is the specification of Spec/BusRouteSpec.v driven through
   the same history: the reference name table of C13 and the match rules held, and per event
   the list [owed] of (connection, message) that must be delivered.
   [origin st e] is the connection and message an event stands for (None for a disconnect,
   for a connection that is gone and for bytes that are no DBus message type), [at_delivery]
   the specification state when it is delivered (a new connection is live by then).

   Every statement is for EVERY history: any length, any number of connections, names and
   rules, any interleaving of the connections' messages. *)
From Tx Require Import Lib.Base Gen.Generated Model.BusNames Spec.NameSpec Model.BusRoute Spec.BusRouteSpec.
From Tx Require Import Proofs.BusNamesProofs Proofs.BusRouteProofs.
From Tx Require Model.Router Spec.MatchSpec Model.Message Proofs.MessageProofs.
Local Open Scope N_scope.

(* Step by step through any history, the peer messages the bus writes - to whom, what,
   in which order - are the ones the specification owes, each as _marshal writes it
   ([written]: the header fields of the message type's class table; the identity on
   messages consisting of those fields, see C14_unchanged). *)
Theorem C14_refines :
  forall h, Forall2 (fun o x => fwds o = as_written x) (snd (run h)) (snd (srun h)).
Proof. exact refines. Qed.

(* "after a history h, the event e" is what a history containing e at that place shows *)
Theorem C14_trace_step :
  forall h1 e h2,
    snd (run (h1 ++ e :: h2)) =
    snd (run h1) ++ snd (step (fst (run h1)) e) :: snd (run_from (fst (step (fst (run h1)) e)) h2) /\
    snd (srun (h1 ++ e :: h2)) =
    snd (srun h1) ++ snd (sstep (fst (srun h1)) e) :: snd (srun_from (fst (sstep (fst (srun h1)) e)) h2).
Proof. exact trace_step. Qed.

(* Every connection gets a unique name that is never reused: the numbers given by
   clientConnected in a history are 1, 2, 3, ... in order - pairwise distinct, and so are
   the names ":1.k" made of them; the counter stands after the last one; every connection
   now live got its name in this history.  (A connection that disconnected keeps its number
   in [given]: NoDup says it is never given again.) *)
Theorem C14_unique_names_never_reused :
  forall h,
    let given := named_of (snd (run h)) in
    given = map (fun i => 1 + N.of_nat i) (seq 0 (length given)) /\
    b_next (r_bus (fst (run h))) = 1 + N.of_nat (length given) /\
    NoDup given /\ NoDup (map unique_name given) /\
    (forall c, In c (b_clients (r_bus (fst (run h)))) -> In c given).
Proof. exact names_never_reused. Qed.

(* the counter strictly increases when a name is given and never moves otherwise *)
Theorem C14_counter_increases :
  forall h e,
    let s := fst (run h) in
    match d_named (snd (step s e)) with
    | Some c => c = b_next (r_bus s) /\ b_next (r_bus (fst (step s e))) = c + 1
    | None => b_next (r_bus (fst (step s e))) = b_next (r_bus s)
    end.
Proof. exact counter_increases. Qed.

(* An addressed message (destination d, not the bus) is written exactly once, to the
   connection d denotes at that moment - the live connection with that unique name, or the
   owner of that well-known name in the reference table of C13 - and to nobody else; if d
   denotes nobody it is written to nobody. *)
Theorem C14_unicast_exactly_once :
  forall h e c m d,
    let s := fst (run h) in
    let st := fst (srun h) in
    origin st e = Some (c, m) -> dest_of m = Some d -> d <> bus_name ->
    (forall o, addressee (s_table (at_delivery st e)) d = Some o ->
               fwds (snd (step s e)) = [(o, written (stamped c m))] /\
               is_live (s_table (at_delivery st e)) o = true) /\
    (addressee (s_table (at_delivery st e)) d = None -> fwds (snd (step s e)) = []).
Proof. exact unicast_exactly_once. Qed.

(* Whatever is delivered - unicast or broadcast, to whomever - carries as sender the unique
   name of the connection it came from, whatever the originator wrote. *)
Theorem C14_sender_true :
  forall h e c m to m',
    origin (fst (srun h)) e = Some (c, m) -> In (to, m') (fwds (snd (step (fst (run h)) e))) ->
    g_sender m' = Some (unique_name c).
Proof. exact sender_true. Qed.

(* ... and is otherwise the message sent: byte order, type, flags byte, serial, destination,
   signature and the body bytes always; every header field, for a message consisting of the
   fields the DBus specification defines for its type ([conforming]) - the delivered message
   is then exactly [stamped c m], m with the sender replaced. *)
Theorem C14_unchanged :
  forall h e c m to m',
    origin (fst (srun h)) e = Some (c, m) -> In (to, m') (fwds (snd (step (fst (run h)) e))) ->
    (g_le m' = g_le m /\ g_type m' = g_type m /\ g_flags m' = g_flags m /\ g_serial m' = g_serial m /\
     g_destination m' = g_destination m /\ g_signature m' = g_signature m /\ g_body m' = g_body m /\
     g_args m' = g_args m /\ g_rs_signed m' = g_rs_signed m) /\
    (conforming m ->
     m' = stamped c m /\
     g_path m' = g_path m /\ g_interface m' = g_interface m /\ g_member m' = g_member m /\
     g_error_name m' = g_error_name m /\ g_reply_serial m' = g_reply_serial m).
Proof. exact unchanged. Qed.

(* Order.  What a connection d has received over a history is the concatenation, in the
   order the events happened, of what each event owed d; an event appends to what d has
   received and never inserts before it ... *)
Theorem C14_order :
  (forall h d,
     received_by d (flat_map fwds (snd (run h)))
     = flat_map (fun x => received_by d (as_written x)) (snd (srun h))) /\
  (forall h e d,
     received_by d (flat_map fwds (snd (run (h ++ [e]))))
     = received_by d (flat_map fwds (snd (run h))) ++ received_by d (fwds (snd (step (fst (run h)) e)))).
Proof. exact (conj order_concat order_append). Qed.

(* ... so two messages delivered to d by an earlier and a later event (from one sender in
   particular) arrive in the order sent. *)
Theorem C14_order_pair :
  forall h1 e1 h2 e2 d (x1 x2 : bmsg),
    In x1 (received_by d (fwds (snd (step (fst (run h1)) e1)))) ->
    In x2 (received_by d (fwds (snd (step (fst (run (h1 ++ e1 :: h2))) e2)))) ->
    exists l1 l2 l3,
      received_by d (flat_map fwds (snd (run (h1 ++ e1 :: h2 ++ [e2])))) = l1 ++ x1 :: l2 ++ x2 :: l3.
Proof. exact order_pair. Qed.

(* A message addressed to org.freedesktop.DBus - of any type - is forwarded to nobody, also
   not to a connection that acquired that name or holds a matching rule; a method call among
   them that expects a reply is answered by the bus: exactly one reply, to the caller,
   carrying the call's serial. *)
Theorem C14_bus_addressed_not_forwarded :
  forall h e c m,
    let s := fst (run h) in
    origin (fst (srun h)) e = Some (c, m) -> to_bus m = true ->
    fwds (snd (step s e)) = [] /\
    (expects_answer m = true -> replies (snd (step s e)) = [(c, g_serial m)]).
Proof. exact bus_addressed_not_forwarded. Qed.

(* A message without destination - a broadcast signal in particular - is written to exactly
   the connections holding a rule it satisfies (MatchSpec.matches, the specification of C12;
   once per such rule), and every holder is a live connection. *)
Theorem C14_broadcast_iff_rule :
  forall h e c m,
    let s := fst (run h) in
    let st := fst (srun h) in
    origin st e = Some (c, m) -> dest_of m = None ->
    fwds (snd (step s e))
    = flat_map (fun hr => if MatchSpec.matches (snd hr) (view (stamped c m))
                          then [(fst hr, written (stamped c m))] else []) (s_held st) /\
    (forall x, In x (map fst (fwds (snd (step s e)))) <->
               exists r, In (x, r) (s_held st) /\ MatchSpec.matches r (view (stamped c m)) = true) /\
    (forall x r, In (x, r) (s_held st) -> is_live (s_table (at_delivery st e)) x = true).
Proof. exact broadcast_iff_rule. Qed.

(* Tie to the source tables (regenerated from the tree under test on every run): the class
   tables of message.py that decide which header fields _marshal writes are the model's, and
   every message type carries destination (6), sender (7) and signature (8). *)
Theorem C14_tables_from_source :
  MessageProofs.gen_rows hattrs_MethodCallMessage = Some (MessageProofs.hattr_rows 1) /\
  MessageProofs.gen_rows hattrs_MethodReturnMessage = Some (MessageProofs.hattr_rows 2) /\
  MessageProofs.gen_rows hattrs_ErrorMessage = Some (MessageProofs.hattr_rows 3) /\
  MessageProofs.gen_rows hattrs_SignalMessage = Some (MessageProofs.hattr_rows 4) /\
  map (fun t => map Message.attr_code (Message.hattrs t)) [1; 2; 3; 4]
  = [[1; 2; 3; 6; 7; 8]; [5; 6; 7; 8]; [4; 5; 6; 7; 8]; [1; 2; 3; 6; 7; 8]].
Proof.
  pose proof MessageProofs.c03_tables_from_source as T.
  split; [apply T | split; [apply T | split; [apply T | split; [apply T | exact class_fields]]]].
Qed.

(* ---- the tree before the repairs --------------------------------------------------------------- *)
(* D24: with connection 3 holding the rule type='signal', a signal from 1 addressed to :1.2
   was written to 2 AND 3 (now: to 2 only, as :1.1 although 1 wrote :1.3 as its sender). *)
Theorem C14_unicast_exactly_once_legacy_refuted :
  map fst (fwds (snd (step_legacy (fst (run_legacy w_rule3)) (ESend 1 (w_sig (Some (u 2)) (Some (u 3)) 9))))) = [2; 3] /\
  fwds (snd (step (fst (run w_rule3)) (ESend 1 (w_sig (Some (u 2)) (Some (u 3)) 9))))
  = [(2, stamped 1 (w_sig (Some (u 2)) (Some (u 3)) 9))].
Proof. exact legacy_d24. Qed.

(* ... and a signal addressed to the bus itself was written to 3 *)
Theorem C14_bus_addressed_legacy_refuted :
  map fst (fwds (snd (step_legacy (fst (run_legacy w_rule3)) (ESend 1 (w_sig (Some bus_name) None 9))))) = [3] /\
  fwds (snd (step (fst (run w_rule3)) (ESend 1 (w_sig (Some bus_name) None 9)))) = [].
Proof. exact legacy_bus_addressed. Qed.

(* D50: after connection 3 was lost (live: 1 and 2) a broadcast was still written to it *)
Theorem C14_broadcast_legacy_refuted :
  b_clients (r_bus (fst (run_legacy (w_rule3 ++ [EDisconnect 3])))) = [1; 2] /\
  map fst (fwds (snd (step_legacy (fst (run_legacy (w_rule3 ++ [EDisconnect 3]))) (ESend 1 (w_sig None None 9))))) = [3] /\
  fwds (snd (step (fst (run (w_rule3 ++ [EDisconnect 3]))) (ESend 1 (w_sig None None 9)))) = [].
Proof. exact legacy_d50. Qed.

(* D25, D53: the body was encoded again from decoded values - a variant holding UINT32 7
   arrived holding INT32 7; a big-endian message arrived little-endian and its flags byte 4
   as 0; REPLY_SERIAL 7 arrived as INT32, and with REPLY_SERIAL 2^31 nothing arrived (the
   exception escaped and dropped the sender's connection).  Now each arrives as sent. *)
Theorem C14_unchanged_legacy_refuted :
  (map (fun x => g_body (snd x)) (fwds (snd (step_legacy (fst (run_legacy w_three)) (ESend 1 w_var))))
     = [[1; 105; 0; 0; 7; 0; 0; 0]] /\
   map (fun x => (g_le (snd x), g_flags (snd x), g_body (snd x)))
       (fwds (snd (step_legacy (fst (run_legacy w_three)) (ESend 1 w_be)))) = [(true, 0, [7; 0; 0; 0])] /\
   map (fun x => g_rs_signed (snd x)) (fwds (snd (step_legacy (fst (run_legacy w_three)) (ESend 1 (w_ret 7))))) = [true] /\
   snd (step_legacy (fst (run_legacy w_three)) (ESend 1 (w_ret 2147483648))) = mkROut None [] true) /\
  (fwds (snd (step (fst (run w_three)) (ESend 1 w_var))) = [(2, stamped 1 w_var)] /\
   fwds (snd (step (fst (run w_three)) (ESend 1 w_be))) = [(2, stamped 1 w_be)] /\
   fwds (snd (step (fst (run w_three)) (ESend 1 (w_ret 2147483648)))) = [(2, stamped 1 (w_ret 2147483648))]).
Proof. exact (conj legacy_d25 repaired_d25). Qed.

(* ---- non-vacuity ---------------------------------------------------------------------------------------- *)
(* Four connections; 2 owns a.b, 3 and 4 hold rules; 1 sends a signal to a.b claiming to be
   :1.3 (written once, to 2, as :1.1), then a broadcast (written to 3 and 4); 2 disconnects;
   a.b then denotes nobody and the same signal is written to nobody; a fifth connection's
   first message, addressed to its own future name :1.5, is delivered to itself. *)
Example C14_history :
  let h := [EFirst w_hello; EFirst w_hello; EFirst w_hello; EFirst w_hello;
            ESend 2 (w_req n_ab 0); ESend 3 (w_add t_signal); ESend 4 (w_add t_signal)] in
  let to_ab := w_sig (Some n_ab) (Some (u 3)) 9 in
  let bcast := w_sig None (Some (u 3)) 10 in
  let st := fst (srun h) in
  origin st (ESend 1 to_ab) = Some (1, to_ab) /\ dest_of to_ab = Some n_ab /\ n_ab <> bus_name /\
  addressee (s_table st) n_ab = Some 2 /\ conforming to_ab /\
  fwds (snd (step (fst (run h)) (ESend 1 to_ab))) = [(2, stamped 1 to_ab)] /\
  g_sender (stamped 1 to_ab) = Some (u 1) /\
  dest_of bcast = None /\ map fst (s_held st) = [3; 4] /\
  fwds (snd (step (fst (run h)) (ESend 1 bcast))) = [(3, stamped 1 bcast); (4, stamped 1 bcast)] /\
  addressee (s_table (fst (srun (h ++ [EDisconnect 2])))) n_ab = None /\
  fwds (snd (step (fst (run (h ++ [EDisconnect 2]))) (ESend 1 to_ab))) = [] /\
  origin st (EFirst (w_sig (Some (u 5)) None 11)) = Some (5, w_sig (Some (u 5)) None 11) /\
  fwds (snd (step (fst (run h)) (EFirst (w_sig (Some (u 5)) None 11)))) = [(5, stamped 5 (w_sig (Some (u 5)) None 11))] /\
  named_of (snd (run (h ++ [EDisconnect 2; EFirst w_hello]))) = [1; 2; 3; 4; 5].
Proof.
  vm_compute. repeat split; try reflexivity.
  - discriminate.
  - left. split; [right; reflexivity | split; reflexivity].
Qed.

(* the hypotheses of C14_bus_addressed_not_forwarded and C14_order_pair are met: a RequestName
   call is answered once with its serial; two signals from 1 to :1.2 arrive in the order sent *)
Example C14_hypotheses_inhabited :
  let h := w_three in
  origin (fst (srun h)) (ESend 1 (w_req n_ab 0)) = Some (1, w_req n_ab 0) /\
  to_bus (w_req n_ab 0) = true /\ expects_answer (w_req n_ab 0) = true /\
  replies (snd (step (fst (run h)) (ESend 1 (w_req n_ab 0)))) = [(1, 3)] /\
  let e1 := ESend 1 (w_sig (Some (u 2)) None 21) in
  let e2 := ESend 1 (w_sig (Some (u 2)) None 22) in
  In (stamped 1 (w_sig (Some (u 2)) None 21)) (received_by 2 (fwds (snd (step (fst (run h)) e1)))) /\
  In (stamped 1 (w_sig (Some (u 2)) None 22)) (received_by 2 (fwds (snd (step (fst (run (h ++ e1 :: [ESend 3 w_hello]))) e2)))) /\
  received_by 2 (flat_map fwds (snd (run (h ++ e1 :: [ESend 3 w_hello] ++ [e2]))))
  = [stamped 1 (w_sig (Some (u 2)) None 21); stamped 1 (w_sig (Some (u 2)) None 22)].
Proof. vm_compute. repeat split; try reflexivity; left; reflexivity. Qed.
