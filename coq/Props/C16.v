(* C16 - The exported-object tree seen remotely is exactly what was exported.
   Statements only; proofs are in Proofs/ObjTreeProofs.v.

   Model (Model/ObjTree.v): object paths are strings, `run h` is the
   handler's `exports` dict after the history h of exportObject /
   unexportObject calls, `handle c q s` the reply to a call of kind c
   (ordinary member / Introspect / GetManagedObjects) at path q,
   `snd (step s e)` what the call e hands to sendMessage (or the exception).
   Specification (Spec/PathTree.v): paths are lists of elements, the tree is
   a partial map changed by export / unexport; `tree_of h` is that tree
   after the same history with every path read as its element list
   (Model/OpsC16.v: abs_event, tree_of; `render` is the text of a path).

   Every theorem quantifies over the type P of property dictionaries, over
   ALL histories h whose paths are well-formed object paths (any length, any
   path set, re-exports and unexports of absent paths included) and over all
   well-formed query paths q. *)
From Tx Require Import Lib.Base.
From Tx Require Import Model.Validators.
From Tx Require Import Model.ObjTree.
From Tx Require Import Spec.PathTree.
From Tx Require Import Model.OpsC16.
From Tx Require Import Proofs.ObjTreeProofs.

(* The table is the tree: a path is a key of `exports` iff it is bound in the
   specification's tree, to the same object, and every key is the text of
   the path of the object stored under it. *)
Theorem C16_exports_exact :
  forall (P : Type) (h : list (event P)),
    valid_history P h ->
    (forall q, validate_path q = true ->
               alist_get str_eqb q (run h) = tree_of P h (comps q)) /\
    (forall k o, In (k, o) (run h) ->
                 validate_path k = true /\ o_path o = k /\ tree_of P h (comps k) = Some o) /\
    (forall K o, tree_of P h K = Some o -> In (render K, o) (run h)).
Proof. exact table_exact. Qed.

(* An ordinary call or GetManagedObjects is answered UnknownObject iff the
   path is not currently exported; Introspect iff the path has neither an
   object nor a descendant; an ordinary call at an exported path reaches the
   object exported there last. *)
Theorem C16_unknown_object_iff :
  forall (P : Type) (h : list (event P)) (q : str),
    valid_history P h -> validate_path q = true ->
    (forall c, handle c q (run h) = RUnknownObject <->
               match c with
               | CIntrospect => ~ introspectable (tree_of P h) (comps q)
               | _ => ~ bound (tree_of P h) (comps q)
               end) /\
    (forall o, tree_of P h (comps q) = Some o -> handle CPlain q (run h) = RDispatch o).
Proof. exact unknown_object_iff. Qed.

(* Introspect at q fails (UnknownObject) when q has neither object nor
   descendants; otherwise the XML lists, without repetition, exactly the
   first elements below q of the exported paths strictly beneath q, and
   carries interface descriptions iff an object is exported at q. *)
Theorem C16_children_exact :
  forall (P : Type) (h : list (event P)) (q : str),
    valid_history P h -> validate_path q = true ->
    (handle CIntrospect q (run h) = RUnknownObject /\ ~ introspectable (tree_of P h) (comps q)) \/
    (exists b m, handle CIntrospect q (run h) = RIntrospect b m /\
                 introspectable (tree_of P h) (comps q) /\
                 NoDup m /\
                 (forall c, In c m <-> child_of (tree_of P h) (comps q) c) /\
                 (b = true <-> bound (tree_of P h) (comps q))).
Proof. exact children_exact. Qed.

(* GetManagedObjects at an exported path q returns a dictionary with
   distinct keys, containing exactly the texts of the exported paths
   strictly beneath q, each with the interface dictionary of the object
   exported there. *)
Theorem C16_managed_exact :
  forall (P : Type) (h : list (event P)) (q : str) (o : obj P),
    valid_history P h -> validate_path q = true -> tree_of P h (comps q) = Some o ->
    exists d, handle CManaged q (run h) = RManaged d /\
              NoDup (map fst d) /\
              forall k i, In (k, i) d <->
                          exists K o', k = render K /\
                                       managed_by (tree_of P h) (comps q) K o' /\
                                       i = iface_dict o'.
Proof. exact managed_exact. Qed.

(* ... where the interface dictionary of an object has one entry per
   interface name of the object, each with a property dictionary the object
   gave for that name (exactly the object's list when the names are
   distinct). *)
Theorem C16_interfaces_exact :
  forall (P : Type) (o : obj P), ifaces_ok (iface_dict o) (o_ifaces o).
Proof. exact iface_dict_ok. Qed.

(* After any history, an export sends exactly one InterfacesAdded naming the
   object's path (header and body) and interface dictionary; an unexport of
   an exported path sends exactly one InterfacesRemoved naming the path and
   the interface names of the object that was exported there; an unexport of
   a path that is not exported sends nothing and raises KeyError. *)
Theorem C16_signals :
  forall (P : Type) (h : list (event P)) (e : event P),
    valid_history P h -> valid_event P e ->
    snd (step (run h) e) =
    match s_announce (tree_of P h) (abs_event P e) with
    | Some (Added K o) => Ok (SigAdded (render K) (render K) (iface_dict o))
    | Some (Removed K o) => Ok (SigRemoved (render K) (render K) (map fst (o_ifaces o)))
    | None => Err EKey
    end.
Proof. exact signals_exact. Qed.

(* The executable form of the specification that the correspondence run uses
   as its oracle (x_children, x_introspectable, x_managed over any list of
   paths containing those mentioned by the history) coincides with the
   declarative notions used above. *)
Theorem C16_oracle_executable :
  forall (P : Type) (h : list (event P)) (dom : list path) (p : path),
    (forall e, In e h -> In (sevent_path (abs_event P e)) dom) ->
    let t := tree_of P h in
    (forall c, In c (x_children t dom p) <-> child_of t p c) /\
    NoDup (x_children t dom p) /\
    (x_introspectable t dom p = true <-> introspectable t p) /\
    (forall K o, In (K, o) (x_managed t dom p) <-> managed_by t p K o) /\
    NoDup (map fst (x_managed t dom p)).
Proof. exact oracle_executable. Qed.

(* The code of the pinned commit did not satisfy C16_managed_exact (defect
   D14): with /a/b and /a/bc exported, GetManagedObjects at /a/b reported
   /a/bc, which is not beneath /a/b; the repaired code reports nothing. *)
Theorem C16_managed_legacy_refuted :
  let h := [EExport (w_obj 0 w_ab); EExport (w_obj 1 w_abc)] in
  valid_history nat h /\ validate_path w_ab = true /\ validate_path w_abc = true /\
  handle_legacy CManaged w_ab (run h) = RManaged [(w_abc, [(w_if, 7%nat)])] /\
  ~ strictly_beneath (comps w_ab) (comps w_abc) /\
  handle CManaged w_ab (run h) = RManaged [].
Proof. exact managed_legacy_refuted_w. Qed.

(* Nor C16_children_exact (defect D29): with the root path exported,
   Introspect at "/" listed a child node with the empty name. *)
Theorem C16_children_legacy_refuted :
  let h := [EExport (w_obj 0 w_root)] in
  valid_history nat h /\ validate_path w_root = true /\
  handle_legacy CIntrospect w_root (run h) = RIntrospect true [[]] /\
  ~ child_of (tree_of nat h) (comps w_root) [] /\
  handle CIntrospect w_root (run h) = RIntrospect true [].
Proof. exact children_legacy_refuted_w. Qed.

(* Non-vacuity: a well-formed history (root, /a/b, /a/bc, /a/b/c exported,
   /a/b re-exported with another object, /a/bc unexported, unexport of the
   absent /zz) and what the model answers after it. *)
Example C16_nonvacuous :
  let h := [EExport (w_obj 0 w_root); EExport (w_obj 1 w_ab); EExport (w_obj 2 w_abc);
            EExport (w_obj 3 w_ab_c); EExport (w_obj 4 w_ab); EUnexport w_abc; EUnexport w_zz] in
  valid_history nat h /\
  tree_of nat h (comps w_ab) = Some (w_obj 4 w_ab) /\
  handle CPlain w_ab (run h) = RDispatch (w_obj 4 w_ab) /\
  handle CPlain w_abc (run h) = RUnknownObject /\
  handle CIntrospect w_a (run h) = RIntrospect false [[98%N]] /\
  handle CIntrospect w_root (run h) = RIntrospect true [[97%N]] /\
  handle CIntrospect w_zz (run h) = RUnknownObject /\
  handle CManaged w_ab (run h) = RManaged [(w_ab_c, [(w_if, 7%nat)])] /\
  handle CManaged w_a (run h) = RUnknownObject /\
  snd (step (run h) (EUnexport w_ab)) = Ok (SigRemoved w_ab w_ab [w_if]) /\
  snd (step (run h) (EUnexport w_abc)) = Err EKey /\
  snd (step (run h) (EExport (w_obj 5 w_a))) = Ok (SigAdded w_a w_a [(w_if, 7%nat)]).
Proof. exact nonvacuous_w. Qed.
