(* C07 - The client speaks DBus only after the server's OK and never stalls in
   the handshake.  Statements only; proofs are in Proofs/AuthClient*.v.

   [session_observed user lookup nonce sha1hex unix lines] is what the faithful
   model of txdbus's client side (Model/AuthClient.v: ClientAuthenticator inside
   BasicDBusProtocol, line mode) does when the server sends [lines], as the pair
   (events on connecting, per received line the events it caused);
   [session_trace ...] is the same flattened in order:  Rx l  a line received,
   Tx l  a line sent,  TxRaw b  other bytes sent,  Closed  loseConnection,
   Binary  the switch to binary messages (connectionAuthenticated).

   Every statement is for EVERY sequence of server lines (arbitrary byte
   strings), both transport kinds, every user name, every behaviour of the
   cookie keyring [lookup], every source of client challenges [nonce] and every
   hash function [sha1hex].  The predicates ok_line, fd_answer_line,
   outside_protocol, offers, moved_on, session_verdict and the reference server
   are the specification's (Spec/AuthClientSpec.v). *)
From Tx Require Import Lib.Base Lib.Sexp Gen.Generated.
From Tx Require Import Model.AuthClient Spec.AuthClientSpec Model.AuthClientLoop.
From Tx Require Import Proofs.AuthClientSpecLemmas Proofs.AuthClientProofs Proofs.AuthClientLiveProofs.
From Tx Require Import Proofs.AuthClientLiveNoCookieProofs.
Local Open Scope N_scope.

(* The model's constants are those of the tree under test (regenerated on every
   run): the preference list, the command words that have a handler, the line
   limit; and the specification's line limit is the same number. *)
Theorem C07_tables :
  Generated.client_preference = Some preference /\
  Generated.client_auth_commands = Some [s_AGREE_UNIX_FD; s_DATA; s_ERROR; s_OK; s_REJECTED] /\
  Generated.MAX_AUTH_LENGTH = Some max_auth_length /\
  line_limit = max_auth_length /\
  Generated.auth_delimiter = Some [13; 10].
Proof. repeat split; reflexivity. Qed.

(* BEGIN is sent only after an OK carrying a valid hexadecimal GUID was
   received AND STILL STANDS - no REJECTED line was received between that OK and
   the BEGIN (REJECTED withdraws the OK) - and on a UNIX transport only after,
   later than that OK and while it stands, the server answered the descriptor
   negotiation with AGREE_UNIX_FD or ERROR. *)
Theorem C07_begin_only_after_ok :
  forall user lookup nonce sha1hex unix lines pre post,
    session_trace user lookup nonce sha1hex unix lines = pre ++ Tx w_BEGIN :: post ->
    exists p1 l p2, pre = p1 ++ Rx l :: p2 /\ ok_line l = true /\
      (forall r, In (Rx r) p2 -> str_eqb (word r) w_REJECTED = false) /\
      (unix = true -> exists l', In (Rx l') p2 /\ fd_answer_line l' = true).
Proof. exact begin_only_after_ok. Qed.

(* ... and it switches to binary messages only after it has sent BEGIN. *)
Theorem C07_binary_only_after_begin :
  forall user lookup nonce sha1hex unix lines pre post,
    session_trace user lookup nonce sha1hex unix lines = pre ++ Binary :: post ->
    In (Tx w_BEGIN) pre.
Proof. exact binary_only_after_begin. Qed.

(* The mechanisms named in the AUTH lines it sends, in order, are an initial
   segment of the preference list of the tree under test, without repetition;
   it opens with the NUL byte and an offer of the first mechanism. *)
Theorem C07_offers_in_order_once :
  forall pref, Generated.client_preference = Some pref ->
  forall user lookup nonce sha1hex unix lines,
    (exists rest, pref = offers (session_trace user lookup nonce sha1hex unix lines) ++ rest) /\
    NoDup (offers (session_trace user lookup nonce sha1hex unix lines)) /\
    (exists l, fst (session_observed user lookup nonce sha1hex unix lines) = [TxRaw [0]; Tx l] /\
               offer_of l = hd_error pref).
Proof.
  intros pref E. injection E as <-. intros user lookup nonce sha1hex unix lines.
  destruct (offers_prefix_once user lookup nonce sha1hex unix lines) as [P N].
  split; [exact P|]. split; [exact N|]. apply opening.
Qed.

(* No stall, no loop.  Take any received line l and what the client did in
   response (resp), with everything observed before it (before).
   While the handshake is open the client answers every line - by one line at
   most, or by closing; a line outside the protocol is answered by closing;
   REJECTED (and ERROR, unless it is the answer to the descriptor negotiation
   that is followed by BEGIN) makes it offer the next mechanism of the list,
   or close when none is left.  Once it has closed or authenticated it does
   nothing more.  In all it sends at most one line more than it receives. *)
Theorem C07_never_loops :
  forall user lookup nonce sha1hex unix lines,
    (length (sent_lines (session_trace user lookup nonce sha1hex unix lines)) <= length lines + 1)%nat /\
    forall xs1 l resp xs2,
      snd (session_observed user lookup nonce sha1hex unix lines) = xs1 ++ (l, resp) :: xs2 ->
      let before := fst (session_observed user lookup nonce sha1hex unix lines) ++ flat xs1 in
      (live before = false -> resp = []) /\
      (live before = true ->
         resp <> [] /\
         (length (sent_lines resp) <= 1)%nat /\
         (outside_protocol before l = true -> In Closed resp) /\
         (outside_protocol before l = false -> word l = w_REJECTED -> moved_on preference before resp = true) /\
         (outside_protocol before l = false -> word l = w_ERROR ->
            moved_on preference before resp = true \/ resp = [Tx w_BEGIN; Binary])).
Proof.
  intros user lookup nonce sha1hex unix lines. split.
  - apply sent_bound.
  - apply each_exchange.
Qed.

(* The decidable judgement with which harness/c07.py judges the sessions of the
   IMPLEMENTATION is favourable for every session of the model (0 = no clause
   fails); the three theorems above are consequences of it. *)
Theorem C07_session_favourable :
  forall user lookup nonce sha1hex unix lines,
    session_verdict preference unix
      (fst (session_observed user lookup nonce sha1hex unix lines))
      (snd (session_observed user lookup nonce sha1hex unix lines)) = 0.
Proof. exact obs_favourable. Qed.

(* Against the DBus specification's server - for each of the 7 non-empty sets of
   accepted mechanisms, both answers to NEGOTIATE_UNIX_FD, both EXTERNAL styles
   (28 configurations, all_cfgs), on both transports - the handshake completes
   within 40 deliveries: the client has switched to binary, the server has
   received BEGIN, nothing is in flight, nobody closed.  The keyring holds the
   server's cookie (shared_keyring); user name, client challenges and the hash
   function are arbitrary (hash values and challenges being byte strings without
   a space, as hex digests are). *)
Theorem C07_completes :
  forall user nonce sha1hex,
    (forall k, wire_token (nonce k)) -> (forall x, wire_token (sha1hex x)) ->
    forall cfg unix, In cfg all_cfgs ->
      completed (handshake user sha1hex (handle user shared_keyring nonce sha1hex) cfg unix 40) = true.
Proof. exact completes. Qed.

(* The same when the client's keyring CANNOT answer the server's cookie challenge:
   looking up the server's (context, id) raises (no keyring directory, a directory
   the client must not use, no such context file) or finds no such id - anything
   but a cookie.  The client answers the challenge with ERROR, is REJECTED and goes
   on to the next mechanism.  For every configuration of the reference server whose
   accepted set is not exactly [DBUS_COOKIE_SHA1] (24 of the 28), on both
   transports, the handshake still completes within 40 deliveries.  User name,
   client challenges and hash function are arbitrary (no hypothesis on them is
   needed: the server never gets a response to check). *)
Theorem C07_completes_without_cookie :
  forall user lookup nonce sha1hex,
    (forall c, lookup srv_ctx srv_cookie_id <> LCookie c) ->
    forall cfg unix, In cfg all_cfgs -> accepted cfg <> [m_DBUS_COOKIE_SHA1] ->
      completed (handshake user sha1hex (handle user lookup nonce sha1hex) cfg unix 40) = true.
Proof. exact completes_without_cookie. Qed.

(* ... and against a server that accepts DBUS_COOKIE_SHA1 only (the other 4
   configurations) such a client cannot authenticate; it does not hang: after 40
   deliveries it has closed the connection without authenticating, the server has
   seen the connection drop, nothing is in flight (gave_up) and the run is over
   (a further step changes nothing). *)
Theorem C07_gives_up_without_cookie :
  forall user lookup nonce sha1hex,
    (forall c, lookup srv_ctx srv_cookie_id <> LCookie c) ->
    forall cfg unix, In cfg all_cfgs -> accepted cfg = [m_DBUS_COOKIE_SHA1] ->
      let y := handshake user sha1hex (handle user lookup nonce sha1hex) cfg unix 40 in
      completed y = false /\ gave_up y = true /\
      sys_step sha1hex (handle user lookup nonce sha1hex) cfg y = y.
Proof. exact gives_up_without_cookie. Qed.

(* ---- the tree before the repairs (Model: *_legacy) -------------------------- *)
Definition no_user : bytes := [].
Definition no_nonce : nat -> bytes := fun _ => [].
Definition no_sha : bytes -> bytes := fun _ => [].

(* D05: on a UNIX transport a first line AGREE_UNIX_FD makes the client send
   BEGIN and switch to binary although no OK was ever received. *)
Theorem C07_begin_only_after_ok_legacy_refuted :
  exists lines pre post,
    session_trace_legacy no_user no_nonce no_sha true lines = pre ++ Tx w_BEGIN :: post /\
    forall l, In (Rx l) pre -> ok_line l = false.
Proof.
  exists [w_AGREE_UNIX_FD], [TxRaw [0]; Tx (s_AUTH_ ++ s_EXTERNAL); Rx w_AGREE_UNIX_FD], [Binary].
  split; [reflexivity|].
  intros l [H|[H|[H|H]]]; try discriminate; [|contradiction].
  injection H as <-. reflexivity.
Qed.

(* D08: REJECTED, REJECTED, DATA - the challenge sent while ANONYMOUS is being
   tried is not answered at all and the connection stays open: a stall. *)
Theorem C07_never_loops_legacy_refuted :
  exists lines xs1 l xs2,
    snd (session_observed_legacy no_user no_nonce no_sha false lines) = xs1 ++ (l, []) :: xs2 /\
    live (fst (session_observed_legacy no_user no_nonce no_sha false lines) ++ flat xs1) = true.
Proof.
  exists [w_REJECTED; w_REJECTED; w_DATA].
  eexists [_; _], w_DATA, []. split; vm_compute; reflexivity.
Qed.

(* D06: the server answers NEGOTIATE_UNIX_FD with ERROR - the client starts the
   next mechanism instead of BEGIN and the handshake never completes;
   D07: the server accepts only DBUS_COOKIE_SHA1 - the cookie lookup always
   fails on the attribute name, the client answers ERROR, is rejected, fails. *)
Theorem C07_completes_legacy_refuted :
  (exists cfg, In cfg all_cfgs /\ accepted cfg = [m_EXTERNAL] /\ agrees_fd cfg = false /\
     completed (handshake no_user no_sha (handle_legacy no_user no_nonce no_sha) cfg true 40) = false) /\
  (exists cfg, In cfg all_cfgs /\ accepted cfg = [m_DBUS_COOKIE_SHA1] /\
     completed (handshake no_user no_sha (handle_legacy no_user no_nonce no_sha) cfg false 40) = false).
Proof.
  split.
  - exists (mk_cfg [m_EXTERNAL] false true). repeat split; vm_compute; auto 10.
  - exists (mk_cfg [m_DBUS_COOKIE_SHA1] true true). repeat split; vm_compute; auto 10.
Qed.

(* ---- non-vacuity -------------------------------------------------------------- *)
Definition ex_ok : bytes := w_OK ++ 32 :: srv_guid.                              (* OK 1234deadbeef *)

(* a UNIX-transport session that reaches BEGIN through OK and ERROR; the hypotheses
   of C07_begin_only_after_ok are met with pre non-empty, and its conclusion's
   witnesses are the OK line and the ERROR line *)
Example C07_unix_begin :
  session_trace no_user (fun _ _ => LRaised) no_nonce no_sha true [w_REJECTED; ex_ok; w_ERROR] =
    [TxRaw [0]; Tx (s_AUTH_ ++ s_EXTERNAL);
     Rx w_REJECTED; Tx (s_AUTH_ ++ s_COOKIE ++ [32]);
     Rx ex_ok; Tx w_NEGOTIATE_UNIX_FD;
     Rx w_ERROR; Tx w_BEGIN; Binary] /\
  ok_line ex_ok = true /\ fd_answer_line w_ERROR = true.
Proof. vm_compute. repeat split; reflexivity. Qed.

(* The OK must stand (non-vacuity of the REJECTED clause of [advance]).  On a UNIX
   transport the server sends  OK <guid>, REJECTED, then ERROR (or AGREE_UNIX_FD).
   A client that answers the third line with BEGIN - as txdbus does when
   authTryNextMethod no longer resets unixFDNegotiating (seeded change C07-11) -
   is judged 8 (BEGIN without a standing OK), and by that clause alone: its offers
   are in order and every single exchange is judged favourably.  The model of the
   tree under test, on the same three lines, offers the next mechanism after ERROR
   (and closes on the stray AGREE_UNIX_FD); its sessions are judged 0. *)
Definition ex_withdrawn_init : list ev := [TxRaw [0]; Tx (s_AUTH_ ++ s_EXTERNAL)].
Definition ex_withdrawn (last : bytes) : list exchange :=
  [ (ex_ok, [Tx w_NEGOTIATE_UNIX_FD]);
    (w_REJECTED, [Tx (s_AUTH_ ++ s_COOKIE ++ [32])]);
    (last, [Tx w_BEGIN; Binary]) ].

Example C07_withdrawn_ok_refused :
  session_verdict preference true ex_withdrawn_init (ex_withdrawn w_ERROR) = 8 /\
  session_verdict preference true ex_withdrawn_init (ex_withdrawn w_AGREE_UNIX_FD) = 8 /\
  offers_in_order preference (trace ex_withdrawn_init (ex_withdrawn w_ERROR)) = true /\
  exchanges_verdict preference ex_withdrawn_init (ex_withdrawn w_ERROR) = 0 /\
  exchanges_verdict preference ex_withdrawn_init (ex_withdrawn w_AGREE_UNIX_FD) = 0 /\
  session_observed no_user (fun _ _ => LRaised) no_nonce no_sha true [ex_ok; w_REJECTED; w_ERROR] =
    (ex_withdrawn_init,
     [ (ex_ok, [Tx w_NEGOTIATE_UNIX_FD]);
       (w_REJECTED, [Tx (s_AUTH_ ++ s_COOKIE ++ [32])]);
       (w_ERROR, [Tx (s_AUTH_ ++ s_ANONYMOUS ++ [32] ++ hexlify s_txdbus)]) ]) /\
  session_verdict preference true ex_withdrawn_init
    (snd (session_observed no_user (fun _ _ => LRaised) no_nonce no_sha true [ex_ok; w_REJECTED; w_ERROR])) = 0 /\
  snd (session_observed no_user (fun _ _ => LRaised) no_nonce no_sha true [ex_ok; w_REJECTED; w_AGREE_UNIX_FD]) =
     [ (ex_ok, [Tx w_NEGOTIATE_UNIX_FD]);
       (w_REJECTED, [Tx (s_AUTH_ ++ s_COOKIE ++ [32])]);
       (w_AGREE_UNIX_FD, [Closed]) ] /\
  (* a second OK after the REJECTED stands again: OK, REJECTED, OK, ERROR -> BEGIN is accepted *)
  session_verdict preference true ex_withdrawn_init
    [ (ex_ok, [Tx w_NEGOTIATE_UNIX_FD]);
      (w_REJECTED, [Tx (s_AUTH_ ++ s_COOKIE ++ [32])]);
      (ex_ok, [Tx w_NEGOTIATE_UNIX_FD]);
      (w_ERROR, [Tx w_BEGIN; Binary]) ] = 0.
Proof. vm_compute. repeat split; reflexivity. Qed.

(* all three mechanisms are offered in order, then the fourth REJECTED closes; a later
   line gets no reaction; a line outside the protocol closes at once *)
Example C07_exhaustion :
  offers (session_trace no_user (fun _ _ => LRaised) no_nonce no_sha false [w_REJECTED; w_ERROR; w_REJECTED; ex_ok])
    = preference /\
  snd (session_observed no_user (fun _ _ => LRaised) no_nonce no_sha false [w_REJECTED; w_ERROR; w_REJECTED; ex_ok])
    = [ (w_REJECTED, [Tx (s_AUTH_ ++ s_COOKIE ++ [32])]);
        (w_ERROR, [Tx (s_AUTH_ ++ s_ANONYMOUS ++ [32] ++ hexlify s_txdbus)]);
        (w_REJECTED, [Closed]); (ex_ok, []) ] /\
  snd (session_observed no_user (fun _ _ => LRaised) no_nonce no_sha true [w_AGREE_UNIX_FD; ex_ok])
    = [ (w_AGREE_UNIX_FD, [Closed]); (ex_ok, []) ] /\
  outside_protocol [TxRaw [0]; Tx (s_AUTH_ ++ s_EXTERNAL)] w_AGREE_UNIX_FD = true.
Proof. vm_compute. repeat split; reflexivity. Qed.

(* the hypotheses of C07_completes are satisfiable (any hash function with space-free
   outputs, a hex challenge as the client's nonce), and the run for the server that
   accepts only DBUS_COOKIE_SHA1 and refuses descriptor passing, on a UNIX transport,
   is not trivially short: after 4 deliveries it is not complete *)
Example C07_cookie_handshake :
  forall sha1hex, (forall x, wire_token (sha1hex x)) ->
    In (mk_cfg [m_DBUS_COOKIE_SHA1] false true) all_cfgs /\
    wire_token srv_challenge /\
    completed (handshake no_user sha1hex (handle no_user shared_keyring (fun _ => srv_challenge) sha1hex)
                 (mk_cfg [m_DBUS_COOKIE_SHA1] false true) true 40) = true /\
    completed (handshake no_user sha1hex (handle no_user shared_keyring (fun _ => srv_challenge) sha1hex)
                 (mk_cfg [m_DBUS_COOKIE_SHA1] false true) true 4) = false.
Proof.
  intros sha1hex H.
  assert (T : wire_token srv_challenge).
  { unfold wire_token, srv_challenge. repeat constructor; try discriminate. }
  split; [vm_compute; auto 20|]. split; [exact T|]. split.
  - apply C07_completes; [intros _; exact T | exact H | vm_compute; auto 20].
  - vm_compute. reflexivity.
Qed.

(* the hypotheses of C07_completes_without_cookie / C07_gives_up_without_cookie are
   met by the two keyrings of Model/AuthClientLoop.v (nothing can be looked up; the
   context file lacks the id) and by 24 resp. 4 configurations; the detour is
   real: against the server that accepts DBUS_COOKIE_SHA1 and ANONYMOUS the client
   answers the challenge with ERROR, is rejected, offers ANONYMOUS and gets through
   (not yet complete after 9 deliveries); with DBUS_COOKIE_SHA1 only it closes *)
Example C07_without_cookie_runs :
  (forall c, no_keyring srv_ctx srv_cookie_id <> LCookie c) /\
  (forall c, other_keyring srv_ctx srv_cookie_id <> LCookie c) /\
  length (filter (fun c => negb (cookie_only c)) all_cfgs) = 24%nat /\
  length (filter cookie_only all_cfgs) = 4%nat /\
  handshake_log no_user no_sha (handle no_user other_keyring no_nonce no_sha)
      (mk_cfg [m_DBUS_COOKIE_SHA1; m_ANONYMOUS] false true) true 40 =
    [TxRaw [0]; Tx (s_AUTH_ ++ s_EXTERNAL);
     Rx (w_REJECTED ++ 32 :: m_DBUS_COOKIE_SHA1 ++ 32 :: m_ANONYMOUS); Tx (s_AUTH_ ++ s_COOKIE ++ [32]);
     Rx (w_DATA ++ 32 :: hex_chars (srv_ctx ++ 32 :: srv_cookie_id ++ 32 :: srv_challenge)); Tx w_ERROR;
     Rx (w_REJECTED ++ 32 :: m_DBUS_COOKIE_SHA1 ++ 32 :: m_ANONYMOUS);
     Tx (s_AUTH_ ++ s_ANONYMOUS ++ [32] ++ hexlify s_txdbus);
     Rx ex_ok; Tx w_NEGOTIATE_UNIX_FD; Rx w_ERROR; Tx w_BEGIN; Binary] /\
  completed (handshake no_user no_sha (handle no_user other_keyring no_nonce no_sha)
               (mk_cfg [m_DBUS_COOKIE_SHA1; m_ANONYMOUS] false true) true 9) = false /\
  handshake_log no_user no_sha (handle no_user no_keyring no_nonce no_sha)
      (mk_cfg [m_DBUS_COOKIE_SHA1] true true) false 40 =
    [TxRaw [0]; Tx (s_AUTH_ ++ s_EXTERNAL);
     Rx (w_REJECTED ++ 32 :: m_DBUS_COOKIE_SHA1); Tx (s_AUTH_ ++ s_COOKIE ++ [32]);
     Rx (w_DATA ++ 32 :: hex_chars (srv_ctx ++ 32 :: srv_cookie_id ++ 32 :: srv_challenge)); Tx w_ERROR;
     Rx (w_REJECTED ++ 32 :: m_DBUS_COOKIE_SHA1);
     Tx (s_AUTH_ ++ s_ANONYMOUS ++ [32] ++ hexlify s_txdbus);
     Rx (w_REJECTED ++ 32 :: m_DBUS_COOKIE_SHA1); Closed].
Proof.
  split; [exact no_keyring_unanswerable|]. split; [exact other_keyring_unanswerable|].
  vm_compute. repeat split; reflexivity.
Qed.

(* ==== the same client on BYTES cut arbitrarily into reads ======================
   Model/Framing.v is the model of dataReceived on reads (C04), with the
   authenticator as a parameter.  [astep_client] makes the ClientAuthenticator
   model that parameter; [reads_run unix chunks] = Framing.run at that instance,
   client side, line limit MAX_AUTH_LENGTH: the callbacks (Line l, AuthOk, Msg raw,
   Close, Crash) and the unframed leftover for the reads [chunks];
   [reads_outs unix chunks] everything the client writes and does from connecting
   on; [stream_lines s] the lines of a byte stream (every CRLF-terminated line,
   and an unterminated remainder already longer than the limit plus one);
   [session_outs unix lines] the outputs of the line-level session of the
   statements above.  (Proofs/AuthClientFramingBridge.v, on top of C04's
   partition_independent, any_two_partitions and handshake_boundary.) *)
From Tx Require Model.Framing Spec.FramingSpec Proofs.FramingProofs.
From Tx Require Import Model.AuthClientReads Proofs.AuthClientFramingBridge.

(* However the server's byte stream is cut into reads, the client writes, closes
   and authenticates exactly as the line-level session on the stream's lines. *)
Theorem C07_reads_are_lines :
  forall user lookup nonce sha1hex unix (chunks : list bytes),
    reads_outs user lookup nonce sha1hex unix chunks =
    session_outs user lookup nonce sha1hex unix (stream_lines (concat chunks)).
Proof. exact reads_bridge. Qed.

(* Two cuttings of the same stream: the same lines reach the authenticator, the
   same messages are framed, the same bytes are left over, and the client writes
   the same bytes, closes or authenticates identically. *)
Theorem C07_cut_independent :
  forall user lookup nonce sha1hex unix (chunks1 chunks2 : list bytes),
    concat chunks1 = concat chunks2 ->
    reads_run user lookup nonce sha1hex unix chunks1 = reads_run user lookup nonce sha1hex unix chunks2 /\
    reads_outs user lookup nonce sha1hex unix chunks1 = reads_outs user lookup nonce sha1hex unix chunks2.
Proof. exact cut_independent. Qed.

(* The server's lines (none containing CRLF or over-long), the last of which
   completes the handshake in the line-level session, then ARBITRARY bytes [rest]
   - sharing the read with that line or not, containing CRLF or not, cut
   anywhere: each line reaches the authenticator, connectionAuthenticated runs,
   and [rest] is framed as binary messages exactly as it would be alone. *)
Theorem C07_handshake_tail_is_binary :
  forall user lookup nonce sha1hex unix (lines : list bytes) (rest : bytes) (chunks : list bytes),
    Forall (FramingSpec.good_line max_auth_length) lines ->
    auth_at_last (snd (session user lookup nonce sha1hex unix lines)) = true ->
    concat chunks = FramingSpec.hs_bytes true lines ++ rest ->
    reads_run user lookup nonce sha1hex unix chunks =
      (map Framing.Line lines ++ Framing.AuthOk :: fst (FramingSpec.frames_of rest),
       snd (FramingSpec.frames_of rest)).
Proof. exact handshake_tail_is_binary. Qed.

(* C07_begin_only_after_ok for arbitrary reads: the stream's lines are  a, the OK,
   a stretch b1 without REJECTED that (on a UNIX transport) holds the answer to
   the negotiation, and the rest b2. *)
Theorem C07_begin_only_after_ok_reads :
  forall user lookup nonce sha1hex unix (chunks : list bytes),
    In (Send w_BEGIN) (reads_outs user lookup nonce sha1hex unix chunks) ->
    exists a l b1 b2, stream_lines (concat chunks) = a ++ l :: b1 ++ b2 /\ ok_line l = true /\
      (forall r, In r b1 -> str_eqb (word r) w_REJECTED = false) /\
      (unix = true -> exists l', In l' b1 /\ fd_answer_line l' = true).
Proof. exact begin_only_after_standing_ok_reads. Qed.

(* C07_offers_in_order_once for arbitrary reads. *)
Theorem C07_offers_in_order_once_reads :
  forall user lookup nonce sha1hex unix (chunks : list bytes),
    (exists rest, preference = offers (map ev_of (reads_outs user lookup nonce sha1hex unix chunks)) ++ rest) /\
    NoDup (offers (map ev_of (reads_outs user lookup nonce sha1hex unix chunks))).
Proof. exact offers_in_order_once_reads. Qed.

(* C07_never_loops for arbitrary reads: at most one line more is written than the
   stream has lines; closing or switching to binary is the last thing the client
   does; and the line-level session that the reads amount to (C07_reads_are_lines)
   satisfies every clause of the judgement (answers every line while open, closes
   on what is outside the protocol, moves on after REJECTED / ERROR). *)
Theorem C07_never_loops_reads :
  forall user lookup nonce sha1hex unix (chunks : list bytes),
    (length (sent_lines (map ev_of (reads_outs user lookup nonce sha1hex unix chunks)))
       <= length (stream_lines (concat chunks)) + 1)%nat /\
    (forall pre x post, reads_outs user lookup nonce sha1hex unix chunks = pre ++ x :: post ->
       dead_out x = true -> post = []) /\
    session_verdict preference unix
      (fst (session_observed user lookup nonce sha1hex unix (stream_lines (concat chunks))))
      (snd (session_observed user lookup nonce sha1hex unix (stream_lines (concat chunks)))) = 0.
Proof. exact never_loops_reads. Qed.

(* ---- non-vacuity ---------------------------------------------------------------- *)
Definition ex_crlf (l : bytes) : bytes := l ++ [13; 10].
Definition ex_hs_stream : bytes := ex_crlf w_DATA ++ ex_crlf ex_ok ++ ex_crlf w_AGREE_UNIX_FD.

(* a full EXTERNAL handshake on a UNIX transport, delivered ONE BYTE PER READ (38
   reads), and the same in one read *)
Example C07_handshake_byte_by_byte :
  let bytewise := map (fun b => [b]) ex_hs_stream in
  length bytewise = 38%nat /\
  reads_outs no_user (fun _ _ => LRaised) no_nonce no_sha true bytewise =
    [Raw [0]; Send (s_AUTH_ ++ s_EXTERNAL); Send s_DATA; Send s_NEGOTIATE_UNIX_FD; Send s_BEGIN;
     Authd (Some [18; 52; 222; 173; 190; 239])] /\
  reads_run no_user (fun _ _ => LRaised) no_nonce no_sha true bytewise =
    ([Framing.Line w_DATA; Framing.Line ex_ok; Framing.Line w_AGREE_UNIX_FD; Framing.AuthOk], Some []) /\
  reads_run no_user (fun _ _ => LRaised) no_nonce no_sha true [ex_hs_stream] =
    reads_run no_user (fun _ _ => LRaised) no_nonce no_sha true bytewise /\
  stream_lines ex_hs_stream = [w_DATA; ex_ok; w_AGREE_UNIX_FD].
Proof. vm_compute. repeat split; reflexivity. Qed.

(* a well-framed little-endian message of 40 bytes whose header fields contain CRLF *)
Definition ex_msg40 : bytes :=
  [108; 2; 0; 1; 8; 0; 0; 0; 1; 0; 0; 0; 16; 0; 0; 0] ++
  [5; 1; 117; 0; 13; 10; 0; 0; 8; 1; 103; 0; 1; 120; 0; 0] ++ [13; 10; 13; 10; 0; 0; 0; 0].

(* OK <guid> CRLF AGREE_UNIX_FD CRLF and the 40 message bytes in ONE read: the
   hypotheses of C07_handshake_tail_is_binary hold, the message is delivered
   byte-identical by the binary framing, nothing is left over; and the client
   wrote NEGOTIATE_UNIX_FD, BEGIN *)
Example C07_handshake_and_message_in_one_read :
  let lines := [ex_ok; w_AGREE_UNIX_FD] in
  let read := FramingSpec.hs_bytes true lines ++ ex_msg40 in
  length ex_msg40 = 40%nat /\
  Forall (FramingSpec.good_line max_auth_length) lines /\
  auth_at_last (snd (session no_user (fun _ _ => LRaised) no_nonce no_sha true lines)) = true /\
  FramingSpec.frames_of ex_msg40 = ([Framing.Msg ex_msg40], Some []) /\
  reads_run no_user (fun _ _ => LRaised) no_nonce no_sha true [read] =
    ([Framing.Line ex_ok; Framing.Line w_AGREE_UNIX_FD; Framing.AuthOk; Framing.Msg ex_msg40], Some []) /\
  reads_outs no_user (fun _ _ => LRaised) no_nonce no_sha true [read] =
    [Raw [0]; Send (s_AUTH_ ++ s_EXTERNAL); Send s_NEGOTIATE_UNIX_FD; Send s_BEGIN;
     Authd (Some [18; 52; 222; 173; 190; 239])].
Proof.
  cbv zeta. split; [reflexivity|]. split.
  { repeat constructor; vm_compute; congruence. }
  vm_compute. repeat split; reflexivity.
Qed.
