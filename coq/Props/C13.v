(* C13 - Built-in bus: a name has one live owner; ownership follows request flags.
   Statements only; proofs are in Proofs/BusNamesProofs.v.

   [run h] is the faithful model of txdbus's built-in bus name handling
   (Model/BusNames.v: Bus.busNames, the per-connection busNames dictionaries,
   Bus.clients, dbus_RequestName / dbus_ReleaseName / clientDisconnected /
   dbus_GetNameOwner / dbus_ListQueuedOwners) driven from the empty bus through
   the history h; [spec_run h] is the reference name table of
   Spec/NameSpec.v driven through the same history.  Both return the final
   state and, per operation, the reply to the caller and the signals emitted.
   Every statement is for EVERY history (any length, any number of connections
   and names, any 32-bit flag word, any string as a name). *)
From Tx Require Import Lib.Base Gen.Generated Model.BusNames Spec.NameSpec Proofs.BusNamesProofs.
From Coq Require Import Permutation.
Local Open Scope N_scope.

(* Step by step, the bus answers what the reference table answers and emits the
   same signals (to the same connections, with the same arguments; within one
   step as a multiset). *)
Theorem C13_refines :
  forall h, Forall2 (fun a b => o_reply a = o_reply b /\ Permutation (o_signals a) (o_signals b))
                    (snd (run h)) (snd (spec_run h)).
Proof. exact refines. Qed.

(* ... and its state is the reference table: same live connections, same
   numbering, and for every name the same queue, each member carrying the same
   allows-replacement flag in its own per-connection dictionary. *)
Theorem C13_state_refines :
  forall h n,
    b_clients (fst (run h)) = t_live (fst (spec_run h)) /\
    b_next (fst (run h)) = t_next (fst (spec_run h)) /\
    map (fun c => (c, fget (b_flags (fst (run h))) c n)) (mqueue (fst (run h)) n)
    = map (fun e : entry => (fst e, Some (snd e))) (queue (fst (spec_run h)) n).
Proof. exact state_refines. Qed.

(* After any history, for every name: the queue has no duplicates, every member
   (owner or waiting) is a connected client, the owner is the head - hence at
   most one owner, connected, and not also waiting; and Bus.busNames[n] is that
   queue. *)
Theorem C13_unique_live_owner :
  forall h n,
    let t := fst (spec_run h) in
    let b := fst (run h) in
    (NoDup (map fst (queue t n)) /\
     (forall c, holds t c n = true -> is_live t c = true) /\
     (forall o, owner t n = Some o -> is_live t o = true /\ ~ In o (waiting t n))) /\
    (mqueue b n = map fst (queue t n) /\ NoDup (mqueue b n) /\
     (forall c, In c (mqueue b n) -> In c (b_clients b))).
Proof. exact unique_live_owner. Qed.

(* The reply code states the caller's resulting relation to the name.
   RequestName of a well-known name by a connected client answers exactly one of
     1 and the caller is now the owner and was not before,
     4 and the caller is the owner and was before,
     2 and the caller now waits, somebody else still owns,
     3 and the caller neither owns nor waits, somebody else still owns;
   ReleaseName answers exactly one of
     1 and the caller owned or waited before and does neither now,
     2 and nobody held the name, nothing changed,
     3 and somebody holds the name but the caller did not, nothing changed. *)
Theorem C13_reply_states_relation :
  forall h c n,
    let t := fst (spec_run h) in
    is_live t c = true ->
    (forall f, wellknown n = true ->
       request_relation t (fst (spec_step t (Request c n f))) c n (o_reply (snd (spec_step t (Request c n f))))) /\
    release_relation t (fst (spec_step t (Release c n))) c n (o_reply (snd (spec_step t (Release c n)))).
Proof. exact reply_states_relation. Qed.

(* A request for a name owned by somebody else replaces the owner iff the owner
   allowed replacement and the requester asked to replace (the replaced owner
   is dropped: txdbus's choice); otherwise the owner stays and the requester
   waits afterwards iff it did not decline queueing. *)
Theorem C13_replace_iff :
  forall h c n f o allows rest,
    let t := fst (spec_run h) in
    is_live t c = true -> wellknown n = true ->
    queue t n = (o, allows) :: rest -> o <> c ->
    let t' := fst (spec_step t (Request c n f)) in
    (owner t' n = Some c <-> allows = true /\ has_flag f REPLACE_EXISTING = true) /\
    (owner t' n = Some c \/ owner t' n = Some o) /\
    (owner t' n = Some c -> holds t' o n = false) /\
    (owner t' n = Some o -> (holds t' c n = true <-> has_flag f DO_NOT_QUEUE = false)).
Proof. exact replace_iff. Qed.

(* When the owner releases the name or disconnects, the first of the waiting
   clients becomes owner, the others keep their order, and it is sent
   NameAcquired - by the reference table and by the bus. *)
Theorem C13_fifo_promotion :
  forall h n o a w aw rest,
    let t := fst (spec_run h) in
    let b := fst (run h) in
    queue t n = (o, a) :: (w, aw) :: rest ->
    is_live t o = true /\
    (queue (fst (spec_step t (Release o n))) n = (w, aw) :: rest /\
     o_reply (snd (spec_step t (Release o n))) = RCode RELEASED /\
     In (NameAcquired w n) (o_signals (snd (spec_step t (Release o n)))) /\
     In (NameAcquired w n) (o_signals (snd (step b (Release o n))))) /\
    (queue (fst (spec_step t (Disconnect o))) n = (w, aw) :: rest /\
     In (NameAcquired w n) (o_signals (snd (spec_step t (Disconnect o)))) /\
     In (NameAcquired w n) (o_signals (snd (step b (Disconnect o))))).
Proof. exact fifo_promotion. Qed.

(* "longest-waiting": a client told IN_QUEUE joins the END of the waiting list,
   or keeps its place if it was waiting already. *)
Theorem C13_waits_in_arrival_order :
  forall h c n f,
    let t := fst (spec_run h) in
    is_live t c = true -> wellknown n = true ->
    o_reply (snd (spec_step t (Request c n f))) = RCode IN_QUEUE ->
    waiting (fst (spec_step t (Request c n f))) n = if holds t c n then waiting t n else waiting t n ++ [c].
Proof. exact waits_in_arrival_order. Qed.

(* A client that released a name neither owns nor waits for it (whatever the
   reply); a client that disconnected neither owns nor waits for any name, is
   not connected, and that stays so whatever happens afterwards. *)
Theorem C13_released_or_gone_absent :
  forall h c,
    let t := fst (spec_run h) in
    is_live t c = true ->
    (forall n, holds (fst (spec_step t (Release c n))) c n = false) /\
    (forall n, holds (fst (spec_step t (Disconnect c))) c n = false) /\
    is_live (fst (spec_step t (Disconnect c))) c = false /\
    (forall h2 n, holds (fst (spec_run (h ++ Disconnect c :: h2))) c n = false /\
                  is_live (fst (spec_run (h ++ Disconnect c :: h2))) c = false).
Proof. exact released_or_gone_absent. Qed.

(* GetNameOwner and ListQueuedOwners, asked of the bus after any history by a
   connected client, change nothing and answer from the reference table's
   state: the owner's unique name / the queue's unique names head first, or
   NameHasNoOwner when nobody holds the name. *)
Theorem C13_lookups_agree :
  forall h c n,
    let b := fst (run h) in
    let t := fst (spec_run h) in
    In c (b_clients b) ->
    step b (GetOwner c n) = (b, spec_get_owner t n) /\
    step b (ListQueued c n) = (b, spec_list_queued t n) /\
    (starts_with [58] n = false ->
     spec_get_owner t n =
     mkOut (match owner t n with Some o => ROwner (unique_name o) | None => RError NameHasNoOwner end) []) /\
    spec_list_queued t n =
    mkOut (match owner t n with
           | Some o => RQueue (map unique_name (o :: waiting t n))
           | None => RError NameHasNoOwner
           end) [].
Proof. exact lookups_agree. Qed.

(* The unique names appearing in those answers identify the connection. *)
Theorem C13_unique_names_distinct :
  forall c c', unique_name c = unique_name c' -> c = c'.
Proof. exact unique_name_inj. Qed.

(* Tie to the source tables (regenerated from the tree under test on every run):
   the reply codes of txdbus/client.py are the model's and the DBus
   specification's; requestBusName puts ALLOW_REPLACEMENT / REPLACE_EXISTING /
   DO_NOT_QUEUE on the wire as bits 1 / 2 / 4 (probed over all 8 keyword
   combinations) and fails with FailedToAcquireName exactly for IN_QUEUE and
   EXISTS; the model's flag tests and name check are the specification's. *)
Theorem C13_tables_from_source :
  name_reply_codes = Some [NAME_ACQUIRED; NAME_IN_QUEUE; NAME_IN_USE; NAME_ALREADY_OWNER;
                           NAME_RELEASED; NAME_NON_EXISTENT; NAME_NOT_OWNER] /\
  [NAME_ACQUIRED; NAME_IN_QUEUE; NAME_IN_USE; NAME_ALREADY_OWNER; NAME_RELEASED; NAME_NON_EXISTENT; NAME_NOT_OWNER]
  = [PRIMARY_OWNER; IN_QUEUE; EXISTS; ALREADY_OWNER; RELEASED; NON_EXISTENT; NOT_OWNER] /\
  request_name_flag_words =
    Some (map (fun x : bool * bool * bool =>
                 let '(a, r, q) := x in
                 (if a then ALLOW_REPLACEMENT else 0) + (if r then REPLACE_EXISTING else 0)
                 + (if q then DO_NOT_QUEUE else 0))
              [(false, false, false); (false, false, true); (false, true, false); (false, true, true);
               (true, false, false); (true, false, true); (true, true, false); (true, true, true)]) /\
  request_name_fails =
    Some (map (fun r => negb ((r =? PRIMARY_OWNER) || (r =? ALREADY_OWNER))) [1; 2; 3; 4]) /\
  (forall f, N.testbit f 0 = has_flag f ALLOW_REPLACEMENT /\ N.testbit f 1 = has_flag f REPLACE_EXISTING /\
             N.testbit f 2 = has_flag f DO_NOT_QUEUE) /\
  (forall n, name_ok n = wellknown n).
Proof.
  split; [exact reply_codes_generated|]. split; [exact reply_codes_spec|].
  split; [reflexivity|]. split; [reflexivity|].
  split; [intro f; exact (conj (flag_bit0 f) (conj (flag_bit1 f) (flag_bit2 f))) | exact name_ok_wellknown].
Qed.

(* The tree before the repairs did not refine the reference table.  Witnesses
   (replies of the pre-repair model vs the reference table, history by history;
   u1 = ":1.1", u2 = ":1.2", name "a.b"):
   D21 flags 0 on an owned name: EXISTS and not queued;  D22 a waiting client
   releasing: NOT_OWNER and still queued;  D23 a waiting client that
   disconnected becomes owner when the owner releases (GetNameOwner names the
   dead connection);  D28 a waiting client asking again is queued twice;
   D31 a waiting client asking again with DO_NOT_QUEUE: EXISTS, yet it stays
   queued. *)
Theorem C13_refines_legacy_refuted :
  (exists h, ~ Forall2 (fun a b => o_reply a = o_reply b /\ Permutation (o_signals a) (o_signals b))
                       (snd (run_legacy h)) (snd (spec_run h))) /\
  (map o_reply (snd (run_legacy w_d21)) = [RHello u1; RHello u2; RCode 1; RCode 3; RQueue [u1]] /\
   map o_reply (snd (spec_run w_d21)) = [RHello u1; RHello u2; RCode 1; RCode 2; RQueue [u1; u2]]) /\
  (map o_reply (snd (run_legacy w_d22)) = [RHello u1; RHello u2; RCode 1; RCode 2; RCode 3; RQueue [u1; u2]] /\
   map o_reply (snd (spec_run w_d22)) = [RHello u1; RHello u2; RCode 1; RCode 2; RCode 1; RQueue [u1]]) /\
  (map o_reply (snd (run_legacy w_d23)) = [RHello u1; RHello u2; RCode 1; RCode 2; RNone; RCode 1; ROwner u2] /\
   map o_reply (snd (spec_run w_d23)) = [RHello u1; RHello u2; RCode 1; RCode 2; RNone; RCode 1; RError NameHasNoOwner]) /\
  (map o_reply (snd (run_legacy w_d28)) = [RHello u1; RHello u2; RCode 1; RCode 2; RCode 2; RQueue [u1; u2; u2]] /\
   map o_reply (snd (spec_run w_d28)) = [RHello u1; RHello u2; RCode 1; RCode 2; RCode 2; RQueue [u1; u2]]) /\
  (map o_reply (snd (run_legacy w_d30)) = [RHello u1; RHello u2; RCode 1; RCode 2; RCode 3; RQueue [u1; u2]] /\
   map o_reply (snd (spec_run w_d30)) = [RHello u1; RHello u2; RCode 1; RCode 2; RCode 3; RQueue [u1]]).
Proof. exact (conj refines_legacy_refuted legacy_witnesses). Qed.

(* ---- non-vacuity ------------------------------------------------------------------------------------------ *)
(* Four connections and one name: 1 owns allowing replacement; 2 and 3 queue; 4
   replaces 1 (1 is dropped, told NameLost; 2 and 3 keep their order); 2 asks
   again declining the queue and is dropped from it; 4 disconnects: 3, the
   longest-waiting, is promoted and told NameAcquired. *)
Example C13_history :
  let n := w_name in
  let h := [Connect; Connect; Connect; Connect;
            Request 1 n 1; Request 2 n 0; Request 3 n 0; Request 4 n 2;
            Request 2 n 4; Disconnect 4; ListQueued 1 n; GetOwner 1 n] in
  map o_reply (skipn 4 (snd (run h))) =
    [RCode 1; RCode 2; RCode 2; RCode 1; RCode 3; RNone; RQueue [unique_name 3]; ROwner (unique_name 3)] /\
  map o_signals (skipn 7 (snd (run h))) =
    [[NameLost 1 n; NameAcquired 4 n; NameOwnerChanged n (unique_name 1) (unique_name 4)];
     []; [NameAcquired 3 n]; []; []] /\
  queue (fst (spec_run (firstn 8 h))) n = [(4, false); (2, false); (3, false)] /\
  is_live (fst (spec_run (firstn 8 h))) 2 = true /\ wellknown n = true.
Proof. vm_compute. repeat split; reflexivity. Qed.

(* the hypotheses of C13_replace_iff / C13_fifo_promotion / C13_waits_in_arrival_order are met by that history *)
Example C13_hypotheses_inhabited :
  let n := w_name in
  let h := [Connect; Connect; Connect; Connect; Request 1 n 1; Request 2 n 0; Request 3 n 0] in
  let t := fst (spec_run h) in
  queue t n = [(1, true); (2, false); (3, false)] /\ is_live t 4 = true /\ 1 <> 4 /\
  o_reply (snd (spec_step t (Request 4 n 0))) = RCode IN_QUEUE /\
  o_reply (snd (spec_step t (Request 4 n 2))) = RCode PRIMARY_OWNER /\
  o_reply (snd (spec_step t (Request 4 n 4))) = RCode EXISTS /\
  o_reply (snd (spec_step t (Request 1 n 0))) = RCode ALREADY_OWNER /\
  o_reply (snd (spec_step t (Release 3 n))) = RCode RELEASED /\
  o_reply (snd (spec_step t (Release 4 n))) = RCode NOT_OWNER /\
  o_reply (snd (spec_step t (Release 4 [99; 46; 100]))) = RCode NON_EXISTENT.
Proof. vm_compute. repeat split; try reflexivity. discriminate. Qed.
