(* C02 - Encoded bytes are exactly the DBus wire format, in both directions.
   Statements only; proofs in Proofs/MarshalProofs.v, Proofs/UnmarshalProofs.v. *)
From Tx Require Import Lib.Base Gen.Generated Model.PyVal Model.Marshal Spec.WireSpec Spec.Readback
  Spec.Conforms Spec.WireTyped Proofs.SigProofs Proofs.MarshalProofs Proofs.UnmarshalProofs.
Local Open Scope N_scope.

(* The bytes marshal() produces for conforming values are exactly the
   specification encoding [enc_seq] (Spec/WireSpec.v: alignment from the start
   of the message, zero padding, array lengths excluding the initial padding,
   length-prefixed NUL-terminated strings, variants carrying their content's
   signature, requested byte order) - for every signature, value, offset and
   byte order. *)
Theorem C02_encode_exact :
  forall ts vals vs ws off le fds fuel,
    seq_items vals = Ok vs -> conf_seq ts vs ws ->
    (wdepth_list ws <= fuel)%nat -> len (enc_seq ts ws off le) < two32 ->
    m_marshal fuel (show_list ts) vals (N.of_nat off) le fds
      = Ok (len (enc_seq ts ws off le), enc_seq ts ws off le, fds).
Proof. exact marshal_refines. Qed.

(* Conversely any spec-conformant encoding of well-typed wire values - in
   either byte order, at any offset, whoever produced it - decodes to the value
   it encodes, consuming exactly its length. *)
Theorem C02_decode_any_conformant :
  forall fds le ts ws pre post fuel,
    wt_seq fds ts ws -> (wdepth_list ws <= fuel)%nat ->
    len (enc_seq ts ws (length pre) le) < two32 ->
    m_unmarshal fuel (show_list ts) (pre ++ enc_seq ts ws (length pre) le ++ post) (len pre) le (Some fds)
      = Ok (len (enc_seq ts ws (length pre) le), readback_seq fds ts ws).
Proof. exact unmarshal_inverts. Qed.

(* The alignment rule for every type and every offset: the padding the model
   inserts before a value of type t at offset off is the specification's. *)
Theorem C02_alignment_rule :
  forall t off, exists c r,
    show t = c :: r /\
    pad_for c (N.of_nat off) = Ok (N.of_nat ((align t - off mod align t) mod align t)).
Proof.
  intros t off. destruct (hd_code t) as (c & r & Hs & Ha). exists c, r. split; [exact Hs|].
  unfold pad_for. rewrite Ha, (pad_len_spec _ _ (align_good t)). unfold len. rewrite padding_length. reflexivity.
Qed.

(* The model's type table, padding function and dispatch domains are the ones
   of the tree under test (regenerated on every run; the padding probe
   enumerates every type code at offsets 0..15 completely). *)
Theorem C02_tables_from_source :
  dbus_types = Some align_tab /\
  pad_probe = Some (map (fun ca => (fst ca, map (fun o => pad_len (snd ca) (N.of_nat o)) (seq 0 16))) align_tab) /\
  pad_header_probe = Some (map (fun o => pad_len 8 (N.of_nat o)) (seq 0 16)) /\
  marshaller_codes = Some [40; 97; 98; 100; 103; 104; 105; 110; 111; 113; 115; 116; 117; 118; 120; 121; 123] /\
  unmarshaller_codes = marshaller_codes /\
  variant_class_map = Some [(98, 98); (103, 103); (105, 105); (110, 110); (111, 111); (113, 113);
                            (116, 116); (117, 117); (120, 120); (121, 121)].
Proof. repeat split; vm_compute; reflexivity. Qed.

Example C02_nonvacuous :
  let ts := [TArray (TStruct [TByte; TInt64]); TVariant] in
  let ws := [WArray [WStruct [WInt 1; WInt (-1)]]; WVariant (TArray TString) (WArray [WStr [97]])] in
  wt_seq [] ts ws /\ (wdepth_list ws <= 4)%nat /\
  m_unmarshal 4 (show_list ts) ([9] ++ enc_seq ts ws 1 false ++ [7; 7]) 1 false (Some [])
    = Ok (len (enc_seq ts ws 1 false), readback_seq [] ts ws).
Proof.
  cbv zeta. split.
  { cbn. repeat split; try reflexivity; try discriminate; try lia. }
  split; [cbn; lia|]. vm_compute. reflexivity.
Qed.
