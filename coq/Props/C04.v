(* C04 - Message framing is independent of how the byte stream is split into
   reads.  Statements only; proofs are in Proofs/FramingProofs.v.

   [run astep maxl client a chunks] is the faithful model of
   BasicDBusProtocol.dataReceived (Model/Framing.v; tree with the repairs D02,
   D03, D32) fed the reads [chunks] in order, with an ARBITRARY authenticator
   (state type A, step function astep, initial state a), an arbitrary line
   limit maxl, on the client side (client = true) or the server side.  It
   returns the callbacks made, in order (Line l: a handshake line handed to the
   authenticator; AuthOk; Msg raw: rawDBusMessageReceived(raw); Close; Crash)
   and the bytes left in the buffer (None once the connection is closing).

   [sem astep maxl client a stream] (Spec/FramingSpec.v) is defined on the whole
   stream and knows nothing of reads.

   The only side condition: on the SERVER side the very first read is not
   empty (first_read_nonempty; the reactor never delivers an empty read, and
   dataReceived(b'') before the NUL byte raises IndexError).  Empty reads are
   allowed everywhere else, and anywhere on the client side. *)
From Tx Require Import Lib.Base Gen.Generated Model.Marshal Model.Message Model.Framing
  Spec.FramingSpec Proofs.FramingProofs.
Local Open Scope N_scope.

(* Whatever the partition into reads - one byte at a time, everything in one
   read, a cut inside a header, inside "\r\n", between the handshake and the
   first message - callbacks and leftover are those of the whole stream. *)
Theorem C04_partition_independent :
  forall (A : Type) (astep : A -> bytes -> A * ares) (maxl : N) (client : bool) (a : A)
         (chunks : list bytes),
    client = true \/ first_read_nonempty chunks ->
    run astep maxl client a chunks = sem astep maxl client a (concat chunks).
Proof. exact @partition_independent. Qed.

(* Hence two partitions of the same stream are indistinguishable. *)
Theorem C04_any_two_partitions :
  forall (A : Type) (astep : A -> bytes -> A * ares) (maxl : N) (client : bool) (a : A)
         (chunks1 chunks2 : list bytes),
    client = true \/ (first_read_nonempty chunks1 /\ first_read_nonempty chunks2) ->
    concat chunks1 = concat chunks2 ->
    run astep maxl client a chunks1 = run astep maxl client a chunks2.
Proof. exact @any_two_partitions. Qed.

(* The step form: delivering two consecutive reads as one changes nothing,
   wherever in the connection's life they occur. *)
Theorem C04_coalesce :
  forall (A : Type) (astep : A -> bytes -> A * ares) (maxl : N) (client : bool) (a : A)
         (pre : list bytes) (x y : bytes) (post : list bytes),
    client = true \/ first_read_nonempty (pre ++ x :: y :: post) ->
    run astep maxl client a (pre ++ x :: y :: post) =
    run astep maxl client a (pre ++ (x ++ y) :: post).
Proof. exact @coalesce. Qed.

(* The peer sends (a NUL byte,) handshake lines the authenticator accepts at
   the last one, then well-framed messages m1 ... mk of any mix of byte orders
   (wellframed: the first 16 bytes of m announce exactly length m, in the byte
   order named by m's byte 0).  Then, for EVERY partition of that stream into
   reads, the receiver hands exactly those lines to the authenticator,
   authenticates, and delivers exactly m1 ... mk - each once, in order,
   byte-identical - and nothing is left over. *)
Theorem C04_messages_intact :
  forall (A : Type) (astep : A -> bytes -> A * ares) (maxl : N) (client : bool) (a : A)
         (lines msgs chunks : list bytes),
    Forall (good_line maxl) lines -> auth_accepts astep a lines = true ->
    Forall wellframed msgs ->
    client = true \/ first_read_nonempty chunks ->
    concat chunks = hs_bytes client lines ++ concat msgs ->
    run astep maxl client a chunks = (map Line lines ++ AuthOk :: map Msg msgs, Some []).
Proof. exact @messages_intact. Qed.

(* The handshake/message boundary: after the line that completes
   authentication, the following bytes - ARBITRARY bytes [rest], containing
   "\r\n" or not, in the same read as that line or not, cut anywhere - are
   framed exactly as [rest] alone would be (frames_of rest). *)
Theorem C04_handshake_boundary :
  forall (A : Type) (astep : A -> bytes -> A * ares) (maxl : N) (client : bool) (a : A)
         (lines : list bytes) (rest : bytes) (chunks : list bytes),
    Forall (good_line maxl) lines -> auth_accepts astep a lines = true ->
    client = true \/ first_read_nonempty chunks ->
    concat chunks = hs_bytes client lines ++ rest ->
    run astep maxl client a chunks =
      (map Line lines ++ AuthOk :: fst (frames_of rest), snd (frames_of rest)).
Proof. exact @handshake_boundary. Qed.

(* The length dataReceived computes from the first 16 bytes is the length the
   DBus specification assigns (FramingSpec.frame_total), and it is the
   computation C03 reasons about (Message.frame_len); so a message of which C03
   shows frame_len = length is wellframed. *)
Theorem C04_frame_length :
  forall buf : bytes, 16 <= len buf ->
    next_msg_len buf = frame_total buf /\
    next_msg_len buf = Message.frame_len (negb (is_big buf)) buf.
Proof. exact frame_length_agrees. Qed.

Theorem C04_wellframed_from_frame_len :
  forall raw : bytes, 16 <= len raw ->
    Message.frame_len (negb (is_big raw)) raw = len raw -> wellframed raw.
Proof. exact wellframed_from_frame_len. Qed.

(* constants of the tree under test the model relies on *)
Theorem C04_constants :
  Generated.MSG_HDR_LEN = Some msg_hdr_len /\ Generated.auth_delimiter = Some crlf.
Proof. exact generated_constants. Qed.

(* ---- non-vacuity --------------------------------------------------------- *)
(* Server side: NUL, "AUTH X", "GO" (accepted), then a little-endian return, a
   big-endian return whose header and body contain "\r\n", a little-endian
   signal with serial 0x0a0d; hypotheses of C04_messages_intact hold, and three
   very different partitions (one read; the handshake's last line together with
   one and a half messages; single bytes at the start) give the sent messages. *)
Example C04_instance :
  let lines := [AUTHX; GO] in
  let msgs := [ex_m1; ex_m2; ex_m3] in
  let stream := hs_bytes false lines ++ concat msgs in
  Forall (good_line 16384) lines /\
  auth_accepts (astep_rules go_rules) tt lines = true /\
  Forall wellframed msgs /\
  let want := (map Line lines ++ AuthOk :: map Msg msgs, Some []) in
  run (astep_rules go_rules) 16384 false tt [stream] = want /\
  run (astep_rules go_rules) 16384 false tt
      [firstn 5 stream; firstn 50 (skipn 5 stream); skipn 55 stream] = want /\
  run (astep_rules go_rules) 16384 false tt
      ([[0]; [65]; [85]] ++ [firstn 9 (skipn 3 stream); firstn 1 (skipn 12 stream); skipn 13 stream]) = want.
Proof.
  cbv zeta. split; [exact (proj1 ex_lines_good)|]. split; [exact (proj2 ex_lines_good)|].
  split; [exact ex_wellframed|]. vm_compute. repeat split; reflexivity.
Qed.

(* arbitrary bytes after the handshake (here: a complete message, then the
   first 20 bytes of another whose content includes "\r\n"): client side *)
Example C04_boundary_instance :
  let rest := ex_m2 ++ firstn 20 ex_m3 in
  run (astep_rules go_rules) 16384 true tt [GO ++ [13]; [10] ++ firstn 30 rest; skipn 30 rest] =
    ([Line GO; AuthOk; Msg ex_m2], Some (firstn 20 ex_m3)) /\
  frames_of rest = ([Msg ex_m2], Some (firstn 20 ex_m3)).
Proof. vm_compute. split; reflexivity. Qed.

(* ---- the behaviour before the repairs (Model/Framing.v, recv_legacy) ------ *)

(* D02: one nested call per message; with 990 nested calls allowed, 1000
   messages in one read are not all delivered. *)
Theorem C04_legacy_refuted_depth :
  exists (chunks : list bytes),
    run_legacy (astep_rules go_rules) 16384 990 true tt chunks <>
    sem (astep_rules go_rules) 16384 true tt (concat chunks).
Proof. exact legacy_depth_refuted. Qed.

(* D03: the line completing authentication and a message containing "\r\n" in
   the same read: an exception escapes, nothing is delivered. *)
Theorem C04_legacy_refuted_crlf :
  exists (chunks : list bytes),
    run_legacy (astep_rules go_rules) 16384 990 true tt chunks = ([Line GO; AuthOk; Crash], None) /\
    sem (astep_rules go_rules) 16384 true tt (concat chunks) = ([Line GO; AuthOk; Msg ex_m2], Some []).
Proof. exact legacy_crlf_refuted. Qed.

(* D03, second face: a binary remainder longer than the line limit arriving in
   the read that ends the handshake closes the connection. *)
Theorem C04_legacy_refuted_long_tail :
  exists (chunks : list bytes),
    run_legacy (astep_rules go_rules) 30 990 true tt chunks = ([Line GO; AuthOk; Close], None) /\
    sem (astep_rules go_rules) 30 true tt (concat chunks) = ([Line GO; AuthOk; Msg ex_m4], Some []).
Proof. exact legacy_long_tail_refuted. Qed.

(* D32: a line of exactly the maximum length is accepted when its "\r\n"
   arrives in one read and closes the connection when a read ends between
   '\r' and '\n'. *)
Theorem C04_legacy_refuted_limit :
  exists (chunks : list bytes),
    run_legacy (astep_rules go_rules) 6 990 true tt chunks = ([Close], None) /\
    run_legacy (astep_rules go_rules) 6 990 true tt [concat chunks] =
      ([Line AUTHX; Line GO; AuthOk], Some []) /\
    sem (astep_rules go_rules) 6 true tt (concat chunks) = ([Line AUTHX; Line GO; AuthOk], Some []).
Proof. exact legacy_limit_refuted. Qed.
