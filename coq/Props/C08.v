(* C08 - Each remote call completes exactly once, with the reply that belongs
   to it.  Statements only; proofs are in Proofs/CallsProofs.v.

   [run serial0 evs] is the faithful model of DBusClientConnection's call
   bookkeeping (Model/Calls.v) started with DBusMessage._nextSerial = serial0
   and driven through the event list evs: calls being issued, method returns
   and error replies arriving (with any reply serial: matching, duplicate,
   unsolicited, early), armed timers firing, the connection being lost.
   Every statement is for every first serial and every event list. *)
From Tx Require Import Lib.Base Model.Calls Spec.CallSpec Proofs.CallsProofs.
Local Open Scope N_scope.

(* The completions delivered to user callbacks, in order, are exactly: at each
   event, for every call issued earlier that is still open and that this event
   ends (the return or error reply carrying its serial, its own deadline, the
   loss of the connection), that call with the outcome of this event - and
   nothing else.  (Spec.CallSpec.spec_completions.) *)
Theorem C08_exactly_once_right_one :
  forall serial0 evs, completions (run serial0 evs) = spec_completions serial0 evs.
Proof. exact completions_spec. Qed.

(* Read call by call: the completions delivered to the Deferred of call c are
   exactly one, carrying the outcome of the FIRST terminal event after c was
   issued, if there is such an event, and none otherwise. *)
Theorem C08_each_call_once_first_wins :
  forall serial0 evs c, In c (calls_of evs 0 serial0) ->
    filter (fun x => Nat.eqb (fst x) (c_id c)) (completions (run serial0 evs)) =
    match outcome_of c with Some o => [(c_id c, o)] | None => [] end.
Proof. exact each_call_once. Qed.

(* No completion is delivered to anything but a call of the history, and what a
   call receives is its own outcome (never that of another call). *)
Theorem C08_no_cross_delivery :
  forall serial0 evs i o, In (i, o) (completions (run serial0 evs)) ->
    exists c, In c (calls_of evs 0 serial0) /\ c_id c = i /\ outcome_of c = Some o.
Proof. exact only_calls_complete. Qed.

Theorem C08_at_most_once :
  forall serial0 evs, NoDup (map fst (completions (run serial0 evs))).
Proof. exact at_most_once. Qed.

(* _cbCvtReply is the documented convention: a reply whose signature differs
   from a declared return signature gives RemoteError; otherwise no value gives
   None, one non-struct value gives that value, anything else the list. *)
Theorem C08_value_convention :
  forall m rs, cvt_reply (Some m) rs =
    if matches_declared rs (sig_of m) then OValue (convention (sig_of m) (carried m)) else OSigMismatch.
Proof. exact cvt_reply_spec. Qed.

(* the RemoteError built from an error reply: its name, its message (first value
   when that is a string), its values *)
Theorem C08_remote_error_fields :
  forall name m, mk_remote_error name m = ORemote name (error_message (carried m)) (carried m).
Proof. exact mk_remote_error_spec. Qed.

(* After any history _pendingCalls holds exactly the calls without terminal
   event, the reactor holds exactly the timers of those among them that have a
   deadline, and no exception (KeyError, AlreadyCalled) escaped the library. *)
Theorem C08_no_leftovers :
  forall serial0 evs,
    pending_serials (run serial0 evs) = open_serials serial0 evs /\
    timer_serials (run serial0 evs) = open_deadline_serials serial0 evs /\
    st_fault (run serial0 evs) = false.
Proof. exact no_leftovers. Qed.

(* Non-vacuity: three concurrent calls (serials 5, 6, 7; the first and third
   with deadlines; the second declares return signature "i"); an unsolicited
   return, the replies out of order, a duplicate, an expiry, a late reply after
   the expiry, then a fourth call that is open when the connection is lost. *)
Example C08_history :
  let i7 := Msg (Some [105]) [VInt 7] in
  let evs := [ ECall CkNormal (Some 3) RsNoCheck; ECall CkNormal None (RsStr [105]);
               ECall CkNormal (Some 9) RsNoCheck;
               EReturn 99 i7;
               EError 7 [97; 46; 69] (Msg (Some [115]) [VStr [111; 104]]);
               EReturn 6 i7; EReturn 6 i7;
               ETimer 5; EReturn 5 i7; ETimer 7;
               ECall CkNormal (Some 2) RsNoCheck; ELost 1 ] in
  completions (run 5 evs) =
    [ (2%nat, ORemote [97; 46; 69] [111; 104] [VStr [111; 104]]);
      (1%nat, OValue (Some (VInt 7)));
      (0%nat, OTimeOut);
      (3%nat, OLost 1) ] /\
  pending_serials (run 5 (firstn 3 evs)) = [5; 6; 7] /\
  timer_serials (run 5 (firstn 3 evs)) = [5; 7] /\
  pending_serials (run 5 evs) = [] /\ timer_serials (run 5 evs) = [].
Proof. vm_compute. repeat split; reflexivity. Qed.

Example C08_convention_instances :
  cvt_reply (Some (Msg None [])) RsNoCheck = OValue None /\
  cvt_reply (Some (Msg (Some [105]) [VInt 7])) RsNoCheck = OValue (Some (VInt 7)) /\
  cvt_reply (Some (Msg (Some [40; 105; 41]) [VSeq [VInt 7]])) RsNoCheck = OValue (Some (VSeq [VSeq [VInt 7]])) /\
  cvt_reply (Some (Msg (Some [105; 105]) [VInt 1; VInt 2])) RsNoCheck = OValue (Some (VSeq [VInt 1; VInt 2])) /\
  cvt_reply (Some (Msg (Some [105; 105]) [VInt 1; VInt 2])) (RsStr [105]) = OSigMismatch /\
  cvt_reply (Some (Msg (Some [105]) [VInt 1])) RsNone = OSigMismatch.
Proof. vm_compute. repeat split; reflexivity. Qed.
