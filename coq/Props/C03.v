(* C03 - Every constructible message serialises well-formed and parses back intact.
   Statements only; proofs in Proofs/MessageProofs.v (on top of the marshalling
   refinement of C01/C02).

   Vocabulary (Spec/MsgSpec.v):
   [amsg]       a message as an application gives it to a constructor: type,
                the two flags, the header fields of the type, a typed body;
   [valid_amsg] required fields present, names within the DBus grammars
                (Spec/Grammar.v), body well typed, signature at most 255 chars;
   [args_denote attrs body m]  the Python constructor arguments denote m (any
                Python shape of the body that conforms, Spec/Conforms.v);
   [smsg], [msg_enc]  a message on the wire and its specification encoding, in
                either byte order, fields in any order, unknown codes allowed;
   [smsg_of m le serial]  the wire message m denotes.
   The serial counter DBusMessage._nextSerial is explicit state: [construct_st]
   takes its value and returns the next one.                                    *)
From Tx Require Import Lib.Base Gen.Generated Model.PyVal Model.Marshal Model.Message
  Spec.WireSpec Spec.Readback Spec.Conforms Spec.WireTyped Spec.Grammar Spec.MsgSpec
  Proofs.MarshalProofs Proofs.MessageProofs.
From Tx Require Import Model.MessageCur Model.FdFraming Model.MarshalCost Proofs.MessageCurProofs.
From Coq Require Import Sorted.
Local Open Scope N_scope.

(* Every valid message, given by any conforming Python arguments, while the
   counter is below 2^32 and the encoding within the 128 MiB limit, IS
   constructed; the bytes are exactly the specification encoding of the message
   in little-endian order with the counter value as serial (header, padding and
   body separately, as message.rawHeader / rawPadding / rawBody); the counter
   advances by one; and those bytes have the layout the property spells out:
   fixed 16-byte part with version 1, the declared body length, the serial and
   the length of the field array; the field array; zero padding to a multiple of
   8; a body of exactly the declared length. *)
Theorem C03_wellformed :
  forall fdl m attrs body next fuel fds,
    valid_amsg fdl m -> args_denote attrs body m -> no_fds fds ->
    (1 <= next < 4294967296)%Z ->
    (msg_depth (smsg_of m true next) <= fuel)%nat ->
    len (msg_enc (smsg_of m true next)) <= max_msg_len ->
    let s := smsg_of m true next in
    construct_st false fuel (a_type m) (negb (a_no_reply m)) (negb (a_no_auto_start m)) attrs body next fds
      = (Ok (msg_header s, padding 8 (length (msg_header s)), msg_body s, fds), (next + 1)%Z) /\
    msg_header s ++ padding 8 (length (msg_header s)) ++ msg_body s = msg_enc s /\
    wellformed_layout (msg_enc s) true (a_type m) (Z.to_N (flags_byte m)) next.
Proof. exact c03_wellformed. Qed.

(* Over any history of constructor calls in one process (any arguments, valid
   or not, failing or not), starting from the initial counter value 1: the
   serials of the messages that were constructed are pairwise distinct,
   strictly increasing, non-zero and below 2^32.  No bound on the length of the
   history is needed: the counter is an unbounded integer and never wraps; from
   the 2^32-th allocation on, every construction fails instead (struct.error
   when packing the serial) - see C03_serials_exhausted. *)
Theorem C03_serials_fresh :
  forall legacy qs,
    let outs := fst (run_constructs legacy 1 qs) in
    NoDup (ok_serials outs) /\ StronglySorted Z.lt (ok_serials outs) /\
    Forall (fun z => (1 <= z < 4294967296)%Z) (ok_serials outs).
Proof. exact serials_fresh. Qed.

(* each call either leaves the counter alone or advances it by one; a
   successful call advances it, used a serial within UINT32 range and produced
   at most 2^27 bytes *)
Theorem C03_counter_step :
  forall legacy fuel mt er au attrs body next fds,
    let '(o, next') := construct_st legacy fuel mt er au attrs body next fds in
    (next <= next' <= next + 1)%Z /\
    match o with
    | Ok (h, p, b, _) => next' = (next + 1)%Z /\ (0 <= next < 4294967296)%Z /\ len h + len p + len b <= max_msg_len
    | Err _ => True
    end.
Proof. exact construct_st_counter. Qed.

(* EVERY message a constructor returns, whatever the arguments (conforming or
   not): the header starts with 'l', the message type (1..4), the flags byte,
   version 1, the length of the body that was produced and the counter value as
   serial, each UINT32 little-endian; the serial is within range; the padding is
   zero bytes up to the next multiple of 8.  (The remaining clause of the layout -
   the length of the field array - is proved for valid messages, C03_wellformed.) *)
Theorem C03_fixed_part :
  forall legacy fuel mt er au attrs body next fds h p b f next',
    construct_st legacy fuel mt er au attrs body next fds = (Ok (h, p, b, f), next') ->
    (exists rest,
       h = [108; mt; Z.to_N (flags_of er au); 1] ++ uint 4 true (len b) ++ uint 4 true (Z.to_N next) ++ rest) /\
    (1 <= mt <= 4) /\ (0 <= next < 4294967296)%Z /\ len b < 4294967296 /\
    p = padding 8 (length h) /\ ((length h + length p) mod 8 = 0)%nat.
Proof. exact construct_fixed_part. Qed.

(* Constructing a valid message and parsing the produced bytes recovers the
   message type, the serial, both flags, every header field that was given
   (code and value, in header order - [own_fields]), the signature (field 8 of
   [own_fields]) and the body as decoding yields it ([own_body]: read-back
   convention of C01). *)
Theorem C03_parse_own :
  forall fdl m attrs body next fuel fuel' fds,
    valid_amsg fdl m -> args_denote attrs body m -> no_fds fds ->
    (0 <= next < 4294967296)%Z ->
    (msg_depth (smsg_of m true next) <= fuel)%nat -> (msg_depth (smsg_of m true next) <= fuel')%nat ->
    len (msg_enc (smsg_of m true next)) <= max_msg_len ->
    exists h p b pattrs,
      construct_st false fuel (a_type m) (negb (a_no_reply m)) (negb (a_no_auto_start m)) attrs body next fds
        = (Ok (h, p, b, fds), (next + 1)%Z) /\
      parse_message false fuel' (h ++ p ++ b) (Some fdl)
        = Ok (a_type m, next, negb (a_no_reply m), negb (a_no_auto_start m), pattrs, own_body fdl m) /\
      map (fun x => (Z.of_N (attr_code (fst x)), snd x)) pattrs = own_fields m.
Proof. exact parse_own. Qed.

(* Parsing the specification encoding of ANY well-typed wire message - either
   byte order, header fields in any order, unknown field codes, whoever
   produced it - recovers type, serial, flags (bit 0: no reply expected, bit 1:
   no auto start), every field with a known code in header order with its
   decoded value, and the decoded body. *)
Theorem C03_parse_foreign :
  forall fdl s fuel,
    msg_wt fdl s -> (msg_depth s <= fuel)%nat ->
    exists pattrs,
      parse_message false fuel (msg_enc s) (Some fdl)
        = Ok (Z.to_N (s_type s), s_serial s, expect_reply_of s, auto_start_of s, pattrs, recovered_body fdl s) /\
      map (fun x => (Z.of_N (attr_code (fst x)), snd x)) pattrs = recovered_fields fdl s.
Proof. exact c03_parse_foreign. Qed.

(* A message of more than 2^27 bytes is never constructed, whatever the
   arguments; and a constructor call naming a path, interface, member, error
   name or destination outside the DBus grammar fails, whatever else it is
   given. *)
Theorem C03_unconstructible :
  (forall legacy fuel mt er au attrs body next fds h p b f next',
     construct_st legacy fuel mt er au attrs body next fds = (Ok (h, p, b, f), next') ->
     len (h ++ p ++ b) <= 134217728) /\
  (forall fuel mt er au attrs body next fds,
     names_invalid mt attrs ->
     exists e next', construct_st false fuel mt er au attrs body next fds = (Err e, next')).
Proof. exact c03_unconstructible. Qed.

(* The length the framing layer computes from the first 16 bytes (body length
   at 4..8, field-array length at 12..16, in the byte order of byte 0) is the
   length of the message, for every wire message whose fixed part is in range
   and whose encoding is shorter than 2^32 - in particular (second part) for
   every message a constructor produced.  Bytes following the message do not
   matter.  (Used by C04.) *)
Theorem C03_frame_length :
  (forall s rest,
     (0 <= s_type s < 256)%Z -> (0 <= s_flags s < 256)%Z -> (0 <= s_serial s < 4294967296)%Z ->
     len (msg_enc s) < 4294967296 ->
     hd 0 (msg_enc s) = (if s_le s then 108 else 66) /\
     frame_len (s_le s) (msg_enc s ++ rest) = len (msg_enc s)) /\
  (forall fdl m attrs body next fuel fds rest,
     valid_amsg fdl m -> args_denote attrs body m -> no_fds fds ->
     (0 <= next < 4294967296)%Z -> (msg_depth (smsg_of m true next) <= fuel)%nat ->
     len (msg_enc (smsg_of m true next)) <= max_msg_len ->
     exists h p b,
       fst (construct_st false fuel (a_type m) (negb (a_no_reply m)) (negb (a_no_auto_start m)) attrs body next fds)
         = Ok (h, p, b, fds) /\
       frame_len true ((h ++ p ++ b) ++ rest) = len (h ++ p ++ b)).
Proof. exact c03_frame_length. Qed.

(* The same in the shape the framing layer consumes (C04_wellframed_from_frame_len):
   the message has at least 16 bytes, the frame length computed in its own byte
   order is its length, and byte 0 is 'l' exactly when it is little-endian.  With
   C03_wellformed (constructor bytes = msg_enc (smsg_of m true serial)) this covers
   every constructed message. *)
Theorem C03_frame_shape :
  forall s,
    (0 <= s_type s < 256)%Z -> (0 <= s_flags s < 256)%Z -> (0 <= s_serial s < 4294967296)%Z ->
    len (msg_enc s) < 4294967296 ->
    16 <= len (msg_enc s) /\
    frame_len (s_le s) (msg_enc s) = len (msg_enc s) /\
    (s_le s = true <-> hd 0 (msg_enc s) = 108).
Proof. exact c03_frame_shape. Qed.

(* The model's tables and constants are the ones of the tree under test
   (regenerated on every run): header format, size limit, protocol version,
   default byte order, the four message types with their header-attribute
   tables (name, code, in order), and the field-code map of parseMessage.
   (hattr_rows mt: the model's table of type mt as (attribute name, code) rows;
   gen_rows: the same two columns of a regenerated _headerAttrs table.) *)
Theorem C03_tables_from_source :
  Generated.header_format = Some Message.header_format /\
  Generated.max_msg_len = Some Message.max_msg_len /\
  Generated.protocol_version = Some 1 /\ Generated.default_endian = Some 108 /\
  (mtype_MethodCallMessage, mtype_MethodReturnMessage, mtype_ErrorMessage, mtype_SignalMessage)
    = (Some 1, Some 2, Some 3, Some 4) /\
  gen_rows hattrs_MethodCallMessage = Some (hattr_rows 1) /\
  gen_rows hattrs_MethodReturnMessage = Some (hattr_rows 2) /\
  gen_rows hattrs_ErrorMessage = Some (hattr_rows 3) /\
  gen_rows hattrs_SignalMessage = Some (hattr_rows 4) /\
  Generated.hcode = Some (map (fun a => (attr_code a, attr_name a))
                              [APath; AInterface; AMember; AErrorName; AReplySerial; ADestination; ASender;
                               ASignature; AUnixFds]) /\
  option_map (map fst) Generated.mtype_map = Some [1; 2; 3; 4].
Proof. exact c03_tables_from_source. Qed.

(* --- defects of the pinned commit, repaired by fix: commits ------------------------------------ *)

(* Example data (defined in Proofs/MessageProofs.v, section 9):
   ex_call    the method call  path /a, interface a.b, member M, destination
              :1.5, NO_REPLY_EXPECTED and NO_AUTO_START set, signature "sai",
              body ("hi", [1, -2]);
   ex_attrs / ex_body   Python arguments denoting it (the array given as a tuple);
   ex_foreign a big-endian ERROR message, serial 2^32-1, flags 1, fields in the
              order SIGNATURE "(yv)", unknown code 42 (ay), REPLY_SERIAL 9,
              ERROR_NAME a.E, body (200, variant string "x");
   ex_req mbr a MethodCallMessage('/a', mbr) call.

   D04 (f756d93): parseMessage ignored the flags byte - a constructed no-reply,
   no-auto-start call parsed back with expectReply = autoStart = True. *)
Theorem C03_parse_own_legacy_refuted :
  exists h p b f next' pattrs pbody,
    valid_amsg [] ex_call /\ args_denote ex_attrs ex_body ex_call /\
    construct_st false 8 1 false false ex_attrs ex_body 7 None = (Ok (h, p, b, f), next') /\
    parse_message_legacy 8 (h ++ p ++ b) (Some []) = Ok (1, 7%Z, true, true, pattrs, pbody) /\
    negb (a_no_reply ex_call) = false.
Proof. exact c03_parse_own_legacy_refuted. Qed.

(* D27 (c798dfb): "if interface:" / "if destination:" skipped the validation of
   an empty string, which was then carried in the header. *)
Theorem C03_unconstructible_legacy_refuted :
  exists attrs h p b f next',
    names_invalid 1 attrs /\
    construct_st_legacy 8 1 true true attrs PNone 1 None = (Ok (h, p, b, f), next').
Proof. exact c03_unconstructible_legacy_refuted. Qed.

(* --- non-vacuity -------------------------------------------------------------------------------- *)

(* a method call with optional fields, both flags and a nested body satisfies
   every hypothesis of C03_wellformed / C03_parse_own; the model run on it *)
Example C03_nonvacuous_own :
  let s := smsg_of ex_call true 7 in
  valid_amsg [] ex_call /\ args_denote ex_attrs ex_body ex_call /\ no_fds None /\
  (msg_depth s <= 8)%nat /\ len (msg_enc s) <= max_msg_len /\
  construct_st false 8 1 false false ex_attrs ex_body 7 None
    = (Ok (msg_header s, padding 8 (length (msg_header s)), msg_body s, None), 8%Z) /\
  exists pattrs,
    parse_message false 8 (msg_enc s) (Some []) = Ok (1, 7%Z, false, false, pattrs, own_body [] ex_call) /\
    map (fun x => (Z.of_N (attr_code (fst x)), snd x)) pattrs = own_fields ex_call /\
    own_body [] ex_call = Some [PStr [104; 105]; PList [PInt 1; PInt (-2)]].
Proof. exact c03_nonvacuous_own. Qed.

(* a big-endian error message with permuted fields, an unknown field code and a
   struct-of-variant body satisfies the hypotheses of C03_parse_foreign *)
Example C03_nonvacuous_foreign :
  msg_wt [] ex_foreign /\ (msg_depth ex_foreign <= 6)%nat /\
  exists pattrs,
    parse_message false 6 (msg_enc ex_foreign) (Some [])
      = Ok (3, 4294967295%Z, false, true, pattrs, Some [PList [PInt 200; PStr [120]]]) /\
    map (fun x => (Z.of_N (attr_code (fst x)), snd x)) pattrs
      = [(8%Z, PStr [40; 121; 118; 41]); (5%Z, PInt 9); (4%Z, PStr [97; 46; 69])] /\
    frame_len false (msg_enc ex_foreign ++ [1; 2; 3]) = len (msg_enc ex_foreign).
Proof. exact c03_nonvacuous_foreign. Qed.

(* a history with a failing call in it (member "1"): two constructed messages,
   serials 1 and 2, counter 3 afterwards *)
Example C03_nonvacuous_serials :
  ok_serials (fst (run_constructs false 1 [ex_req [77]; ex_req [49]; ex_req [78]])) = [1; 2]%Z /\
  snd (run_constructs false 1 [ex_req [77]; ex_req [49]; ex_req [78]]) = 3%Z /\
  names_invalid 1 (q_attrs (ex_req [49])).
Proof. exact c03_nonvacuous_serials. Qed.

(* with the counter at 2^32 or beyond nothing is constructed any more (the
   counter does not wrap; an availability limit, not a violation of the property) *)
Theorem C03_serials_exhausted :
  forall legacy fuel mt er au attrs body next fds,
    (4294967296 <= next)%Z ->
    exists e next', construct_st legacy fuel mt er au attrs body next fds = (Err e, next').
Proof. exact c03_serials_exhausted. Qed.


(* --- the current message.py -------------------------------------------------------------------- *)

(* Model/MessageCur.v is one model of message.py as it is now (repairs D04, D27,
   D35, D53, D60, D25: rawBody, endian, _otherFlags, the UInt32 wrapping of
   reply_serial, newSerial=False); the harness compares every constructor call,
   every parseMessage call and every bus-style re-marshal with it.  The models
   the individual properties use agree with it wherever they overlap:
   - MarshalCost.parse_gen / parse_message_v2 (C05) on every input (msg_part
     drops the two extra components _otherFlags and rawBody);
   - FdFraming.parse_message_fd false (C20) whenever the SIGNATURE field the
     header decodes to is absent, empty, or a str of at most 255 characters
     (sig_attr_ok);
   - Message.parse_message false (this file, C04) when moreover there are no
     descriptors: no list, or an empty one and a UNIX_FDS field, if any, that is an
     integer (fds_trivial);
   - Message.marshal_msg / marshal_msg_st / construct_st (this file) for the class
     defaults endian 'l', _otherFlags 0, no rawBody, when reply_serial is stored
     as the constructors store it and path / signature are plain str
     (marshal_args_ok);
   - _marshal(False, ...) writes self.serial and leaves the counter alone. *)
Theorem C03_current_model_bridges :
  (forall fh fb raw fds, msg_part (parse_cur_gen fh fb raw fds) = parse_gen fh fb raw fds) /\
  (forall raw fds, msg_part (parse_message_cur_lin raw fds) = parse_message_v2 raw fds) /\
  (forall fuel raw fds,
     (forall attrs, header_attrs fuel raw fds = Ok attrs -> sig_attr_ok attrs) ->
     msg_part (parse_message_cur fuel raw fds) = parse_message_fd false fuel raw fds) /\
  (forall fuel raw fds,
     (forall attrs, header_attrs fuel raw fds = Ok attrs -> sig_attr_ok attrs /\ fds_trivial attrs fds) ->
     msg_part (parse_message_cur fuel raw fds) = parse_message false fuel raw fds) /\
  (forall fuel mt er au attrs body serial fds,
     marshal_args_ok attrs ->
     marshal_msg_cur fuel mt 108 0 er au attrs body serial fds None = marshal_msg fuel mt er au attrs body serial fds) /\
  (forall fuel mt er au attrs body self_serial next fds,
     marshal_args_ok attrs ->
     marshal_msg_cur_st fuel mt 108 0 er au attrs body true self_serial next fds None
     = marshal_msg_st fuel mt er au attrs body next fds) /\
  (forall fuel mt er au attrs body next fds,
     marshal_args_ok attrs ->
     construct_cur_st fuel mt er au attrs body next fds = construct_st false fuel mt er au attrs body next fds) /\
  (forall fuel mt endian other er au attrs body self_serial next fds rb,
     marshal_msg_cur_st fuel mt endian other er au attrs body false self_serial next fds rb
     = (marshal_msg_cur fuel mt endian other er au attrs body self_serial fds rb, next)).
Proof. exact current_model_bridges. Qed.

(* the current parseMessage on the specification encoding of any well-typed wire
   message (no descriptors): what C03_parse_foreign says, plus _otherFlags = the
   flag bits other than 0x1 / 0x2 and rawBody = the body bytes *)
Theorem C03_parse_foreign_current :
  forall s fuel,
    msg_wt [] s -> (msg_depth s <= fuel)%nat ->
    parse_message_cur fuel (msg_enc s) (Some []) =
      Ok ((Z.to_N (s_type s), s_serial s, expect_reply_of s, auto_start_of s,
           attrs_of_fields [] (s_fields s), recovered_body [] s),
          Z.land (s_flags s) (Z.lnot 3), msg_body s).
Proof. exact parse_cur_refines. Qed.

(* The re-marshal law the bus relies on (bus.py: parseMessage; msg.sender :=
   unique name; msg.endian := byte 0; msg._marshal(False, rawBody=msg.rawBody)),
   C14's "stamped".  For every well-typed wire message s (either byte order, any
   field order, unknown codes, any flags byte) whose values _marshal accepts
   (fwd_ok: a grammatical object path, strings without NUL): the forwarded bytes
   are the specification encoding of [restamp u s] - the header fields of the
   message type's class table, each with its last occurrence, the sender
   replaced, everything else (byte order, type, flags byte, serial, body bytes)
   unchanged - and they parse to that message: same type, serial, flags,
   _otherFlags, decoded body and raw body. *)
Theorem C03_remarshal_law :
  forall s u fuel,
    msg_wt [] s -> Forall fwd_ok (s_fields s) -> string_ok u = true ->
    (msg_depth s <= fuel)%nat -> (msg_depth (restamp u s) <= fuel)%nat ->
    len (msg_enc (restamp u s)) <= max_msg_len ->
    exists m h p,
      parse_message_cur fuel (msg_enc s) (Some []) = Ok m /\
      remarshal_cur fuel (msg_enc s) u m = Ok (h, p, msg_body s, None) /\
      h ++ p ++ msg_body s = msg_enc (restamp u s) /\
      parse_message_cur fuel (msg_enc (restamp u s)) (Some []) =
        Ok ((Z.to_N (s_type s), s_serial s, expect_reply_of s, auto_start_of s,
             attrs_of_fields [] (s_fields (restamp u s)), recovered_body [] s),
            Z.land (s_flags s) (Z.lnot 3), msg_body s).
Proof. exact remarshal_law. Qed.

(* ex_foreign (above) forwarded with sender ":1.42": the hypotheses hold, the
   fields come out in class-table order without the unknown one, still big-endian *)
Example C03_remarshal_nonvacuous :
  msg_wt [] ex_foreign /\ Forall fwd_ok (s_fields ex_foreign) /\ string_ok ex_sender = true /\
  (msg_depth ex_foreign <= 6)%nat /\ (msg_depth (restamp ex_sender ex_foreign) <= 6)%nat /\
  len (msg_enc (restamp ex_sender ex_foreign)) <= max_msg_len /\
  s_fields (restamp ex_sender ex_foreign)
    = [(4%Z, TString, WStr [97; 46; 69]); (5%Z, TUInt32, WInt 9); (7%Z, TString, WStr ex_sender);
       (8%Z, TSig, WStr [40; 121; 118; 41])] /\
  exists m h p,
    parse_message_cur 6 (msg_enc ex_foreign) (Some []) = Ok m /\
    remarshal_cur 6 (msg_enc ex_foreign) ex_sender m = Ok (h, p, msg_body ex_foreign, None) /\
    h ++ p ++ msg_body ex_foreign = msg_enc (restamp ex_sender ex_foreign) /\ hd 0 h = 66.
Proof. exact remarshal_nonvacuous. Qed.
