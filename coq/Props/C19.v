(* C19 - Signatures split into complete types; inferred variant types always encode.
   Statements only; proofs in Proofs/SigProofs.v, InferProofs.v, MarshalProofs.v, UnmarshalProofs.v,
   HomogeneousProofs.v. *)
From Tx Require Import Lib.Base Gen.Generated Model.PyVal Model.Marshal Spec.WireSpec Spec.Readback
  Spec.Conforms Spec.WireTyped Spec.Homogeneous Proofs.SigProofs Proofs.InferProofs Proofs.MarshalProofs
  Proofs.UnmarshalProofs Proofs.HomogeneousProofs.
Local Open Scope N_scope.

(* Splitting any signature derivable from the type grammar - any list of types,
   any nesting depth - returns exactly the grammar's decomposition: one piece
   per top-level type, each the text of that one complete type. *)
Theorem C19_split : forall ts, gen_complete_types (show_list ts) = Ok (map show ts).
Proof. exact gen_complete_types_show. Qed.

(* For ANY string (valid or not): if the splitter returns pieces they
   concatenate to the input, and it never runs out of fuel (it terminates). *)
Theorem C19_split_concat : forall sig ps, gen_complete_types sig = Ok ps -> concat ps = sig.
Proof. exact gen_complete_types_concat. Qed.

Theorem C19_split_total : forall sig, gen_complete_types sig <> Err EFuel.
Proof. exact gen_complete_types_total. Qed.

(* one step: the first complete type and the untouched remainder *)
Theorem C19_next : forall t rest, gct_next (show t ++ rest) = Ok (Some (show t, rest)).
Proof. exact gct_next_show. Qed.

(* The signature inferred for a Python value sent as a variant is always a
   single complete type (for any nesting of lists, tuples, dicts, wrappers). *)
Theorem C19_infer_single :
  forall v, wrappers_ok v = true -> forall s, sig_from_py v = Ok s -> exists t, s = show t.
Proof. exact sig_from_py_complete. Qed.

(* The explicit wrapper types select exactly their DBus type, and the wrapper
   table of the tree under test maps each code to the class carrying it. *)
Theorem C19_wrappers_exact :
  (forall c x, sig_from_py (PWrap c x) = Ok [c]) /\
  variant_class_map = Some [(98, 98); (103, 103); (105, 105); (110, 110); (111, 111); (113, 113);
                            (116, 116); (117, 117); (120, 120); (121, 121)].
Proof. split; [reflexivity|vm_compute; reflexivity]. Qed.

(* Whenever the value has a typed denotation under its inferred signature
   (conf: each container's elements conform to one DBus type, or travel as
   nested variants), it encodes as a variant under the inferred signature and
   decodes back to its read-back.
   PARTIAL on its own (kept as the lemma the full theorem below rests on): it
   does not say that every value inside the claim has such a denotation, nor
   that the read-back equals the value; C19_variant_roundtrip adds both. *)
Theorem C19_variant_roundtrip_partial :
  forall v t w pre post le fds fuel,
    sig_from_py v = Ok (show t) -> (length (show t) <= 255)%nat ->
    conf t v w -> wt [] t w ->
    (S (wdepth w) <= fuel)%nat ->
    len (enc_seq [TVariant] [WVariant t w] (length pre) le) < two32 ->
    exists n b,
      m_marshal fuel [118] (PList [v]) (len pre) le fds = Ok (n, b, fds) /\ n = len b /\
      m_unmarshal fuel [118] (pre ++ b ++ post) (len pre) le (Some [])
        = Ok (n, [readback [] t w]).
Proof. exact variant_roundtrip_typed. Qed.

(* The claim in full.  [inside_claim] (Spec/Homogeneous.v) is the property's
   precondition written out: in every container the elements all share one
   DBus type, or differ in Python type and so travel as nested variants (or,
   in a list, as their common base type int / str); scalars fit the type they
   infer; dict keys are of one basic type and pairwise distinct; every
   signature a variant carries has at most 255 characters.
   Every such value v has a typed denotation (t, w) under its inferred
   signature; for any surrounding bytes, byte order and start offset, with fuel
   linear in the size of v and the encoding of v below the 4 GiB a length
   field can express, marshalling [v] as a variant succeeds, reports the number
   of bytes it produced, and unmarshalling those bytes consumes exactly them
   and returns one value equal to v under Python equality ([py_eq]: modulo the
   documented read-back normalisation tuple -> list, bytearray -> list of
   ints, wrapper -> plain value; True == 1, 0.0 == -0.0). *)
Theorem C19_variant_roundtrip :
  forall v, inside_claim v ->
  exists t w, sig_from_py v = Ok (show t) /\ conf t v w /\
    forall pre post le fds fuel,
      (2 * pv_size v + 1 <= fuel)%nat ->
      len (enc_seq [TVariant] [WVariant t w] (length pre) le) < two32 ->
      exists n b v',
        m_marshal fuel [118] (PList [v]) (len pre) le fds = Ok (n, b, fds) /\ n = len b /\
        m_unmarshal fuel [118] (pre ++ b ++ post) (len pre) le (Some []) = Ok (n, [v']) /\
        py_eq v' v.
Proof. exact variant_roundtrip_claim. Qed.

(* its two halves, separately: the denotation exists and reads back equal *)
Theorem C19_claim_denotes :
  forall v, inside_claim v ->
  exists t w, sig_from_py v = Ok (show t) /\ (length (show t) <= 255)%nat /\ conf t v w /\ wt [] t w /\
              py_eq (readback [] t w) v /\ (wdepth w <= 2 * pv_size v)%nat.
Proof. exact claim_denotes. Qed.

Example C19_nonvacuous :
  gen_complete_types [105; 40; 105; 40; 105; 105; 41; 41; 97; 123; 115; 118; 125]
    = Ok [[105]; [40; 105; 40; 105; 105; 41; 41]; [97; 123; 115; 118; 125]] /\
  sig_from_py (PList [PTuple [PInt 1; PStr [97]]; PTuple [PInt 2; PStr [98]]])
    = Ok (show (TArray (TStruct [TInt32; TString]))) /\
  sig_from_py (PList [PInt 1; PStr [97]]) = Ok (show (TArray TVariant)).
Proof. repeat split; reflexivity. Qed.

(* Non-vacuity of the round trip: a nested heterogeneous value - a list of
   mixed types (av) holding a list of variants, a dict whose values differ in
   type (a{sv}), a wrapper, a bytearray, a list travelling as its base type
   ([1, True] -> ai), a dict keyed by wrappers, a dict whose values travel as
   their base type ({'a': 5, 'b': True} -> a{si}) - is inside the claim, infers
   "(ava{sv}yayaia{ys}a{si})", and the model round-trips it to an equal value. *)
Definition ex_value : pyval :=
  PTuple [PList [PInt 1; PStr [97]; PList [PBool true; PFloat 0]];
          PDict [(PStr [107], PInt (-5)); (PStr [108], PTuple [PStr [120]; PInt 2])];
          PWrap 121 (PInt 7);
          PBytes [1; 255];
          PList [PInt 1; PBool true];
          PDict [(PWrap 121 (PInt 1), PStr [97]); (PWrap 121 (PInt 2), PStr [])];
          PDict [(PStr [97], PInt 5); (PStr [98], PBool true)]].

Example C19_roundtrip_nonvacuous :
  inside_claim ex_value /\
  sig_from_py ex_value = Ok [40; 97; 118; 97; 123; 115; 118; 125; 121; 97; 121; 97; 105; 97; 123; 121; 115; 125;
                             97; 123; 115; 105; 125; 41] /\
  match m_marshal 40 [118] (PList [ex_value]) 3 false None with
  | Ok (n, b, _) =>
      n = len b /\
      match m_unmarshal 40 [118] ([0; 0; 0] ++ b ++ [9]) 3 false (Some []) with
      | Ok (m, [v']) =>
          m = n /\ py_eq v' ex_value /\
          v' = PList [PList [PInt 1; PStr [97]; PList [PBool true; PFloat 0]];
                      PDict [(PStr [107], PInt (-5)); (PStr [108], PList [PStr [120]; PInt 2])];
                      PInt 7;
                      PList [PInt 1; PInt 255];
                      PList [PInt 1; PInt 1];
                      PDict [(PInt 1, PStr [97]); (PInt 2, PStr [])];
                      PDict [(PStr [97], PInt 5); (PStr [98], PInt 1)]]
      | _ => False
      end
  | Err _ => False
  end.
Proof. vm_compute. repeat split; reflexivity. Qed.

(* The hypothesis is needed: [[1], ['a']] - two elements of one Python class
   (list) but of different DBus types - is outside the claim; the inference
   (first element) gives "aai", and the model fails to encode it, whatever the
   fuel. Likewise [1, UInt64(2**40)] ("ai", does not fit INT32). *)
Example C19_outside_claim_fails :
  let v := PList [PList [PInt 1]; PList [PStr [97]]] in
  let v2 := PList [PInt 1; PWrap 116 (PInt 1099511627776)] in
  inside_claim_b v = false /\ sig_from_py v = Ok [97; 97; 105] /\
  inside_claim_b v2 = false /\ sig_from_py v2 = Ok [97; 105] /\
  forall fuel le fds, is_ok (m_marshal fuel [118] (PList [v]) 0 le fds) = false /\
                      is_ok (m_marshal fuel [118] (PList [v2]) 0 le fds) = false.
Proof.
  cbv zeta. repeat split; try reflexivity;
    (destruct fuel as [|[|[|[|[|f]]]]]; [reflexivity..|destruct le; vm_compute; reflexivity]).
Qed.

(* D61 (repaired by fixes/D61-dict-value-type-from-first.patch): before, the
   inference took a dict's value type from the LAST value.  {'a': 5, 'b': True}
   is inside the claim (the values differ in Python type, bool being a subclass
   of the first value's class int, and so should travel as the common base
   type: a{si}); the legacy inference gives a{sb}, and the variant round trip
   under it returns {'a': True, 'b': True}, which is not equal to the value.
   (With the current inference: C19_variant_roundtrip, and the last component
   of C19_roundtrip_nonvacuous.) *)
Theorem C19_variant_roundtrip_legacy_refuted :
  exists v, inside_claim v /\
    sig_from_py_legacy v = Ok [97; 123; 115; 98; 125] /\ sig_from_py v = Ok [97; 123; 115; 105; 125] /\
    exists n b v',
      m_marshal_legacy 8 [118] (PList [v]) 0 true None = Ok (n, b, None) /\ n = len b /\
      m_unmarshal 8 [118] b 0 true (Some []) = Ok (n, [v']) /\
      v' = PDict [(PStr [97], PBool true); (PStr [98], PBool true)] /\ ~ py_eq v' v.
Proof.
  exists (PDict [(PStr [97], PInt 5); (PStr [98], PBool true)]).
  split; [vm_compute; reflexivity|]. split; [reflexivity|]. split; [reflexivity|].
  eexists; eexists; eexists. split; [vm_compute; reflexivity|]. split; [reflexivity|].
  split; [vm_compute; reflexivity|]. split; [reflexivity|]. vm_compute. discriminate.
Qed.
