(* C19 - Signatures split into complete types; inferred variant types always encode.
   Statements only; proofs in Proofs/SigProofs.v, InferProofs.v, MarshalProofs.v, UnmarshalProofs.v. *)
From Tx Require Import Lib.Base Gen.Generated Model.PyVal Model.Marshal Spec.WireSpec Spec.Readback
  Spec.Conforms Spec.WireTyped Proofs.SigProofs Proofs.InferProofs Proofs.MarshalProofs Proofs.UnmarshalProofs.
Local Open Scope N_scope.

(* Splitting any signature derivable from the type grammar - any list of types,
   any nesting depth - returns exactly the grammar's decomposition: one piece
   per top-level type, each the text of that one complete type. *)
Theorem C19_split : forall ts, gen_complete_types (show_list ts) = Ok (map show ts).
Proof. exact gen_complete_types_show. Qed.

(* For ANY string (valid or not): if the splitter returns pieces they
   concatenate to the input, and it never runs out of fuel (it terminates). *)
Theorem C19_split_concat : forall sig ps, gen_complete_types sig = Ok ps -> concat ps = sig.
Proof. exact gen_complete_types_concat. Qed.

Theorem C19_split_total : forall sig, gen_complete_types sig <> Err EFuel.
Proof. exact gen_complete_types_total. Qed.

(* one step: the first complete type and the untouched remainder *)
Theorem C19_next : forall t rest, gct_next (show t ++ rest) = Ok (Some (show t, rest)).
Proof. exact gct_next_show. Qed.

(* The signature inferred for a Python value sent as a variant is always a
   single complete type (for any nesting of lists, tuples, dicts, wrappers). *)
Theorem C19_infer_single :
  forall v, wrappers_ok v = true -> forall s, sig_from_py v = Ok s -> exists t, s = show t.
Proof. exact sig_from_py_complete. Qed.

(* The explicit wrapper types select exactly their DBus type, and the wrapper
   table of the tree under test maps each code to the class carrying it. *)
Theorem C19_wrappers_exact :
  (forall c x, sig_from_py (PWrap c x) = Ok [c]) /\
  variant_class_map = Some [(98, 98); (103, 103); (105, 105); (110, 110); (111, 111); (113, 113);
                            (116, 116); (117, 117); (120, 120); (121, 121)].
Proof. split; [reflexivity|vm_compute; reflexivity]. Qed.

(* Whenever the value has a typed denotation under its inferred signature
   (conf: each container's elements conform to one DBus type, or travel as
   nested variants), it encodes as a variant under the inferred signature and
   decodes back to its read-back.
   PARTIAL: what is not proved in Coq is that every value inside the claim
   (elements sharing one DBus type or differing in Python class) has such a
   denotation; that direction is covered by the value-first correspondence run
   (harness/c19.py: reference inference + encode/decode equality oracle). *)
Theorem C19_variant_roundtrip_partial :
  forall v t w pre post le fds fuel,
    sig_from_py v = Ok (show t) -> (length (show t) <= 255)%nat ->
    conf t v w -> wt [] t w ->
    (S (wdepth w) <= fuel)%nat ->
    len (enc_seq [TVariant] [WVariant t w] (length pre) le) < two32 ->
    exists n b,
      m_marshal fuel [118] (PList [v]) (len pre) le fds = Ok (n, b, fds) /\ n = len b /\
      m_unmarshal fuel [118] (pre ++ b ++ post) (len pre) le (Some [])
        = Ok (n, [readback [] t w]).
Proof.
  intros v t w pre post le fds fuel Hs Hl Hc Hw Hd Hsz.
  exists (len (enc_seq [TVariant] [WVariant t w] (length pre) le)), (enc_seq [TVariant] [WVariant t w] (length pre) le).
  split.
  { apply (marshal_refines [TVariant] (PList [v]) [v] [WVariant t w] (length pre) le fds fuel eq_refl);
      [cbn; auto|unfold wdepth_list; cbn [fold_right wdepth]; lia|exact Hsz]. }
  split; [reflexivity|].
  apply (unmarshal_inverts [] le [TVariant] [WVariant t w] pre post fuel);
    [cbn; auto|unfold wdepth_list; cbn [fold_right wdepth]; lia|exact Hsz].
Qed.

Example C19_nonvacuous :
  gen_complete_types [105; 40; 105; 40; 105; 105; 41; 41; 97; 123; 115; 118; 125]
    = Ok [[105]; [40; 105; 40; 105; 105; 41; 41]; [97; 123; 115; 118; 125]] /\
  sig_from_py (PList [PTuple [PInt 1; PStr [97]]; PTuple [PInt 2; PStr [98]]])
    = Ok (show (TArray (TStruct [TInt32; TString]))) /\
  sig_from_py (PList [PInt 1; PStr [97]]) = Ok (show (TArray TVariant)).
Proof. repeat split; reflexivity. Qed.
