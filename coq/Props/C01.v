(* C01 - Encoding then decoding any conforming value returns the same value.
   Statements only; proofs in Proofs/MarshalProofs.v and Proofs/UnmarshalProofs.v. *)
From Tx Require Import Lib.Base Model.PyVal Model.Marshal Spec.WireSpec Spec.Readback
  Spec.Conforms Spec.WireTyped Proofs.MarshalProofs Proofs.UnmarshalProofs.
Local Open Scope N_scope.

(* For every list of types ts of the DBus grammar (any nesting depth), every
   list of Python values vs conforming to it and denoting the wire values ws,
   every starting offset, both byte orders, any bytes before and after:
   marshal succeeds, reports exactly the number of bytes it produced, and
   unmarshal of those bytes under the same signature, order and offset reports
   consuming the same number and yields the read-back of the values (tuples as
   lists, byte arrays as lists of integers, wrappers as plain values, dict
   arrays as dicts, variants as their content).
   Hypotheses: [conf_seq] - the values conform (Spec/Conforms.v); [wt_seq] - the
   signature is valid and dict keys are pairwise distinct (Spec/WireTyped.v),
   which every Python dict guarantees; the encoding is shorter than 2^32 bytes
   (the protocol limit is 2^27); fuel at least the nesting depth. *)
Theorem C01_roundtrip :
  forall ts vals vs ws pre post le fds fdl fuel,
    seq_items vals = Ok vs ->
    conf_seq ts vs ws ->
    wt_seq fdl ts ws ->
    (wdepth_list ws <= fuel)%nat ->
    len (enc_seq ts ws (length pre) le) < two32 ->
    exists n b,
      m_marshal fuel (show_list ts) vals (len pre) le fds = Ok (n, b, fds) /\
      n = len b /\
      m_unmarshal fuel (show_list ts) (pre ++ b ++ post) (len pre) le (Some fdl)
        = Ok (n, readback_seq fdl ts ws).
Proof.
  intros ts vals vs ws pre post le fds fdl fuel Hi Hc Hw Hd Hs.
  exists (len (enc_seq ts ws (length pre) le)), (enc_seq ts ws (length pre) le).
  split; [exact (marshal_refines ts vals vs ws (length pre) le fds fuel Hi Hc Hd Hs)|].
  split; [reflexivity|].
  exact (unmarshal_inverts fdl le ts ws pre post fuel Hw Hd Hs).
Qed.

(* non-vacuity: a nested instance satisfies every hypothesis *)
Example C01_nonvacuous :
  let ts := [TStruct [TByte; TArray TInt32]; TString; TArray (TDictEntry TString TVariant)] in
  let vals := PList [PTuple [PInt 7; PList [PInt 1; PInt (-2)]]; PStr [104; 105];
                     PDict [(PStr [97], PWrap 121 (PInt 5)); (PStr [98], PStr [120])]] in
  let ws := [WStruct [WInt 7; WArray [WInt 1; WInt (-2)]]; WStr [104; 105];
             WArray [WStruct [WStr [97]; WVariant TByte (WInt 5)];
                     WStruct [WStr [98]; WVariant TString (WStr [120])]]] in
  exists vs, seq_items vals = Ok vs /\ conf_seq ts vs ws /\ wt_seq [] ts ws /\
             (wdepth_list ws <= 4)%nat /\ len (enc_seq ts ws 3 false) < two32 /\
             m_marshal 4 (show_list ts) vals 3 false None
               = Ok (len (enc_seq ts ws 3 false), enc_seq ts ws 3 false, None).
Proof.
  cbv zeta. eexists. split; [reflexivity|].
  split.
  { cbn. repeat split; try reflexivity; try lia.
    - eexists. split; [reflexivity|]. cbn. repeat split; try reflexivity; try lia.
      eexists. split; [reflexivity|]. cbn. repeat split; reflexivity.
    - eexists. split; [reflexivity|]. cbn. repeat split; try reflexivity.
      + eexists; eexists. split; [reflexivity|]. cbn. repeat split; try reflexivity; lia.
      + eexists; eexists. split; [reflexivity|]. cbn. repeat split; try reflexivity; lia. }
  split.
  { cbn. repeat split; try reflexivity; try discriminate; try lia; repeat constructor. }
  split; [cbn; lia|]. split; [vm_compute; reflexivity|]. vm_compute. reflexivity.
Qed.
