(* C18 - Name and path validators accept exactly the DBus grammar.
   Statements only; proofs are in Proofs/ValidatorsProofs.v. *)
From Tx Require Import Lib.Base Gen.Generated Model.Validators Spec.Grammar Proofs.ValidatorsProofs.

(* For every string (every list of code points, any length) the validator
   accepts iff the specification's grammar does. *)
Theorem C18_path : forall s, validate_path s = g_path s.
Proof. exact validate_path_grammar. Qed.

Theorem C18_interface : forall s, validate_iface s = g_interface s.
Proof. exact validate_iface_grammar. Qed.

Theorem C18_error : forall s, validate_error s = g_error s.
Proof. exact validate_iface_grammar. Qed.

Theorem C18_bus : forall s, validate_bus s = g_bus s.
Proof. exact validate_bus_grammar. Qed.

Theorem C18_member : forall s, validate_member s = g_member s.
Proof. exact validate_member_grammar. Qed.

(* The character classes of the model are the ones the regexes of the tree
   under test implement (tables regenerated on every run). *)
Theorem C18_classes_from_source :
  invalid_obj_path_re_accepts = Some (class_table path_ok) /\
  if_re_accepts = Some (class_table if_ok) /\
  bus_re_accepts = Some (class_table bus_ok) /\
  mbr_re_accepts = Some (class_table mbr_ok) /\
  (invalid_obj_path_re_flags_high, if_re_flags_high, bus_re_flags_high, mbr_re_flags_high)
    = (Some true, Some true, Some true, Some true) /\
  dot_digit_pairs = Some (map (fun d => (46%N, N.of_nat d)) (seq 48 10)).
Proof.
  exact (conj path_class_generated (conj if_class_generated (conj bus_class_generated
        (conj mbr_class_generated (conj high_generated dot_digit_generated))))).
Qed.

(* The validators of the pinned commit did not satisfy the statement
   (defect D26, repaired by a fix: commit): witnesses. *)
Theorem C18_interface_legacy_refuted :
  exists n, validate_iface_legacy n = true /\ g_interface n = false.
Proof. exact validate_iface_legacy_refuted. Qed.

Theorem C18_bus_legacy_refuted :
  exists n1 n2 n3,
    (validate_bus_legacy n1 = true /\ g_bus n1 = false) /\
    (validate_bus_legacy n2 = true /\ g_bus n2 = false) /\
    (validate_bus_legacy n3 = true /\ g_bus n3 = false).
Proof. exact validate_bus_legacy_refuted. Qed.

Example C18_nonvacuous :
  validate_path [47; 97; 47; 98]%N = true /\ validate_iface [97; 46; 98]%N = true /\
  validate_bus [58; 49; 46; 52; 50]%N = true /\ validate_bus [111; 114; 103; 46; 120]%N = true /\
  validate_member [77]%N = true.
Proof. exact validators_accept_something. Qed.
