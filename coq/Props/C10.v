(* C10 - Every call to an exported object gets exactly one correctly
   addressed reply.  Statements only; proofs are in Proofs/DispatchProofs.v.

   Model (Model/Dispatch.v): `handle ex beh c` is what
   DBusObjectHandler.handleMethodCallMessage does for the parsed call c when
   the handler's export table is ex: the replies handed to sendMessage, the
   user code invoked (function, positional arguments, dbusCaller), and the
   callbacks left on an unfired Deferred; `fire` is that Deferred completing
   later; `all_replies h l` everything sent for the call when the Deferred
   (if any) completes with l.  An exported object is the MRO of its class:
   per class the declared interfaces (members with in/out signatures) and
   the functions of its __dict__ (dbus_<member> attributes, @dbusMethod
   functions under any name, overrides), each with its wants-dbusCaller flag.

   What user code does is the parameter `beh : invocation -> outcome`
   (a value / an exception with or without dbusErrorName / an unfired
   Deferred) and the `later` completion (value / failure): universally
   quantified, like the export table, the class hierarchies and the call.

   Specification (Spec/DispatchSpec.v, from the property text): `addressed`
   (which interface member a call names; without interface header the first
   declared interface having the member), `candidates` (the implementations
   bound to it by either binding style), `expected_invocation`,
   `error_name_of` / `name_is_valid` (by the DBus grammar of Spec/Grammar.v),
   `returned_values` / `encode_out` (the declared return signature),
   `builtin` (Peer.Ping, Introspectable.Introspect,
   ObjectManager.GetManagedObjects: answered by the handler itself),
   and the executable verdict `judge` used as the oracle of the
   correspondence run.

   Hypotheses: `caller_known c` - the call's sender is absent or a bus name
   (the bus stamps it; with a malformed sender no reply can be built);
   `distinct_interfaces ex` - no object declares one interface name twice.   *)
From Tx Require Import Lib.Base.
From Tx Require Gen.Generated.
From Tx Require Import Model.PyVal Model.Dispatch Spec.DispatchSpec Model.OpsC10 Proofs.DispatchProofs.

(* At most one reply, whatever the exports, the call and the user code do;
   exactly one if the call expects a reply (for a method that returned a
   Deferred: once it has fired, with a value or a failure); none if a call
   flagged no-reply was dispatched to an implementation.  User code runs at
   most once. *)
Theorem C10_reply_count :
  forall (ex : exports) (beh : invocation -> outcome) (c : call) (l : later),
    caller_known c ->
    let h := handle ex beh c in
    (length (all_replies h l) <= 1)%nat /\
    (c_expect c = true -> length (all_replies h l) = 1%nat) /\
    (c_expect c = false -> invocations h <> [] -> all_replies h l = []) /\
    (length (invocations h) <= 1)%nat.
Proof. exact reply_count_s. Qed.

(* ... and no exception leaves the dispatcher (which would drop the call) *)
Theorem C10_no_exception_escapes :
  forall ex beh c, caller_known c -> exists rs invs p, handle ex beh c = HDone rs invs p.
Proof. exact no_escape_s. Qed.

(* Every reply is addressed to the caller and carries the call's serial. *)
Theorem C10_addressed :
  forall ex beh c l r,
    caller_known c -> In r (all_replies (handle ex beh c) l) ->
    r_dest r = c_sender c /\ r_serial r = c_serial c.
Proof. exact replies_addressed_s. Qed.

(* A call that is not one of the handler's own: if the path is not exported,
   the member does not exist on the interface, or the argument signature
   differs, the answer is the one UnknownObject / UnknownMethod / InvalidArgs
   error and no user code runs; otherwise, when the member has a bound
   implementation, exactly one of the bound implementations runs, once, with
   the call's decoded arguments, and with the caller's name iff it asks for
   it (and when it has none - a declared member nobody implements - nothing
   runs). *)
Theorem C10_invoked_iff :
  forall ex beh c,
    caller_known c -> distinct_interfaces ex -> builtin c = false ->
    let h := handle ex beh c in
    match addressed ex c with
    | TNoObject =>
        h = HDone [mkReply (KError e_unknown_object) (c_serial c) (c_sender c) [115%N] BOther] [] None
    | TNoMethod =>
        h = HDone [mkReply (KError e_unknown_method) (c_serial c) (c_sender c) [115%N] BOther] [] None
    | TBadArgs =>
        h = HDone [mkReply (KError e_invalid_args) (c_serial c) (c_sender c) [115%N] BOther] [] None
    | TMethod o i m =>
        (candidates o (i_name i) (c_member c) = [] -> invocations h = []) /\
        (candidates o (i_name i) (c_member c) <> [] ->
         exists f, In f (candidates o (i_name i) (c_member c)) /\
                   invocations h = [expected_invocation c f])
    end.
Proof. exact invoked_iff_s. Qed.

(* the same as an equivalence: user code runs iff path, member and signature match *)
Theorem C10_invoked_exactly_when :
  forall ex beh c,
    caller_known c -> distinct_interfaces ex -> builtin c = false ->
    (invocations (handle ex beh c) <> [] <->
     exists o i m, addressed ex c = TMethod o i m /\ candidates o (i_name i) (c_member c) <> []).
Proof. exact invoked_exactly_when_s. Qed.

(* The handler's own calls get their one reply, addressed, and run no user code. *)
Theorem C10_builtin_answered :
  forall ex beh c,
    caller_known c -> builtin c = true ->
    exists r, handle ex beh c = HDone [r] [] None /\ r_dest r = c_sender c /\ r_serial r = c_serial c.
Proof. exact builtin_answered_s. Qed.

(* What the one reply to a dispatched call is.  A returned value (or the
   value a returned Deferred fires with) of the declared arity is sent as a
   method return whose body is its encoding under the declared return
   signature; if it cannot be encoded the reply is an error.  A raised
   exception (or the failure of the Deferred) is an error reply named by
   dbusErrorName, else org.txdbus.PythonException.<Class>, or
   org.txdbus.InvalidErrorName if that is not a valid error name; its body is
   one string: the exception text - after txdbus's note on the offending
   name in the InvalidErrorName case. *)
Theorem C10_result_mapping :
  forall ex beh c o i m inv l,
    caller_known c -> distinct_interfaces ex -> builtin c = false ->
    addressed ex c = TMethod o i m ->
    invocations (handle ex beh c) = [inv] ->
    c_expect c = true ->
    exists r, all_replies (handle ex beh c) l = [r] /\
      match final_of (beh inv) (Some l) with
      | FValue v =>
          (forall vals b, returned_values (m_nret m) v = Some vals -> encode_out (m_out m) vals = Ok b ->
                          r = mkReply KReturn (c_serial c) (c_sender c) (m_out m) (BBytes b)) /\
          (forall vals e, returned_values (m_nret m) v = Some vals -> encode_out (m_out m) vals = Err e ->
                          is_error r = true)
      | FRaise e =>
          r_kind r = KError (error_name_of e) /\
          exists t, r_body r = BText t /\ r_sig r = [115%N] /\
                    (dbus_string (x_text e) = true ->
                     if name_is_valid e then t = x_text e else ends_with (x_text e) t = true)
      | FOpen => False
      end.
Proof. exact result_mapping_s. Qed.

(* The executable verdict `judge` (what the correspondence run applies to
   the implementation's observations) accepts every observation of the
   model: it demands nothing the theorems above do not give. *)
Theorem C10_oracle_accepts_model :
  forall ex c out l,
    caller_known c -> distinct_interfaces ex -> judge ex c out l (observe ex c out l) = VOk.
Proof. exact oracle_sound_s. Qed.

(* What a call gets does not depend on the calls the handler served before it
   (on the same or other objects, of the same or other classes): a sequence
   of calls is handled call by call, each as a function of the export table,
   the call and the user code's behaviour at that moment.  Trivial for the
   model, which carries no state from call to call - it names what the
   sequence cases of the correspondence run check of the library's per-class
   and per-function memoisation (_dbusIfaceCache, _dbusCaller). *)
Theorem C10_calls_independent :
  forall ex before c beh after,
    nth_error (handle_all ex (before ++ (c, beh) :: after)) (length before) = Some (handle ex beh c).
Proof. exact calls_independent. Qed.

(* The error names on the replies of the tree under test (regenerated table,
   probed on every run) are those of the specification and of the model. *)
Theorem C10_names_from_source :
  Generated.dispatch_error_names =
  Some [e_unknown_object; e_unknown_method; e_invalid_args; e_python_exception; e_invalid_error_name] /\
  [e_unknown_object; e_unknown_method; e_invalid_args; e_python_exception; e_invalid_error_name] =
  [n_unknown_object; n_unknown_method; n_invalid_args; n_python_exception; n_invalid_error_name].
Proof. exact names_generated. Qed.

(* Defect D30 (repaired): at the pinned commit a raised exception whose text
   holds a NUL character was not answered at all (the error message could not
   be marshalled inside the errback): C10_reply_count failed.  Witness: the
   method raises E('a\0b'); now one error reply, the NUL written out. *)
Theorem C10_reply_count_legacy_refuted :
  let c := w_call None w_bar None [] true in
  let beh := fun _ : invocation => ORaise w_exn_nul in
  wf_call c /\ wf_exports w_exports /\ c_expect c = true /\
  handle_legacy w_exports beh c = HDone [] [mkInv w_f3 [] None] None /\
  handle w_exports beh c =
    HDone [mkReply (KError (n_python_exception ++ [69%N])) 7 (Some w_sender) s_sig (BText [97; 92; 48; 98]%N)]
          [mkInv w_f3 [] None] None.
Proof. exact reply_count_legacy_refuted_w. Qed.

(* Defect D04 (repaired in f756d93), end to end: the wire bytes of a call
   flagged no-reply.  Parsed by the pinned commit's parseMessage (flags byte
   ignored) the dispatched call is answered; parsed by the current one it
   runs and nothing is sent. *)
Theorem C10_noreply_legacy_refuted :
  let beh := fun _ : invocation => OValue PNone in
  (exists c, parse_call false w_raw_noreply = Ok (Some c) /\ wf_call c /\ c_expect c = false /\
             handle w_exports beh c = HDone [] [mkInv w_f3 [] None] None) /\
  (exists c, parse_call true w_raw_noreply = Ok (Some c) /\
             handle w_exports beh c =
               HDone [mkReply KReturn 7 (Some w_sender) [] (BBytes [])] [mkInv w_f3 [] None] None).
Proof. exact noreply_legacy_refuted_w. Qed.

(* Non-vacuity: the hypotheses hold for a world with one member on two
   interfaces and both binding styles, and the model answers as stated. *)
Example C10_hypotheses_inhabited :
  distinct_interfaces w_exports /\ caller_known (w_call None w_bar None [] true).
Proof. exact witness_hyps. Qed.

Example C10_nonvacuous :
  let ex := w_exports in
  let val := fun _ : invocation => OValue (PInt 5) in
  wf_exports ex /\
  handle ex val (w_call (Some w_iface_a) w_foo (Some w_sig_i) [PInt 7] true) =
    HDone [mkReply KReturn 7 (Some w_sender) w_sig_i (BBytes [5; 0; 0; 0]%N)] [mkInv w_f1 [PInt 7] None] None /\
  invocations (handle ex val (w_call (Some w_iface_b) w_foo (Some w_sig_s) [PStr [113%N]] true)) =
    [mkInv w_f2 [PStr [113%N]] (Some (Some w_sender))] /\
  invocations (handle ex val (w_call None w_foo (Some w_sig_i) [PInt 7] true)) = [mkInv w_f1 [PInt 7] None] /\
  handle ex val (w_call None w_foo (Some w_sig_s) [PStr [113%N]] true) =
    HDone [mkReply (KError n_invalid_args) 7 (Some w_sender) s_sig BOther] [] None /\
  handle ex val (w_call (Some w_iface_b) w_bar None [] true) =
    HDone [mkReply (KError n_unknown_method) 7 (Some w_sender) s_sig BOther] [] None /\
  handle ex val (mkCall [47; 98]%N None w_bar None [] (Some w_sender) 7 false) =
    HDone [mkReply (KError n_unknown_object) 7 (Some w_sender) s_sig BOther] [] None /\
  handle ex val (w_call None w_bar None [] false) = HDone [] [mkInv w_f3 [] None] None /\
  handle ex (fun _ => OValue (PStr [120%N])) (w_call (Some w_iface_a) w_foo (Some w_sig_i) [PInt 7] true) =
    HDone [mkReply KEncodeError 7 (Some w_sender) s_sig BOther] [mkInv w_f1 [PInt 7] None] None /\
  (let h := handle ex (fun _ => ODeferred) (w_call (Some w_iface_a) w_foo (Some w_sig_i) [PInt 7] true) in
   all_replies h (LValue (PInt 5)) = [mkReply KReturn 7 (Some w_sender) w_sig_i (BBytes [5; 0; 0; 0]%N)] /\
   all_replies h (LFail (mkExn [69%N] (Some [98; 97; 100]%N) [119; 104; 121]%N)) =
     [mkReply (KError n_invalid_error_name) 7 (Some w_sender) s_sig
              (BText (t_invalid_pre ++ [98; 97; 100]%N ++ t_invalid_post ++ [119; 104; 121]%N))]).
Proof. exact nonvacuous_w. Qed.
