(* C11 - A call through a proxy reaches the remote method and returns what it
   returned.  Statements only; proofs are in Proofs/SystemProofs.v.

   Model (Model/System.v): any number of clients attached to one built-in bus.
   [run g h0 serial0 sched] is the system after the bus has seen the history h0
   (connections made, Hello said, names requested: any history of Model/BusRoute.v),
   every process starting with any serial counter, driven through the schedule
   sched: the application declaring interfaces, obtaining proxies (explicitly or by
   introspection) and calling through them (Model/ProxyCall.v), the bus reading the
   next message of a client (AUp c), a client reading its next message (ADown c),
   a Deferred returned by an exported method firing (AFire).  The components are
   the faithful models of C08 (Model/Calls.v), C14 / C13 / C12 (Model/BusRoute.v),
   C10 (Model/Dispatch.v), C15 (Model/Introspect.v) and the codec of C01 / C02
   (Model/Marshal.v); user code [g_beh] is an arbitrary function from the
   invocation (decoded arguments) to value / exception / unfired Deferred.
   The configuration g (exports, user code, which client lives in which process),
   the setup history, the schedule, the number of clients and of concurrent calls
   are universally quantified.

   Granularity: a schedule delivers one MESSAGE of one link at a time (message
   level).  That the byte stream of a link, cut into arbitrary reads, delivers
   exactly the messages written into it, in order, is C04_partition_independent /
   C04_messages_intact (with C03_frame_length for constructed messages), and that
   a constructed message parses back to its fields is C03_parse_own.  The lifting
   of the message-level theorem to byte schedules is formalised in the second half
   of this file (C11_bytes_refine_messages, C11_end_to_end_byte_level_partial for
   any codec under the premise [good_run]), and the premise is discharged for the
   codec of Model/WireCodec.v in the third (C11_in_flight_headers,
   C11_end_to_end_within_size_limit: what remains is the bound of 2^27 bytes on
   the messages in flight, which the message-level model does not decide).
   The correspondence run does cut every message into random reads.            *)
From Tx Require Import Lib.Base Model.PyVal Model.Validators Model.Marshal Model.BusNames Model.ProxyCall Model.System.
From Tx Require Import Spec.WireSpec Spec.Readback Spec.Conforms Spec.WireTyped Spec.SystemSpec.
From Tx Require Model.Calls Model.BusRoute Model.Dispatch Model.Introspect.
From Tx Require Spec.DispatchSpec Spec.BusRouteSpec.
From Tx Require Proofs.IntrospectProofs.
From Tx Require Import Proofs.SystemProofs.
Local Open Scope N_scope.

(* For every configuration, setup history, serial counters and schedule: take any
   call made through a proxy of an attached client i (the schedule is
   pre ++ [the call] ++ post; s1 is the state in which it is made, n the serial it
   gets, id the number of the Deferred callRemote returns) such that
   - callRemote turns it into the request q (expecting a reply) whose bus name
     denotes the attached client j, and MethodCallMessage accepts q;
   - the arguments conform to the signature the proxy declares for the method;
   - on j, q addresses an exported method m with a bound implementation (the
     specification of C10: addressed / candidates), and the proxy declares m's
     return signature  [for a proxy built by introspection this is
     C11_introspected_proxy below; for an explicit one it is what "declared
     explicitly" means];
   if the run ends quiescent (nothing in flight, no Deferred of an exported method
   open) and neither connection was dropped, then
   - exactly one invocation record on the exporters belongs to this call: a bound
     implementation f ran on j with the READ-BACK (C01) of the arguments passed
     (and the caller's unique name if it asks for it);
   - exactly one result record belongs to it: how that invocation ended, l
     (returned v / raised e, at once or through its Deferred);
   - the caller's Deferred completed exactly once, with x, and x mirrors l
     (Spec/SystemSpec.v): the C08 value convention on the read-back of the value
     returned under the declared return signature, or RemoteError with the error
     name C10 assigns and the exception text.
   [stuck]: i or j had its connection dropped (an exception escaped dataReceived),
   or j's process has used up the 2^32 serials (C03_serials_exhausted). *)
Theorem C11_end_to_end_message_level_partial :
  forall (g : config) (h0 : list BusRoute.event) (serial0 : nat -> N)
         (pre post : list action) (i j : client) (pidx : nat) (member : str) (args : list pyval) (kw : kwargs)
         (px : proxy) (q : creq) (d : str) (ts_in ts_out : list ty) (ws_in : list wval)
         (o : Dispatch.object) (im : Dispatch.iface) (m : Dispatch.meth),
  let B := fst (BusRoute.run h0) in
  let s1 := run g h0 serial0 pre in
  let st := run g h0 serial0 (pre ++ ACall i pidx member args kw :: post) in
  let n := p_serial (proc_of g s1 i) in
  let id := Calls.st_next_id (s_calls s1 i) in
  let dc := arriving_call q (arrived ts_in ws_in) (unique_name i) (Z.of_N n) in
  all_hello B -> mem i (b_clients (BusRoute.r_bus B)) = true -> mem j (b_clients (BusRoute.r_bus B)) = true ->
  validate_bus (unique_name i) = true ->
  nth_error (s_proxies s1 i) pidx = Some px ->
  call_remote (ifaces_of (p_heap (proc_of g s1 i)) (px_ifaces px)) (px_bus px) (px_path px) member args kw = PcCall q ->
  q_expect q = true -> q_dest q = Some d -> route B d = Some j ->
  q_sig q = Some (show_list ts_in) -> q_args q = args ->
  constructible q -> n <= Calls.max_serial ->
  (* the request does not exceed DBusMessage._maxMsgLen ([g_limit g]; Model/System.v decides it as
     _marshal does: the MethodCallMessage constructor raises, callRemote returns defer.fail()) *)
  (forall body, encode_body (g_fuel g) (q_sig q) (PTuple (q_args q)) (Some []) = Ok body ->
                too_big (g_limit g) (g_fuel g) (call_msg q n body) = false) ->
  passed ts_in args ws_in (g_fuel g) ->
  DispatchSpec.distinct_interfaces (g_exports g j) -> DispatchSpec.builtin dc = false ->
  DispatchSpec.addressed (g_exports g j) dc = DispatchSpec.TMethod o im m ->
  DispatchSpec.candidates o (Dispatch.i_name im) (q_member q) <> [] ->
  q_rs q = Calls.RsStr (Dispatch.m_out m) -> Dispatch.m_out m = show_list ts_out ->
  quiescent st -> ~ stuck g i j st ->
  exists f l x,
    In f (DispatchSpec.candidates o (Dispatch.i_name im) (q_member q)) /\
    only (has_tag (tag_of i n)) (s_invs st) (j, tag_of i n, DispatchSpec.expected_invocation dc f) /\
    only (has_tag (tag_of i n)) (s_results st) (j, tag_of i n, l) /\
    only (is_done i id) (s_done st) (i, id, x) /\
    mirrors ts_out (g_fuel g) l x.
Proof. exact end_to_end. Qed.

(* Behind it: in every reachable state, whatever the schedule, no two things in
   flight (requests and replies on the links, open Deferreds of exported methods)
   belong to the same call - a call being named by the caller's unique name and
   the serial of its request, read off the messages themselves ([tokens]); this
   is where C14 (the bus keeps the serial and stamps the true sender) and C10
   (the reply goes to the sender with the call's serial) are used. *)
Theorem C11_one_token_per_call :
  forall g h0 serial0 sched,
    all_hello (fst (BusRoute.run h0)) ->
    forall t, (cnt t (tokens (run g h0 serial0 sched)) <= 1)%nat.
Proof. intros g h0 serial0 sched AH. exact (iv_once _ _ _ (inv_run g h0 serial0 sched AH)). Qed.

(* The bus name of a proxy denotes, for the model's bus, the connection it denotes
   in the reference name table of C13 / C14 after the same history: the live
   connection with that unique name, or the owner of that well-known name. *)
Theorem C11_bus_name_denotes :
  forall h d, d <> [] ->
    route (fst (BusRoute.run h)) d
    = BusRouteSpec.addressee (BusRouteSpec.s_table (fst (BusRouteSpec.srun h))) d.
Proof. exact route_is_addressee. Qed.

(* "... or discovered by introspection": for an object whose interfaces ifs were
   made by the declaring API (any definitions), in any world where replacement is
   asked for or the names are not known yet, with any required names among them:
   the document the exporter generates parses, getRemoteObject's callbacks hand
   out a proxy for that bus name and path, and that proxy turns every callRemote
   - any member, arguments, keywords - into exactly what a proxy holding the
   exporter's interface objects (followed by the three standard interfaces) turns
   it into: same request, same local exception.  (C15_roundtrip_exact.) *)
Theorem C11_introspected_proxy :
  forall replace heap known path exported ifs bus required,
    alist_get str_eqb path exported = Some ifs ->
    Forall IntrospectProofs.built ifs ->
    IntrospectProofs.fresh replace known (ifs ++ IntrospectProofs.std_ifaces) ->
    (forall r, In r required -> In r (map Introspect.i_name (ifs ++ IntrospectProofs.std_ifaces))) ->
    exists evs px heap' known',
      Introspect.gen_doc path exported = Ok (Some evs) /\
      introspected replace heap known required bus path evs = IProxy px heap' known' /\
      px_bus px = bus /\ px_path px = path /\
      forall mname args kw,
        call_remote (ifaces_of heap' (px_ifaces px)) bus path mname args kw =
        call_remote (ifs ++ IntrospectProofs.std_ifaces) bus path mname args kw.
Proof. exact introspected_proxy. Qed.

(* the interfaces an exporter of the model shows to introspection are such objects *)
Theorem C11_exported_interfaces_built : forall i, IntrospectProofs.built (conv_iface i).
Proof. exact conv_iface_built. Qed.

(* ---- non-vacuity ------------------------------------------------------------------ *)
(* Three clients, each its own process; client 2 exports /o with a.b.M(i) -> i
   returning its argument; clients 1 and 3 hold explicit proxies and call M(7), M(9)
   concurrently.  Order A drains the links caller side first; in order B client 3's
   call is dispatched before client 1 has made its own and the replies overtake.
   Both runs end quiescent with each caller holding its own value. *)
Example C11_two_delivery_orders :
  x_done (x_run x_order_a) = [(1, 0%nat, CValue (Some (PInt 7))); (3, 0%nat, CValue (Some (PInt 9)))] /\
  x_args (x_run x_order_a) = [(2, [PInt 7]); (2, [PInt 9])] /\
  s_net (x_run x_order_a) = [] /\ s_open (x_run x_order_a) = [] /\
  x_done (x_run x_order_b) = [(3, 0%nat, CValue (Some (PInt 9))); (1, 0%nat, CValue (Some (PInt 7)))] /\
  x_args (x_run x_order_b) = [(2, [PInt 9]); (2, [PInt 7])] /\
  s_net (x_run x_order_b) = [] /\ s_open (x_run x_order_b) = [].
Proof. exact example_two_orders. Qed.

(* every hypothesis of C11_end_to_end_message_level_partial holds for the call of
   client 1 in order B (the remaining ones - q's fields - hold by reflexivity) *)
Example C11_hypotheses_inhabited :
  let B := fst (BusRoute.run x_h0) in
  let s1 := x_run x_pre_b in
  let st := x_run (x_pre_b ++ x_call 1 7 :: x_post_b) in
  let n := p_serial (proc_of x_cfg s1 1) in
  let dc := arriving_call x_q (arrived [TInt32] [WInt 7]) (unique_name 1) (Z.of_N n) in
  all_hello B /\ mem 1 (b_clients (BusRoute.r_bus B)) = true /\ mem 2 (b_clients (BusRoute.r_bus B)) = true /\
  validate_bus (unique_name 1) = true /\
  nth_error (s_proxies s1 1) 0 = Some x_px /\
  call_remote (ifaces_of (p_heap (proc_of x_cfg s1 1)) (px_ifaces x_px)) (px_bus x_px) (px_path x_px) x_M [PInt 7] kw_default
    = PcCall x_q /\
  route B (unique_name 2) = Some 2 /\
  constructible x_q /\ n <= Calls.max_serial /\
  (forall body, encode_body (g_fuel x_cfg) (q_sig x_q) (PTuple (q_args x_q)) (Some []) = Ok body ->
                too_big (g_limit x_cfg) (g_fuel x_cfg) (call_msg x_q n body) = false) /\
  passed [TInt32] [PInt 7] [WInt 7] (g_fuel x_cfg) /\
  DispatchSpec.distinct_interfaces (g_exports x_cfg 2) /\ DispatchSpec.builtin dc = false /\
  DispatchSpec.addressed (g_exports x_cfg 2) dc = DispatchSpec.TMethod [x_class] x_im x_m /\
  DispatchSpec.candidates [x_class] (Dispatch.i_name x_im) (q_member x_q) <> [] /\
  quiescent st /\ ~ stuck x_cfg 1 2 st.
Proof. exact example_hypotheses. Qed.

(* ======================================================================================
   BYTE level (Model/SystemBytes.v).  Same components and application actions; a link
   carries the concatenation of the raw encodings [enc] of the messages written on it,
   [BDeliver lk n] hands the link's reader the next n pending bytes in one read - any n -,
   the reader is BasicDBusProtocol.dataReceived after authentication (Model/Framing.v:
   the subject of C04), each message it frames is parsed ([dec]) and given to the same
   handler as at message level.  The codec (enc, dec) is universally quantified; what is
   asked of it is [encodable m] for the messages in flight: enc m announces its own length
   (what C03_frame_length / C03_frame_shape + C04_wellframed_from_frame_len establish of
   constructed messages) and dec (enc m) = Some m (C03_parse_own; C14_unchanged for what
   the bus re-serialises).  [good_run bs sched]: at every step of the run, every message in
   flight is encodable. *)
From Tx Require Import Model.SystemBytes Model.WireCodec Proofs.SystemBytesProofs.
From Tx Require Model.Framing Spec.FramingSpec.

(* One link (from the lemmas behind C04_partition_independent / C04_messages_intact): the
   reader has buffered a beginning of the link's stream; then ANY read of the pending bytes
   - one byte, a piece of a header, one and a half messages, everything - frames exactly
   the first k messages written, byte-identical, in order (each when its last byte
   arrives), and the reader stands in the same relation to the remaining ones. *)
Theorem C11_link_any_chunking :
  forall (enc : BusRoute.bmsg -> bytes) (r : rx_state) (ws : list wire) (n : nat),
    rx_ok enc r ws -> Forall (fun w => FramingSpec.wellframed (enc (w_msg w))) ws ->
    let chunk := firstn n (skipn (length (Framing.s_buf r)) (stream enc ws)) in
    exists k, snd (rx_recv r chunk) = map Framing.Msg (encs enc (firstn k ws)) /\
              rx_ok enc (fst (rx_recv r chunk)) (skipn k ws).
Proof. exact (fun enc => link_read enc (fun _ => None)). Qed.

(* Every byte-level schedule IS a message-level schedule: the run reports the message-level
   actions it amounts to (a delivery AUp c / ADown c per message, at the read carrying its
   last byte), and the state - invocation records, result records, completions, pending
   calls, everything - is the state of Model/System.v after exactly that schedule. *)
Theorem C11_bytes_refine_messages :
  forall g enc dec h0 serial0 sched,
    good_run g enc dec (binit (init h0 serial0)) sched ->
    bs_sys (fst (brun g enc dec h0 serial0 sched)) = run g h0 serial0 (snd (brun g enc dec h0 serial0 sched)).
Proof. exact bytes_refine_messages. Qed.

(* The end-to-end statement over BYTE-level schedules: C11_end_to_end_message_level_partial
   composed with the refinement.  `_partial` because of the one premise [good_run]: that every
   message in flight is encodable is proved here neither for all messages the model's senders
   produce nor for the concrete codec of Model/WireCodec.v (Message.marshal_header /
   the header part of parse_message) - it is decided by computation on the example below
   and checked by the correspondence run on every message of every case (OpsC11 `codec`).
   The premise is discharged for the concrete codec, up to the size limit, by
   C11_in_flight_headers / C11_sized_run_is_good_run below; C11_end_to_end_within_size_limit
   is this theorem without [good_run]. *)
Theorem C11_end_to_end_byte_level_partial :
  forall (g : config) (enc : BusRoute.bmsg -> bytes) (dec : bytes -> option BusRoute.bmsg)
         (h0 : list BusRoute.event) (serial0 : nat -> N)
         (bpre bpost : list baction) (i j : client) (pidx : nat) (member : str) (args : list pyval) (kw : kwargs)
         (px : proxy) (q : creq) (d : str) (ts_in ts_out : list ty) (ws_in : list wval)
         (o : Dispatch.object) (im : Dispatch.iface) (m : Dispatch.meth),
  let B := fst (BusRoute.run h0) in
  let s1 := bs_sys (fst (brun g enc dec h0 serial0 bpre)) in
  let st := bs_sys (fst (brun g enc dec h0 serial0 (bpre ++ BApp (ACall i pidx member args kw) :: bpost))) in
  let n := p_serial (proc_of g s1 i) in
  let id := Calls.st_next_id (s_calls s1 i) in
  let dc := arriving_call q (arrived ts_in ws_in) (unique_name i) (Z.of_N n) in
  good_run g enc dec (binit (init h0 serial0)) (bpre ++ BApp (ACall i pidx member args kw) :: bpost) ->
  all_hello B -> mem i (b_clients (BusRoute.r_bus B)) = true -> mem j (b_clients (BusRoute.r_bus B)) = true ->
  validate_bus (unique_name i) = true ->
  nth_error (s_proxies s1 i) pidx = Some px ->
  call_remote (ifaces_of (p_heap (proc_of g s1 i)) (px_ifaces px)) (px_bus px) (px_path px) member args kw = PcCall q ->
  q_expect q = true -> q_dest q = Some d -> route B d = Some j ->
  q_sig q = Some (show_list ts_in) -> q_args q = args ->
  constructible q -> n <= Calls.max_serial ->
  (forall body, encode_body (g_fuel g) (q_sig q) (PTuple (q_args q)) (Some []) = Ok body ->
                too_big (g_limit g) (g_fuel g) (call_msg q n body) = false) ->
  passed ts_in args ws_in (g_fuel g) ->
  DispatchSpec.distinct_interfaces (g_exports g j) -> DispatchSpec.builtin dc = false ->
  DispatchSpec.addressed (g_exports g j) dc = DispatchSpec.TMethod o im m ->
  DispatchSpec.candidates o (Dispatch.i_name im) (q_member q) <> [] ->
  q_rs q = Calls.RsStr (Dispatch.m_out m) -> Dispatch.m_out m = show_list ts_out ->
  quiescent st -> ~ stuck g i j st ->
  exists f l x,
    In f (DispatchSpec.candidates o (Dispatch.i_name im) (q_member q)) /\
    only (has_tag (tag_of i n)) (s_invs st) (j, tag_of i n, DispatchSpec.expected_invocation dc f) /\
    only (has_tag (tag_of i n)) (s_results st) (j, tag_of i n, l) /\
    only (is_done i id) (s_done st) (i, id, x) /\
    mirrors ts_out (g_fuel g) l x.
Proof. exact end_to_end_bytes. Qed.

(* the premise is decidable for a computable codec: the boolean check implies it *)
Theorem C11_good_run_decidable :
  forall g enc dec sched bs, good_runb g enc dec bs sched = true -> good_run g enc dec bs sched.
Proof. exact good_runb_ok. Qed.

(* Non-vacuity: the two-delivery-order scenario, order B, with the concrete codec of
   Model/WireCodec.v, everything the exporter reads arriving ONE BYTE at a time (200
   one-byte reads per message slot; the first request is 92 bytes long), the other links
   in whole reads.  The byte-level run amounts to exactly the message-level order B, ends
   quiescent with the same completions and invocation arguments, and every message in
   flight at every step is encodable (the premise of the two theorems above). *)
Example C11_bytewise_delivery :
  length (y_enc (call_msg (mkReq x_path x_M (Some x_iface) (Some (unique_name 2)) (Some x_i) [PInt 9] true true None
                                 (Calls.RsStr x_i)) 10 [9; 0; 0; 0])) = 92%nat /\
  snd y_run = x_order_b /\
  x_done (bs_sys (fst y_run)) = [(3, 0%nat, CValue (Some (PInt 9))); (1, 0%nat, CValue (Some (PInt 7)))] /\
  x_args (bs_sys (fst y_run)) = [(2, [PInt 9]); (2, [PInt 7])] /\
  s_net (bs_sys (fst y_run)) = [] /\ s_open (bs_sys (fst y_run)) = [] /\
  good_runb x_cfg y_enc y_dec (binit (init x_h0 (fun _ => 10))) y_sched = true.
Proof. exact example_bytes. Qed.

(* ======================================================================================
   The premise [good_run], discharged for the codec of Model/WireCodec.v
   (Proofs/WireCodecProofs.v, Proofs/SystemCodecProofs.v).

   [hdr_ok m]: m is little-endian, of type 1..4, flags below 4, serial and reply serial
   within UINT32, path an object path, interface / member / error name / destination /
   sender DBus strings, signature ASCII of at most 255 bytes, only the fields of its type's
   table present.  [fits m]: header + padding + body are at most 2^27 bytes. *)
From Tx Require Import Proofs.WireCodecProofs Proofs.SystemCodecProofs.

(* such a message is encoded well-framed (marshal_header: C03_frame_length / C03_fixed_part)
   and its encoding parses back to it (the header half of C03_parse_own; the body stays raw) *)
Theorem C11_header_ok_encodable :
  forall fuel m, hdr_ok m -> fits m -> (4 <= fuel)%nat -> encodable (wire_enc fuel) (wire_dec fuel) m.
Proof. exact hdr_ok_encodable. Qed.

(* ':1.<n>' is a DBus string for every n: no hypothesis on unique names is needed *)
Theorem C11_unique_name_is_string : forall c, MsgSpec.string_ok (unique_name c) = true.
Proof. exact unique_name_string_ok. Qed.

(* INVARIANT of System.step, under side conditions on the configuration only ([cfg_ok g]: the
   declared return signatures of the exported methods are ASCII of at most 255 bytes; the
   error name Model/Dispatch.v leaves open - KEncodeError, in txdbus the class name of a
   marshalling exception - is an interface name): every message in flight satisfies
   [hdr_ok], whichever of the model's senders wrote it -
     (a) the calls of DBusClientConnection.callRemote ([hdr_ok_call_msg], from validate_args
         and the header check),
     (b) the replies of the dispatcher ([hdr_ok_reply], [handle_wf], [fire_wf]: destination
         and reply serial are those of a call that was itself in flight),
     (c) what the bus forwards ([hdr_ok_forwarded], [bus_step_fwd]: the table-filtered copy
         with the sender's unique name; cf. C14_unchanged),
     (d) the bus's own replies and signals are not carried by Model/System.v: nothing to show. *)
Theorem C11_in_flight_headers :
  (forall g s a, cfg_ok g -> HdrInv s -> HdrInv (step g s a)) /\
  (forall h0 serial0, HdrInv (init h0 serial0)).
Proof. exact (conj hdrinv_step hdrinv_init). Qed.

(* hence, for byte-level runs with the concrete codec: [good_run] follows from the size bound
   alone.  [sized_run g fuel bs sched]: at every step of the run every message in flight
   [fits].  Model/System.v does not decide sizes (message.py refuses to marshal more than
   2^27 bytes; the model sends whatever the body codec produced), so this stays a premise
   on the run; it is decidable ([sized_runb]). *)
Theorem C11_sized_run_is_good_run :
  forall g fuel h0 serial0 sched,
    cfg_ok g -> (4 <= fuel)%nat ->
    sized_run g fuel (binit (init h0 serial0)) sched ->
    good_run g (wire_enc fuel) (wire_dec fuel) (binit (init h0 serial0)) sched.
Proof. exact sized_good_init. Qed.

Theorem C11_sized_run_decidable :
  forall g fuel sched bs, sized_runb g fuel bs sched = true -> sized_run g fuel bs sched.
Proof. exact sized_runb_ok. Qed.

Theorem C11_bytes_refine_messages_within_size_limit :
  forall g fuel h0 serial0 sched,
    cfg_ok g -> (4 <= fuel)%nat -> sized_run g fuel (binit (init h0 serial0)) sched ->
    bs_sys (fst (brun g (wire_enc fuel) (wire_dec fuel) h0 serial0 sched))
    = run g h0 serial0 (snd (brun g (wire_enc fuel) (wire_dec fuel) h0 serial0 sched)).
Proof. exact bytes_refine_messages_sized. Qed.

(* The end-to-end statement over BYTE-level schedules with the codec of Model/WireCodec.v
   and NO premise about encodability: C11_end_to_end_byte_level_partial with [good_run]
   replaced by [cfg_ok g] (configuration), [4 <= fuel] (codec recursion fuel) and
   [sized_run] (no message in flight above 2^27 bytes). *)
Theorem C11_end_to_end_within_size_limit :
  forall (g : config) (fuel : nat)
         (h0 : list BusRoute.event) (serial0 : nat -> N)
         (bpre bpost : list baction) (i j : client) (pidx : nat) (member : str) (args : list pyval) (kw : kwargs)
         (px : proxy) (q : creq) (d : str) (ts_in ts_out : list ty) (ws_in : list wval)
         (o : Dispatch.object) (im : Dispatch.iface) (m : Dispatch.meth),
  let enc := wire_enc fuel in
  let dec := wire_dec fuel in
  let B := fst (BusRoute.run h0) in
  let s1 := bs_sys (fst (brun g enc dec h0 serial0 bpre)) in
  let st := bs_sys (fst (brun g enc dec h0 serial0 (bpre ++ BApp (ACall i pidx member args kw) :: bpost))) in
  let n := p_serial (proc_of g s1 i) in
  let id := Calls.st_next_id (s_calls s1 i) in
  let dc := arriving_call q (arrived ts_in ws_in) (unique_name i) (Z.of_N n) in
  cfg_ok g -> (4 <= fuel)%nat ->
  sized_run g fuel (binit (init h0 serial0)) (bpre ++ BApp (ACall i pidx member args kw) :: bpost) ->
  all_hello B -> mem i (b_clients (BusRoute.r_bus B)) = true -> mem j (b_clients (BusRoute.r_bus B)) = true ->
  validate_bus (unique_name i) = true ->
  nth_error (s_proxies s1 i) pidx = Some px ->
  call_remote (ifaces_of (p_heap (proc_of g s1 i)) (px_ifaces px)) (px_bus px) (px_path px) member args kw = PcCall q ->
  q_expect q = true -> q_dest q = Some d -> route B d = Some j ->
  q_sig q = Some (show_list ts_in) -> q_args q = args ->
  constructible q -> n <= Calls.max_serial ->
  (forall body, encode_body (g_fuel g) (q_sig q) (PTuple (q_args q)) (Some []) = Ok body ->
                too_big (g_limit g) (g_fuel g) (call_msg q n body) = false) ->
  passed ts_in args ws_in (g_fuel g) ->
  DispatchSpec.distinct_interfaces (g_exports g j) -> DispatchSpec.builtin dc = false ->
  DispatchSpec.addressed (g_exports g j) dc = DispatchSpec.TMethod o im m ->
  DispatchSpec.candidates o (Dispatch.i_name im) (q_member q) <> [] ->
  q_rs q = Calls.RsStr (Dispatch.m_out m) -> Dispatch.m_out m = show_list ts_out ->
  quiescent st -> ~ stuck g i j st ->
  exists f l x,
    In f (DispatchSpec.candidates o (Dispatch.i_name im) (q_member q)) /\
    only (has_tag (tag_of i n)) (s_invs st) (j, tag_of i n, DispatchSpec.expected_invocation dc f) /\
    only (has_tag (tag_of i n)) (s_results st) (j, tag_of i n, l) /\
    only (is_done i id) (s_done st) (i, id, x) /\
    mirrors ts_out (g_fuel g) l x.
Proof. exact end_to_end_bytes_sized. Qed.

(* Non-vacuity of the new hypotheses: the byte-wise scenario above, in a configuration
   satisfying [cfg_ok]; the size bound holds at every step (decided by computation), the run
   amounts to order B and ends quiescent with both calls completed. *)
Example C11_sized_hypotheses_inhabited :
  cfg_ok z_cfg /\
  (sized_runb z_cfg 8 (binit (init x_h0 (fun _ => 10))) y_sched = true /\
   snd z_run = x_order_b /\
   x_done (bs_sys (fst z_run)) = [(3, 0%nat, CValue (Some (PInt 9))); (1, 0%nat, CValue (Some (PInt 7)))] /\
   s_net (bs_sys (fst z_run)) = [] /\ s_open (bs_sys (fst z_run)) = []).
Proof. exact (conj z_cfg_ok example_sized). Qed.
