(* C06 - The bus authenticates a peer only after a mechanism accepted it.
   Statements only; proofs are in Proofs/AuthProofs.v.

   Model/AuthServer.v is the faithful model of BusAuthenticator and of the server
   side of BasicDBusProtocol's line mode; [run_lines F I mechs guid w lines] is
   what a connection does (lines written, mechanism verdicts as ghost events,
   Close, Authenticated, exception) on the authentication lines [lines] received
   after the NUL byte; [line_trace] is the same run line by line.  [I : mech_if M]
   is ANY implementation of the mechanisms over ANY world M (instantiation,
   step(), cancel() as arbitrary functions); [oracle_if] is the instance "scripts
   of verdicts", [concrete_if] the three mechanisms of txdbus.  [F : fixes] says
   which of the repairs D09/D10a/D10b/D11 the tree carries ([current]: all,
   [legacy]: none).  Spec/AuthSpec.v is the DBus specification's server state
   machine with the property's closing rules. *)
From Tx Require Import Lib.Base Model.AuthText Model.AuthServer Spec.AuthSpec Proofs.AuthProofs.
From Tx Require Model.Framing Spec.FramingSpec Proofs.AuthFramingBridge.
From Tx Require Import Model.CookieStore Proofs.CookieStoreProofs.
From Tx Require Gen.Generated.
Local Open Scope N_scope.

(* ----- safety ----------------------------------------------------------------
   For every implementation of the mechanisms, every set of repairs, every list
   of offered mechanisms and every sequence of lines: if connectionAuthenticated
   runs, then at some line i a mechanism the bus offers returned OK (the bus
   answered OK <guid>), at a later line j the peer sent BEGIN and that line did
   nothing but authenticate, and every line in between was answered with ERROR
   only - no rejection, no cancel, no other verdict, nothing closed. *)
Theorem C06_safety :
  forall (M : Type) (F : fixes) (I : mech_if M) (mechs : list bytes) (guid : bytes)
         (w : M) (lines : list bytes),
    In OAuthd (run_lines F I mechs guid w lines) ->
    let t := line_trace F I mechs guid (line_conn w) lines in
    exists i j,
      (i < j)%nat /\
      (exists li m, In m mechs /\ nth_error t i = Some (li, [OMech m VOk; OLine (sp w_OK guid)])) /\
      (exists lj, nth_error t j = Some (lj, [OAuthd]) /\ fst (cut_space lj) = w_BEGIN) /\
      (forall k lk ok, (i < k < j)%nat -> nth_error t k = Some (lk, ok) ->
                       exists e, ok = [OLine e] /\ parse_reply e = RError).
Proof. exact (@safety). Qed.

(* [line_trace] really is the run: its outputs, concatenated, are [run_lines] *)
Theorem C06_trace_is_run :
  forall (M : Type) (F : fixes) (I : mech_if M) mechs guid (w : M) lines,
    run_lines F I mechs guid w lines =
    concat (map snd (line_trace F I mechs guid (line_conn w) lines)).
Proof. intros. apply trace_outputs. Qed.

(* ----- the state machine -----------------------------------------------------
   With scripted mechanisms - every script of OK / CONTINUE(challenge) / REJECTED
   outcomes - and every sequence of lines whose command word is ASCII, what the
   bus does is what the specification's server does: the same replies (REJECTED
   with the mechanism list, OK guid, DATA hex, ERROR), the same consultations of
   the mechanisms, Close and Authenticated at the same points, never an
   exception.  (A CONTINUE carrying a non-empty str as challenge is ill-typed:
   excluded by [well_typed].) *)
Theorem C06_follows_spec :
  forall (mechs : list bytes) (guid : bytes) (script : list verdict) (lines : list bytes),
    Forall well_typed script ->
    Forall (fun l => all_ascii (fst (cut_space l)) = true) lines ->
    map abs_out (run_lines current oracle_if mechs guid script lines) =
    spec_lines mechs guid false 5%nat 16384 script lines.
Proof. exact follows_spec. Qed.

(* The same from the first byte on, for the whole byte stream of a connection
   arriving in one read: initial NUL, \r\n framing, and the rule for the line
   still being received at the end (Spec/AuthSpec.v spec_stream: more than
   16384 + 1 bytes without \r\n can no longer become an acceptable line and
   disconnect; exactly 16385 may still be a maximal line and the \r of its
   delimiter).  That the result does not depend on how the stream is cut into
   reads is C06_cut_independent below; with it this theorem speaks about every
   partition of the stream whose first read is not empty. *)
Theorem C06_follows_spec_stream :
  forall (mechs : list bytes) (guid : bytes) (script : list verdict) (stream : bytes),
    stream <> [] -> Forall well_typed script ->
    Forall (fun l => all_ascii (fst (cut_space l)) = true) (removelast (split_crlf (tl stream))) ->
    map abs_out (run_reads current oracle_if mechs guid script [stream]) =
    spec_stream mechs guid false 5%nat 16384 script stream.
Proof. exact follows_spec_stream. Qed.

(* ----- independence of the cutting into reads ----------------------------------
   protocol.py's dataReceived is modelled twice: here with the BusAuthenticator
   built in (Model/AuthServer.v recv), and in Model/Framing.v for an arbitrary
   authenticator (C04).  [bus_astep] is the BusAuthenticator model as Framing's
   authenticator parameter (one step = handle on one complete line; result
   AContinue / ADone = authenticationSucceeded() / AFail =
   DBusAuthenticationFailed / ACrash = another exception).  Framing's events
   are Line l (handleAuthMessage(l) was called), AuthOk, Close, Crash, Msg; what
   the authenticator wrote is recovered by [replay], which runs handle over the
   Line events again and maps AuthOk -> OAuthd, Close -> OClose, Crash -> OCrash,
   Msg -> nothing.  The refinement holds for EVERY sequence of reads, every
   mechanism implementation and every repair set carrying D32 (the bound on the
   unfinished line Framing's current model has), with no side condition: an
   empty first read is an exception in both models; after Close or an exception
   Framing's transport delivers nothing where the C06 model delivers to a
   connection that ignores it; after authentication the C06 model observes
   nothing and Framing produces messages only. *)
Theorem C06_framing_bridge :
  forall (M : Type) (F : fixes) (I : mech_if M) (mechs : list bytes) (guid : bytes),
    fx32 F = true ->
    forall (w : M) (reads : list bytes),
      run_reads F I mechs guid w reads =
      snd (AuthFramingBridge.replay F I mechs guid (init_auth w)
             (fst (Framing.run (AuthFramingBridge.bus_astep F I mechs guid) MAX_AUTH false
                               (init_auth w) reads))).
Proof. exact (@AuthFramingBridge.bridge). Qed.

(* Hence, with C04's partition theorem (Props/C04.v C04_any_two_partitions; used
   through FramingProofs.any_two_partitions, which it restates): for every
   mechanism implementation and every byte stream, two partitions into reads
   (the first read of each not empty - the reactor never delivers an empty
   read) make the bus write the same lines, consult the mechanisms alike, and
   close, authenticate or fail identically. *)
Theorem C06_cut_independent :
  forall (M : Type) (F : fixes) (I : mech_if M) (mechs : list bytes) (guid : bytes),
    fx32 F = true ->
    forall (w : M) (reads1 reads2 : list bytes),
      FramingSpec.first_read_nonempty reads1 -> FramingSpec.first_read_nonempty reads2 ->
      concat reads1 = concat reads2 ->
      run_reads F I mechs guid w reads1 = run_reads F I mechs guid w reads2.
Proof. exact (@AuthFramingBridge.cut_independent). Qed.

(* Together with C06_follows_spec_stream: for EVERY partition of the stream into
   reads (first read not empty) the bus, with scripted mechanisms, does what
   the specification prescribes for the whole stream. *)
Theorem C06_follows_spec_any_partition :
  forall (mechs : list bytes) (guid : bytes) (script : list verdict) (reads : list bytes),
    FramingSpec.first_read_nonempty reads -> concat reads <> [] ->
    Forall well_typed script ->
    Forall (fun l => all_ascii (fst (cut_space l)) = true)
           (removelast (split_crlf (tl (concat reads)))) ->
    map abs_out (run_reads current oracle_if mechs guid script reads) =
    spec_stream mechs guid false 5%nat 16384 script (concat reads).
Proof. exact AuthFramingBridge.follows_spec_any_partition. Qed.

(* Non-vacuity: NUL "AUTH ANONYMOUS" / a line of exactly 16384 bytes / "BEGIN",
   in one read, and cut into 19 reads (the first line byte by byte, then a cut
   between the long line's \r and \n): the same four events, ending
   authenticated.  Without D32 the second cutting closed the connection instead
   (the hypothesis fx32 F = true is needed). *)
Example C06_cut_instance :
  FramingSpec.first_read_nonempty AuthFramingBridge.ex_cut /\
  concat AuthFramingBridge.ex_cut = AuthFramingBridge.ex_stream /\
  N.of_nat (length AuthFramingBridge.ex_long) = MAX_AUTH /\
  length AuthFramingBridge.ex_cut = 19%nat /\
  let want := [OMech n_ANONYMOUS VOk; OLine (sp w_OK [103]); OLine l_ERROR_unknown; OAuthd] in
  run_reads current oracle_if [n_ANONYMOUS] [103] [VOk] [AuthFramingBridge.ex_stream] = want /\
  run_reads current oracle_if [n_ANONYMOUS] [103] [VOk] AuthFramingBridge.ex_cut = want /\
  run_reads AuthFramingBridge.before_D32 oracle_if [n_ANONYMOUS] [103] [VOk] [AuthFramingBridge.ex_stream] = want /\
  run_reads AuthFramingBridge.before_D32 oracle_if [n_ANONYMOUS] [103] [VOk] AuthFramingBridge.ex_cut =
    [OMech n_ANONYMOUS VOk; OLine (sp w_OK [103]); OClose].
Proof. exact AuthFramingBridge.ex_cut_facts. Qed.

(* ----- closing ---------------------------------------------------------------
   For every implementation of the mechanisms: BEGIN out of turn, a first byte
   other than NUL, a finished line longer than MAX_AUTH_LENGTH close the
   connection and do nothing else; so does a read that leaves an unfinished line
   of more than [buf_limit F] bytes, while one within that bound is kept and
   nothing happens ([buf_limit] is MAX_AUTH_LENGTH + 1 on the current tree - the
   remainder may end with the \r of a line of the maximum length - and
   MAX_AUTH_LENGTH before repair D32: C06_buf_limit); a closed connection ignores
   lines and reads; Close is the last thing a connection does. *)
Theorem C06_closes :
  forall (M : Type) (F : fixes) (I : mech_if M) (mechs : list bytes) (guid : bytes),
    (forall c l, c_mode c = Live -> a_state (c_auth c) <> WaitingForBegin ->
                 fst (cut_space l) = w_BEGIN ->
                 feed F I mechs guid c l = (with_mode c Closed (c_auth c), [OClose])) /\
    (forall (w : M) b d, b <> 0 ->
                 recv F I mechs guid (init_conn w) (b :: d) =
                 (with_mode (init_conn w) Closed (init_auth w), [OClose])) /\
    (forall c l, c_mode c = Live -> MAX_AUTH < N.of_nat (length l) ->
                 feed F I mechs guid c l = (with_mode c Closed (c_auth c), [OClose])) /\
    (forall c d x, c_mode c = Live -> c_first c = false -> split_crlf (c_buf c ++ d) = [x] ->
                 (buf_limit F < N.of_nat (length x) ->
                    snd (recv F I mechs guid c d) = [OClose] /\
                    c_mode (fst (recv F I mechs guid c d)) = Closed) /\
                 (N.of_nat (length x) <= buf_limit F ->
                    snd (recv F I mechs guid c d) = [] /\
                    c_mode (fst (recv F I mechs guid c d)) = Live /\
                    c_buf (fst (recv F I mechs guid c d)) = x)) /\
    (forall c, c_mode c <> Live ->
                 (forall l, feed F I mechs guid c l = (c, [])) /\
                 (forall d, recv F I mechs guid c d = (c, []))) /\
    (forall (w : M) lines a b, run_lines F I mechs guid w lines = a ++ OClose :: b -> b = []).
Proof.
  intros M F I mechs guid.
  split; [exact (begin_out_of_turn F I mechs guid)|].
  split; [exact (first_byte_not_nul F I mechs guid)|].
  split; [exact (long_line F I mechs guid)|].
  split; [intros c d x Hl Hf Hs; split;
            [apply (long_unfinished_line F I mechs guid)|apply (short_unfinished_line F I mechs guid)];
            assumption|].
  split; [intros c Hc; split; intros x; [apply feed_closed|apply recv_closed]; exact Hc|].
  exact (close_is_last F I mechs guid).
Qed.

Theorem C06_buf_limit :
  forall F, buf_limit F = if fx32 F then 16385 else 16384.
Proof. intros F. unfold buf_limit. destruct (fx32 F); reflexivity. Qed.

(* "after more than five rejections": a connection never writes more than five
   REJECTED lines; the counter follows them exactly; once it stands at five, no
   line produces a REJECTED and a connection that is still open afterwards has
   not counted a further rejection (the sixth one closed it). *)
Theorem C06_closes_after_five_rejections :
  forall (M : Type) (F : fixes) (I : mech_if M) (mechs : list bytes) (guid : bytes),
    (forall (w : M) lines, (count_rejected (run_lines F I mechs guid w lines) <= 5)%nat) /\
    (forall c l, c_mode c = Live ->
       let c' := fst (feed F I mechs guid c l) in
       let o := snd (feed F I mechs guid c l) in
       (c_mode c' = Live -> a_rejects (c_auth c') = (a_rejects (c_auth c) + count_rejected o)%nat) /\
       ((5 <= a_rejects (c_auth c))%nat -> count_rejected o = 0%nat)).
Proof.
  intros M F I mechs guid. split; [exact (at_most_five_rejected F I mechs guid)|].
  intros c l Hl. destruct (feed_count F I mechs guid c l Hl) as (_ & B & C). split; assumption.
Qed.

(* ----- acceptance ------------------------------------------------------------
   Closed loop of the bus (three real mechanisms, all repairs) with the client of
   the DBus specification (Spec/AuthSpec.v client_step): for every user database,
   cookie context, challenge / cookie source, SHA-1 function, guid and cookie
   file, the EXTERNAL client (peer credentials present) and the ANONYMOUS client
   (with or without trace string) end authenticated; so does a client whose
   EXTERNAL cannot work (no credentials, or identity sent up front) through
   ANONYMOUS.  The bound 12 on the number of lines is that of [bus_accepts]. *)
Theorem C06_accepts :
  forall user_ok ctx chal cookie sha1hex guid store,
    bus_accepts current (env true user_ok ctx chal cookie) sha1hex guid store [external_client] = true /\
    (forall creds,
       bus_accepts current (env creds user_ok ctx chal cookie) sha1hex guid store
                   [anonymous_client None] = true /\
       bus_accepts current (env creds user_ok ctx chal cookie) sha1hex guid store
                   [anonymous_client (Some [116; 120; 100; 98; 117; 115])] = true) /\
    bus_accepts current (env false user_ok ctx chal cookie) sha1hex guid store
                [external_client; anonymous_client None] = true /\
    bus_accepts current (env true user_ok ctx chal cookie) sha1hex guid store
                [external_client_with_identity [49; 48; 48; 48]; anonymous_client None] = true.
Proof.
  intros. split; [apply accepts_external|]. split; [intros; apply accepts_anonymous|].
  apply accepts_fallback.
Qed.

(* DBUS_COOKIE_SHA1 with the right cookie: for EVERY SHA-1 function, user name,
   cookie context, challenge, cookie, client challenge and guid (byte strings;
   the tokens free of white space and not empty, as hex strings are), the
   conversation  AUTH DBUS_COOKIE_SHA1 hex(user) / DATA hex(cc " " sha1hex(chal:cc:cookie))
   / BEGIN  authenticates the peer. *)
Theorem C06_accepts_cookie :
  forall (sha1hex : bytes -> bytes) (user_ok : bytes -> bool) (creds : bool)
         (ctx : bytes) (chal cookie : nat -> bytes) (guid user cc : bytes),
    let h := sha1hex (colon (chal 0%nat) (colon cc (cookie 0%nat))) in
    let line1 := sp w_AUTH (sp n_DBUS_COOKIE_SHA1 (hexlify user)) in
    let line2 := sp w_DATA (hexlify (sp cc h)) in
    user_ok user = true -> all_ascii user = true -> user <> [] -> is_bytes user ->
    is_token cc -> is_token h ->
    N.of_nat (length line1) <= MAX_AUTH -> N.of_nat (length line2) <= MAX_AUTH ->
    run_lines current (concrete_if current (env creds user_ok ctx chal cookie) sha1hex) bus_mechs guid
              (init_world []) [line1; line2; w_BEGIN] =
    [ OMech n_DBUS_COOKIE_SHA1 (VContinue false (sp ctx (sp [49] (chal 0%nat))));
      OLine (sp w_DATA (hexlify (sp ctx (sp [49] (chal 0%nat)))));
      OMech n_DBUS_COOKIE_SHA1 VOk;
      OLine (sp w_OK guid);
      OAuthd ].
Proof. exact accepts_cookie_gen. Qed.

(* ... and these three lines are what the specification's client sends when it
   holds the right cookie (instance with SHA-1 replaced by a toy function) *)
Example C06_accepts_cookie_closed_loop :
  bus_accepts current toy_env toy_sha [103] []
              [cookie_client toy_sha [114; 111; 111; 116] [99; 99] (fun _ _ => [107])] = true /\
  bus_accepts current toy_env toy_sha [103] []
              [cookie_client toy_sha [114; 111; 111; 116] [99; 99] (fun _ _ => [120])] = false.
Proof. vm_compute. split; reflexivity. Qed.

(* ----- a wrong cookie response never is ---------------------------------------
   The cookie mechanism as the bus drives it (a fresh instance, step() with the
   user name, step() with the response), SHA-1 any function: the first step never
   says OK, and the second says OK only if the response consists of exactly two
   white-space separated tokens cc, h with h = sha1hex(challenge:cc:cookie) for
   the challenge and cookie drawn in the first step.  With C06_safety (which
   holds for every mechanism implementation, this one included) such a peer is
   never authenticated through DBUS_COOKIE_SHA1. *)
Theorem C06_wrong_cookie_never :
  forall (F : fixes) (E : cenv) (sha1hex : bytes -> bytes) (w : cworld)
         (as1 : bool) (user : bytes) (as2 : bool) (resp : bytes),
    w_inst w = ICookie 0 None [] [] ->
    let r1 := c_step F E sha1hex as1 (Some user) w in
    let r2 := c_step F E sha1hex as2 (Some resp) (snd r1) in
    fst r1 <> VOk /\
    ((forall cc, split_ws resp <>
                 [cc; sha1hex (colon (e_chal E (w_made w)) (colon cc (e_cookie E (w_made w))))]) ->
     fst r2 <> VOk).
Proof. exact wrong_cookie_never. Qed.

(* ----- several connections, one keyring file --------------------------------------
   Model/CookieStore.v: the cookie file of the bus process as the list of its lines
   (id, cookie), shared by any number of connections whose cookie exchanges
   interleave arbitrarily: Start c (_create_cookie: id = largest id + 1, line
   appended), Finish c response (_step_two: the first line with the id is removed,
   the hash compared), Cancel c (cancel()), Drop c (connection lost, nothing
   cleaned up); all within the cookie lifetime.  [run alloc_max ... (sys0 st) evs]
   is the state after the events evs, started on a file st.

   For every initial file with distinct ids and EVERY interleaving, the ids in the
   file stay pairwise distinct; every exchange in progress finds its own cookie as
   the first line with its id, and no other connection holds that id. *)
Theorem C06_cookie_ids_distinct :
  forall (cookie chal : nat -> bytes) (sha1hex : bytes -> bytes) (st : kstore) (evs : list sev),
    NoDup (ids st) ->
    let s := run alloc_max cookie chal sha1hex (sys0 st) evs in
    NoDup (ids (k_store s)) /\
    (forall c x, k_held s c = Some x ->
       lookup (x_id x) (k_store s) = Some (x_cookie x) /\
       (forall c' x', k_held s c' = Some x' -> x_id x' = x_id x -> c' = c)).
Proof.
  intros cookie chal sha1hex st evs H. split; [apply ids_distinct; exact H|].
  intros c x Hc. apply (holder_reads_own cookie chal sha1hex st evs c x H Hc).
Qed.

(* Hence a conforming client - it reads the cookie of the first line carrying the id
   it was given, as ClientAuthenticator._authGetDBusCookie does, and answers
   "cc sha1hex(challenge:cc:cookie)" - is accepted by _step_two whatever other
   exchanges overlap with its own (cc and the hash being tokens, SHA-1 any function). *)
Theorem C06_accepts_cookie_concurrent :
  forall (cookie chal : nat -> bytes) (sha1hex : bytes -> bytes) (st : kstore) (evs : list sev)
         (c : nat) (x : exch) (cc : bytes),
    NoDup (ids st) ->
    let s := run alloc_max cookie chal sha1hex (sys0 st) evs in
    k_held s c = Some x ->
    is_token cc -> is_token (sha1hex (colon (x_chal x) (colon cc (x_cookie x)))) ->
    snd (step alloc_max cookie chal sha1hex s
              (Finish c (client_response sha1hex (k_store s) x cc))) = Some VOk.
Proof. exact accepts_concurrent. Qed.

(* The id rule matters: with  cookie_id = len(cookies) + 1  the interleaving
   A starts, B starts, A finishes, C starts  leaves two lines with id 2; C's
   conforming client reads B's cookie and is REJECTED.  (Same events with the real
   rule: ids 2 and 3.)  This is also the non-vacuity instance of the two theorems
   above: an exchange in progress (C) with other exchanges overlapping. *)
Theorem C06_cookie_ids_by_count_refuted :
  let s := run alloc_len w_cookie w_chal w_sha (sys0 []) w_events in
  ids (k_store s) = [2; 2] /\
  (exists x, k_held s 2%nat = Some x /\ x_cookie x = w_cookie 2 /\
             lookup (x_id x) (k_store s) = Some (w_cookie 1) /\
             snd (step alloc_len w_cookie w_chal w_sha s
                       (Finish 2 (client_response w_sha (k_store s) x [97]))) = Some VReject) /\
  let s' := run alloc_max w_cookie w_chal w_sha (sys0 []) w_events in
  ids (k_store s') = [2; 3].
Proof. exact len_alloc_collides. Qed.

(* the id rule of this model is the one of the single-connection model above *)
Theorem C06_cookie_store_same_rule :
  forall st : kstore, alloc_max st = next_id (map fst st).
Proof. reflexivity. Qed.

(* ----- the tree before the repairs ---------------------------------------------
   D11: on the legacy model AUTH ANONYMOUS zz is not answered as the state
   machine prescribes (an exception escapes where ERROR is due). *)
Theorem C06_follows_spec_legacy_refuted :
  exists mechs guid script lines,
    Forall well_typed script /\ Forall ascii_command lines /\
    map abs_out (run_lines legacy oracle_if mechs guid script lines) <>
    spec_lines mechs guid false 5%nat 16384 script lines.
Proof. exact follows_spec_legacy_fails. Qed.

(* D09: without the repair the EXTERNAL client with credentials is never accepted
   (hexlify('') raises in stepAuth). *)
Theorem C06_accepts_legacy_refuted :
  forall user_ok ctx chal cookie sha1hex guid store,
    bus_accepts legacy (env true user_ok ctx chal cookie) sha1hex guid store [external_client] = false /\
    run_lines legacy (concrete_if legacy (env true user_ok ctx chal cookie) sha1hex) bus_mechs guid
              (init_world store) [sp w_AUTH n_EXTERNAL] =
    [OMech n_EXTERNAL (VContinue true []); OCrash].
Proof. exact accepts_external_legacy. Qed.

(* D10: (a) the right cookie response is REJECTED by the legacy tree, (b) and the
   rejection then raises out of cancel(); with (a) repaired alone a wrong response
   still raises instead of being answered REJECTED.  Instance: user "root",
   context "ctx", challenge "sc", cookie "k", client challenge "cc". *)
Theorem C06_cookie_legacy_refuted :
  concrete_run legacy [l_auth_cookie_root; l_right_response; w_BEGIN] =
    [OMech n_DBUS_COOKIE_SHA1 (VContinue false [99; 116; 120; 32; 49; 32; 115; 99]);
     OLine (sp w_DATA (hexlify [99; 116; 120; 32; 49; 32; 115; 99]));
     OMech n_DBUS_COOKIE_SHA1 VReject; OCrash] /\
  concrete_run only10a [l_auth_cookie_root; l_wrong_response] =
    [OMech n_DBUS_COOKIE_SHA1 (VContinue false [99; 116; 120; 32; 49; 32; 115; 99]);
     OLine (sp w_DATA (hexlify [99; 116; 120; 32; 49; 32; 115; 99]));
     OMech n_DBUS_COOKIE_SHA1 VReject; OCrash] /\
  concrete_run current [l_auth_cookie_root; l_wrong_response; w_BEGIN] =
    [OMech n_DBUS_COOKIE_SHA1 (VContinue false [99; 116; 120; 32; 49; 32; 115; 99]);
     OLine (sp w_DATA (hexlify [99; 116; 120; 32; 49; 32; 115; 99]));
     OMech n_DBUS_COOKIE_SHA1 VReject; OLine (reject_msg bus_mechs); OClose].
Proof. destruct witnesses as (_ & W2 & W3 & W4 & _). repeat split; assumption. Qed.

(* ----- tie to the tree under test ---------------------------------------------- *)
Theorem C06_constants :
  Generated.MAX_AUTH_LENGTH = Some MAX_AUTH /\
  Generated.MAX_REJECTS_ALLOWED = Some (N.of_nat MAX_REJECTS) /\
  Generated.bus_mechanisms = Some bus_mechs /\
  Generated.auth_delimiter = Some [13; 10].
Proof. exact constants. Qed.

(* The bus dispatches a peer's line on getattr(self, '_auth_' + word): the handler names found in the tree
   under test are exactly the six commands of the state machine the model and the specification speak. *)
Theorem C06_commands_from_source :
  Generated.bus_auth_commands =
  Some [w_AUTH; w_BEGIN; w_CANCEL; w_DATA; w_ERROR; w_NEGOTIATE_UNIX_FD].
Proof. exact commands_from_source. Qed.

(* ----- non-vacuity ---------------------------------------------------------------
   A conversation with scripted mechanisms A ("EXTERNAL") and B ("ANONYMOUS"):
   a rejected attempt, a challenge, a cancel, an accepted attempt, a stray DATA in
   WaitingForBegin (ERROR), BEGIN: authenticated, and the safety theorem's i, j are
   5 and 7.  Then the same prefix with six rejections: the sixth closes. *)
Example C06_run :
  let A := n_EXTERNAL in
  let B := n_ANONYMOUS in
  let lines := [ sp w_AUTH A; sp w_AUTH (sp B [54; 49]); w_CANCEL; w_BEGIN ] in
  run_lines current oracle_if [A; B] [103] [VReject; VContinue false [99]] lines =
    [ OMech A VReject; OLine (reject_msg [A; B]);
      OMech B (VContinue false [99]); OLine (sp w_DATA [54; 51]);
      OLine (reject_msg [A; B]);
      OClose ] /\
  let lines2 := [ sp w_AUTH A; sp w_AUTH (sp B [54; 49]); w_CANCEL; w_ERROR; w_AUTH;
                  sp w_AUTH B; w_DATA; w_BEGIN; w_AUTH ] in
  run_lines current oracle_if [A; B] [103] [VReject; VContinue false [99]; VOk] lines2 =
    [ OMech A VReject; OLine (reject_msg [A; B]);
      OMech B (VContinue false [99]); OLine (sp w_DATA [54; 51]);
      OLine (reject_msg [A; B]); OLine (reject_msg [A; B]); OLine (reject_msg [A; B]);
      OMech B VOk; OLine (sp w_OK [103]);
      OLine l_ERROR;
      OAuthd ] /\
  In OAuthd (run_lines current oracle_if [A; B] [103] [VReject; VContinue false [99]; VOk] lines2) /\
  run_lines current oracle_if [A; B] [103] [] (repeat_n w_ERROR 7) =
    repeat_n (OLine (reject_msg [A; B])) 5 ++ [OClose] /\
  count_rejected (run_lines current oracle_if [A; B] [103] [] (repeat_n w_ERROR 7)) = 5%nat.
Proof. vm_compute. repeat split; try reflexivity. right; right; right; right; right; right; right; right; right; right; left; reflexivity. Qed.

(* the hypotheses of C06_accepts_cookie are satisfiable *)
Example C06_accepts_cookie_instance :
  let sha := fun _ : bytes => [52; 97] in
  is_token [99; 99] /\ is_token (sha []) /\ is_bytes [114; 111; 111; 116] /\
  all_ascii [114; 111; 111; 116] = true.
Proof. vm_compute. repeat split; try reflexivity; try discriminate; repeat constructor. Qed.
