(* C12 - A signal reaches exactly the callbacks whose match rule it satisfies.
   Statements only; proofs are in Proofs/RouterProofs.v and
   Proofs/RuleTextProofs.v.

   Model (Model/Router.v): `Router.matches r m` says whether the rule r, given
   to MessageRouter.addMatch, makes Rule.match call its callback for message
   m; `run h` is the router after the history h of addMatch / delMatch /
   routeMessage calls, `called_after h m` the (rule id, callback) pairs a
   routeMessage(m) after h calls, `trace h` what every event of h showed;
   `rule_string` is the text client.addMatch sends to the bus, `parse_rule`
   what Bus.dbus_AddMatch reads from a text; `proxy_deliver` is the
   callback_caller of RemoteDBusObject.notifyOnSignal.
   Specification (Spec/MatchSpec.v): `MatchSpec.matches` evaluates the
   constraints the property lists; `live h` are the rules registered and not
   removed since; `expected h m` one call per live rule that m satisfies.

   Callbacks carry a `raises` flag that the model never consults: Rule.match
   catches every exception of a callback, so a raising callback changes
   nothing for the others (the correspondence run checks exactly this on the
   real code). *)
From Tx Require Import Lib.Base Gen.Generated Model.Router Spec.MatchSpec.
From Tx Require Import Proofs.RouterProofs Proofs.RuleTextProofs.
From Tx Require Import Spec.DaemonSpec Model.ClientMatch Proofs.ClientMatchProofs.
From Tx Require Import Model.AsyncMatch Proofs.AsyncMatchProofs Proofs.AsyncServedProofs.
From Coq Require Import Permutation.
Local Open Scope N_scope.

(* For every rule and EVERY message (signals in particular) the router's
   verdict is the specification's. *)
Theorem C12_match_iff : forall r m, Router.matches r m = MatchSpec.matches r m.
Proof. exact matches_spec. Qed.

(* the form of DESIGN.md: for signals *)
Theorem C12_match_iff_signal : forall r m, signal m -> Router.matches r m = MatchSpec.matches r m.
Proof. exact (fun r m _ => matches_spec r m). Qed.

(* The type-name table of the tree under test (router._mtypes, regenerated
   on every run) is the specification's. *)
Theorem C12_type_table_from_source : router_mtypes = Some type_names.
Proof. exact mtypes_generated. Qed.

(* What the two structured constraints of the specification mean:
   path_namespace - that path or a descendant on a '/' boundary, the root
   being an ancestor of everything; argNpath - equal, or whichever of the two
   ends in '/' is a prefix of the other. *)
Theorem C12_spec_readings :
  (forall ns p, within ns p = true <-> p = ns \/ ns = [47] \/ exists t, p = ns ++ [47] ++ t) /\
  (forall a v, path_like a v = true <->
               a = v \/ (ends_with_char 47 v = true /\ exists t, a = v ++ t)
                     \/ (ends_with_char 47 a = true /\ exists t, v = a ++ t)).
Proof. exact (conj within_spec path_like_spec). Qed.

(* For ALL histories of addMatch / delMatch / routeMessage with callbacks
   that do not call back into the router (they may raise): the callbacks a
   route calls are exactly one per currently registered rule the message
   satisfies. *)
Theorem C12_route :
  forall h m, passive_history h -> called_after h m = expected h m.
Proof. exact called_expected. Qed.

Theorem C12_route_exactly_once :
  forall h m, passive_history h ->
    NoDup (map fst (called_after h m)) /\
    forall i t, In (i, t) (called_after h m) <->
                exists r k, In (i, r, k) (live h) /\ cb_tag k = t /\ MatchSpec.matches r m = true.
Proof. exact route_exactly_once. Qed.

(* `called_after` is what a route event inside a history shows, and nothing
   escapes from routeMessage. *)
Theorem C12_trace_route :
  forall h1 m h2,
    trace (h1 ++ ERoute m :: h2) =
    trace h1 ++ ORouted (called_after h1 m) (Ok tt) :: trace_with step (run (h1 ++ [ERoute m])) h2.
Proof. exact trace_route. Qed.

(* Once a registered rule is removed its callback is never called again,
   whatever follows; and delMatch succeeds exactly on the live rules
   (KeyError otherwise: unknown id, or removed before). *)
Theorem C12_removed_silent :
  forall h1 i h2 m,
    passive_history (h1 ++ EDel i :: h2) ->
    In i (map (fun x => fst (fst x)) (live h1)) ->
    ~ In i (map fst (called_after (h1 ++ EDel i :: h2) m)).
Proof. exact removed_silent. Qed.

Theorem C12_del_ok_iff_live :
  forall h i, passive_history h ->
    (snd (step (run h) (EDel i)) = ODeleted (Ok tt) <-> In i (map (fun x => fst (fst x)) (live h))) /\
    (snd (step (run h) (EDel i)) = ODeleted (Err EKey) <-> ~ In i (map (fun x => fst (fst x)) (live h))).
Proof. exact del_ok_iff_live. Qed.

(* Callbacks that call delMatch / addMatch themselves.  From every router
   reachable by ANY history: a route calls each rule at most once, only rules
   of the table it started with that the message satisfies, and every such
   rule that is still registered when the route ends; the table stays well
   formed; and a rule that has been removed is not called by the remainder of
   the loop (`route_loop snap m st` is that remainder: `snap` the snapshot
   entries not yet looked at, `st` the table now). *)
Theorem C12_route_reentrant :
  forall h m, let st := run h in
    wf0 (fst (route_message m st)) /\
    NoDup (map fst (snd (route_message m st))) /\
    (forall i t, In (i, t) (snd (route_message m st)) ->
                 exists c k, In (i, (c, k)) (rules st) /\ rule_match c m = true /\ cb_tag k = t) /\
    (forall i c k, In (i, (c, k)) (rules st) -> rule_match c m = true ->
                   In i (keys (fst (route_message m st))) -> In (i, cb_tag k) (snd (route_message m st))).
Proof. exact (fun h m => route_reentrant m (run h) (run_wf0 h)). Qed.

Theorem C12_reentrant_removed_silent :
  forall m snap st i, wf0 st -> (i < next_id st)%nat -> ~ In i (keys st) ->
                      ~ In i (map fst (snd (route_loop snap m st))).
Proof. exact route_loop_absent_silent. Qed.

(* The rule text: what Bus.dbus_AddMatch reads from the text client.addMatch
   writes is the rule, for every rule with at least one constraint whose
   values contain neither ',' nor '='.  (A quote inside a value is harmless
   for this reader.) *)
Theorem C12_rule_string :
  forall r, r <> empty_rule -> values_clean c_comma r = true -> values_clean c_eq r = true ->
            parse_rule (rule_string r) = Ok r.
Proof. exact rule_string_round_trip. Qed.

(* The hypotheses are forced by the bus's reader (split at every ',' and
   '='): the empty rule, arg0='a,b' and arg0='k=v' are refused; arg0='it's'
   is read back. *)
Theorem C12_rule_string_hypotheses_needed :
  parse_rule (rule_string empty_rule) = Err EOther /\
  parse_rule (rule_string (r_arg0 [97; 44; 98])) = Err EOther /\
  parse_rule (rule_string (r_arg0 [107; 61; 118])) = Err EOther /\
  parse_rule (rule_string (r_arg0 [105; 116; 39; 115])) = Ok (r_arg0 [105; 116; 39; 115]).
Proof. exact round_trip_needs_hypotheses. Qed.

(* A proxy's subscription passes the signal's arguments to the user's
   callback exactly when the signal's signature is the declared one (absent
   and empty are the same), and - with the rule it registers - only for
   signals of that path, member and interface. *)
Theorem C12_proxy_signature_gate :
  forall declared m, proxy_deliver declared m = gate declared m.
Proof. exact proxy_gate. Qed.

Theorem C12_proxy_subscription :
  forall path member iface declared m,
    proxy_on_signal path member iface declared m =
    if (m_type m =? 4) && field_is iface (m_interface m) && field_is member (m_member m)
       && field_is path (m_path m)
    then gate declared m else None.
Proof. exact proxy_subscription. Qed.

(* The client against the reference daemon (Spec/DaemonSpec.v: a MULTISET of
   rule texts per connection; AddMatch adds one instance, RemoveMatch removes
   one instance or answers MatchRuleNotFound; a broadcast signal is forwarded
   iff a held rule is satisfied).  `crun h` is (client, daemon) after the
   history h of conn.addMatch / conn.delMatch calls and signals on the bus,
   each AddMatch / RemoveMatch call being answered by the daemon before the
   next event; `map revent h` is the same history as the router sees it.
   Hypotheses: no rule value contains ',' or '=' (as for C12_rule_string; the
   rule without any constraint, whose text is '' and which the daemon takes
   as satisfied by every message, is allowed); callbacks do not call back
   into the router.

   For ALL such histories the daemon holds, with multiplicity, exactly the
   texts of the client's live rules; the client's table is the router's. *)
Theorem C12_client_daemon_agree :
  forall h, good_history h ->
    Permutation (snd (crun h)) (map snd (cl_texts (fst (crun h)))) /\
    cl_texts (fst (crun h)) = texts_of (live (map revent h)) /\
    cl_router (fst (crun h)) = run (map revent h).
Proof. exact client_daemon_agree_perm. Qed.

(* Hence, end to end: a signal emitted after the history is forwarded by the
   daemon and reaches exactly one callback per live rule it satisfies; when
   no live rule is satisfied nothing is called. *)
Theorem C12_client_signal_served :
  forall h m, good_history h -> csignal_called h m = expected (map revent h) m.
Proof. exact client_signal_served. Qed.

(* delMatch of a live rule sends RemoveMatch with the text the rule was
   added with, and the daemon never refuses it. *)
Theorem C12_client_remove_never_refused :
  forall h i r k, good_history h -> In (i, r, k) (live (map revent h)) ->
    snd (cstep (crun h) (CDel i)) = OCDeleted [WRemove (rule_string r)] (Ok tt).
Proof. exact client_remove_live_ok. Qed.

(* non-vacuity: the same rule text registered twice, one of them removed:
   the daemon still holds one instance and the other callback is served *)
Example C12_client_nonvacuous :
  good_history w_dup /\
  ctrace w_dup =
    [ OCAdded [WAdd w_rule_text] (Ok 0%nat); OCAdded [WAdd w_rule_text] (Ok 1%nat);
      OCDeleted [WRemove w_rule_text] (Ok tt);
      OCSignal true [(1%nat, 2)];
      OCDeleted [] (Err EKey); OCDeleted [WRemove w_rule_text] (Ok tt);
      OCSignal false [] ] /\
  snd (crun (firstn 3 w_dup)) = [w_rule_text] /\
  snd (crun w_dup) = [].
Proof. exact w_dup_ok. Qed.

(* ... and the rule without constraints added, removed and added again:
   each signal reaches the callback registered at that moment, none reaches
   a removed one. *)
Example C12_client_catch_all_nonvacuous :
  good_history w_catch_all /\
  ctrace w_catch_all =
    [ OCAdded [WAdd []] (Ok 0%nat); OCSignal true [(0%nat, 1)];
      OCDeleted [WRemove []] (Ok tt); OCSignal false [];
      OCAdded [WAdd []] (Ok 1%nat); OCSignal true [(1%nat, 2)];
      OCDeleted [] (Err EKey); OCDeleted [WRemove []] (Ok tt);
      OCSignal false [] ].
Proof. exact w_catch_all_ok. Qed.

(* The proxy layer with the daemon answering LATER (Model/AsyncMatch.v: the
   AddMatch / RemoveMatch calls wait in a queue, `XAnswer` lets the reference
   daemon take the oldest one and delivers its reply).
   cancelSignalNotification is idempotent per id: whatever is pending, a
   second cancel of the same id writes nothing and changes nothing. *)
Theorem C12_proxy_cancel_idempotent :
  forall prule declared s id,
    let s1 := fst (astep prule declared s (XCancel id)) in
    wrote (snd (astep prule declared s1 (XCancel id))) = [] /\
    fst (astep prule declared s1 (XCancel id)) = s1.
Proof. exact cancel_idempotent. Qed.

(* For ALL histories of notifyOnSignal / cancelSignalNotification (any id,
   repeated, before or after the replies) / answers / signals, in any order:
   the daemon holds, with multiplicity, exactly the texts of the client's
   match_rules; at most one RemoveMatch per rule id is in flight and it is
   for a rule still in match_rules (so it is never refused); a subscribed id
   is in match_rules and has no RemoveMatch in flight. *)
Theorem C12_proxy_daemon_agree :
  forall prule declared h,
    good_rule prule -> registrable prule = true -> Forall proxy_event h ->
    let s := arun prule declared h in
    Permutation (a_daemon s) (map snd (cl_texts (a_client s))) /\
    NoDup (pdel_ids (a_pending s)) /\
    (forall i t, In (PDel i t) (a_pending s) -> alist_get Nat.eqb i (cl_texts (a_client s)) = Some t) /\
    (forall i, In i (a_subs s) -> In i (map fst (cl_texts (a_client s))) /\ ~ In i (pdel_ids (a_pending s))).
Proof. exact proxy_daemon_agree_stmt. Qed.

(* non-vacuity: two subscriptions to one signal, the first cancelled twice
   before the reply: one RemoveMatch is written, the daemon keeps one
   instance and the second subscription is served *)
Example C12_proxy_cancel_twice_nonvacuous :
  Forall proxy_event w_cancel_twice /\ good_rule w_prule /\ registrable w_prule = true /\
  atrace w_prule None w_cancel_twice =
    [ OWrote [WAdd w_ptext] (Ok tt); OWrote [WAdd w_ptext] (Ok tt); OAnsAdd (Ok 0%nat); OAnsAdd (Ok 1%nat);
      OWrote [WRemove w_ptext] (Ok tt); OWrote [] (Ok tt); OAnsDel (Ok tt); OAnsNone;
      OASignal true [(1%nat, 2)] ] /\
  a_daemon (arun w_prule None w_cancel_twice) = [w_ptext].
Proof. exact w_cancel_twice_ok. Qed.

(* A signal emitted after an ASYNCHRONOUS history (`asignal_forwarded h m`,
   `asignal_called h m`: what the `XSignal m` step of Model/AsyncMatch.v shows
   in the state `arun h`; `a_subs` is RemoteDBusObject._signalRules, the ids
   notifyOnSignal's Deferred has fired with and that have not been cancelled;
   `pdel_ids (a_pending s)` the ids whose RemoveMatch is written and not yet
   answered).

   The statement "the user's callback is invoked exactly for the ids in
   _signalRules (when the signal satisfies the proxy's rule and passes the
   signature gate); a cancelled id is never invoked again, whatever replies
   are pending" is FALSE, in the model and in the code: after
   notifyOnSignal x2, both replies, cancelSignalNotification(0) - which
   returns with _signalRules = {1} and a RemoveMatch in flight - a signal that
   satisfies the rule calls the callbacks of ids 0 AND 1.  delMatch's ok()
   closure is what takes the rule out of conn.match_rules and the router, and
   it runs only when the RemoveMatch reply arrives.  (Replayed on the real
   RemoteDBusObject through harness/c12.py AsyncRun and
   tools/replay_c12_cancel_race.py: same trace.)
   READING (DESIGN.md 11.3 (8a)): the property's "once a rule is removed" is
   taken as "once its removal has completed" - conn.delMatch returns a
   Deferred and the rule leaves conn.match_rules, the router and the daemon
   when that Deferred fires; until then the rule is still registered
   everywhere a signal is matched.  Under that reading the window below is
   not a violation (C12_proxy_cancelled_then_silent is the statement that
   holds); this witness refutes the STRONGER reading "silent from the moment
   cancelSignalNotification returns" and is recorded as an observation, not a
   finding. *)
Theorem C12_proxy_silent_from_cancel_call_refuted :
  Forall proxy_event w_cancel_pending /\ good_rule w_prule /\ registrable w_prule = true /\
  a_subs (arun w_prule None w_cancel_pending) = [1%nat] /\
  a_pending (arun w_prule None w_cancel_pending) = [PDel 0 w_ptext] /\
  MatchSpec.matches w_prule w_tick = true /\ gate None w_tick = Some [] /\
  asignal_called w_prule None w_cancel_pending w_tick = [(0%nat, 1); (1%nat, 2)] /\
  ~ (forall i, In i (map fst (asignal_called w_prule None w_cancel_pending w_tick)) <->
               In i (a_subs (arun w_prule None w_cancel_pending)) /\
               MatchSpec.matches w_prule w_tick = true /\ gate None w_tick <> None).
Proof. exact served_full_refuted_w. Qed.

(* What does hold, for ALL histories of notifyOnSignal / cancelSignalNotification
   (any id, repeated) / answers / signals and every message m delivered next:
   - the reference daemon forwards m to this connection iff some rule text it
     holds is satisfied by m, which is iff m satisfies the proxy's rule and at
     least one id is subscribed or has its RemoveMatch still unanswered;
   - no id is called twice, and the ids called are EXACTLY the subscribed ids
     together with the ids whose RemoveMatch is unanswered, when m satisfies
     the proxy's rule (Spec/MatchSpec.v `matches`) and the signature gate
     passes - and no id at all otherwise.  In particular every subscribed id
     is served exactly once, and a subscription whose AddMatch reply has not
     arrived (it has no id yet, it is in neither set) is not called.
   _partial: against the full-strength statement the silence of a cancelled
   id BETWEEN cancelSignalNotification and the RemoveMatch reply is missing -
   it does not hold (C12_proxy_silent_from_cancel_call_refuted); and the callback is
   identified by its rule id only (that the tag called for id i is the one
   given to the notifyOnSignal that produced i is checked by the
   correspondence run, not proved). *)
Theorem C12_proxy_signal_served_partial :
  forall prule declared h m,
    good_rule prule -> registrable prule = true -> Forall proxy_event h ->
    let s := arun prule declared h in
    (asignal_forwarded prule declared h m = true <->
       exists t r, In t (a_daemon s) /\ rule_of_text t = Some r /\ MatchSpec.matches r m = true) /\
    (asignal_forwarded prule declared h m = true <->
       (exists i, In i (a_subs s) \/ In i (pdel_ids (a_pending s))) /\ MatchSpec.matches prule m = true) /\
    NoDup (map fst (asignal_called prule declared h m)) /\
    (forall i, In i (map fst (asignal_called prule declared h m)) <->
               (In i (a_subs s) \/ In i (pdel_ids (a_pending s))) /\
               MatchSpec.matches prule m = true /\ gate declared m <> None).
Proof. exact proxy_signal_served_stmt. Qed.

(* A subscribed id that is cancelled is never subscribed again, whatever
   follows (ids are not reused), and from the moment its RemoveMatch has been
   answered - no RemoveMatch for it in flight - no signal calls it any more. *)
Theorem C12_proxy_cancelled_then_silent :
  forall prule declared h1 i h2 m,
    good_rule prule -> registrable prule = true ->
    Forall proxy_event (h1 ++ XCancel i :: h2) -> In i (a_subs (arun prule declared h1)) ->
    let s := arun prule declared (h1 ++ XCancel i :: h2) in
    ~ In i (a_subs s) /\
    (~ In i (pdel_ids (a_pending s)) ->
     ~ In i (map fst (asignal_called prule declared (h1 ++ XCancel i :: h2) m))).
Proof. exact cancelled_then_silent_stmt. Qed.

(* non-vacuity: two subscriptions, the first cancelled; the signal arrives
   while the RemoveMatch is pending (both callbacks run), the reply arrives,
   the signal arrives again (only the second runs).  Id 0 was subscribed
   before the cancel, so the hypotheses of C12_proxy_cancelled_then_silent
   are met with h1 = the first four events.  With a declared signature 's'
   the signal does not carry, the signal is forwarded and nobody is called. *)
Example C12_proxy_cancel_race_nonvacuous :
  Forall proxy_event w_cancel_race /\ good_rule w_prule /\ registrable w_prule = true /\
  atrace w_prule None w_cancel_race =
    [ OWrote [WAdd w_ptext] (Ok tt); OWrote [WAdd w_ptext] (Ok tt); OAnsAdd (Ok 0%nat); OAnsAdd (Ok 1%nat);
      OWrote [WRemove w_ptext] (Ok tt);
      OASignal true [(0%nat, 1); (1%nat, 2)]; OAnsDel (Ok tt); OASignal true [(1%nat, 2)] ] /\
  In 0%nat (a_subs (arun w_prule None (firstn 4 w_cancel_race))) /\
  a_subs (arun w_prule None w_cancel_pending) = [1%nat] /\
  pdel_ids (a_pending (arun w_prule None w_cancel_pending)) = [0%nat] /\
  a_subs (arun w_prule None w_cancel_race) = [1%nat] /\
  a_pending (arun w_prule None w_cancel_race) = [] /\
  asignal_forwarded w_prule (Some [115]) w_cancel_pending w_tick = true /\
  asignal_called w_prule (Some [115]) w_cancel_pending w_tick = [].
Proof. exact w_cancel_race_ok. Qed.

(* The matcher of the pinned commit did not satisfy C12_match_iff: one
   witness per defect (D16 type ignored, D17 namespace sibling, D18 no body,
   D19 argNpath both directions, D34 empty value dropped); the repaired
   matcher agrees with the specification on each. *)
Theorem C12_match_iff_legacy_refuted :
  (matches_legacy (r_with_type k_method_call) (w_sig w_ab None) = true /\
   MatchSpec.matches (r_with_type k_method_call) (w_sig w_ab None) = false) /\
  (matches_legacy (r_with_ns w_ab) (w_sig w_abc None) = true /\
   MatchSpec.matches (r_with_ns w_ab) (w_sig w_abc None) = false) /\
  (matches_legacy (r_with_arg 0 w_x) (w_sig w_ab None) = true /\
   MatchSpec.matches (r_with_arg 0 w_x) (w_sig w_ab None) = false) /\
  (matches_legacy (r_with_arg_path 0 w_ab) (w_sig w_ab (Some [AStr w_abc])) = true /\
   MatchSpec.matches (r_with_arg_path 0 w_ab) (w_sig w_ab (Some [AStr w_abc])) = false) /\
  (matches_legacy (r_with_arg_path 0 w_ab_) (w_sig w_ab (Some [AStr w_a_])) = false /\
   MatchSpec.matches (r_with_arg_path 0 w_ab_) (w_sig w_ab (Some [AStr w_a_])) = true) /\
  (matches_legacy (r_with_iface []) (w_sig w_ab None) = true /\
   MatchSpec.matches (r_with_iface []) (w_sig w_ab None) = false).
Proof. exact legacy_refuted_w. Qed.

(* Nor did routeMessage of the pinned commit tolerate a callback that
   removes a rule (D33): with two satisfied rules, the first callback
   removing its own rule, RuntimeError escaped and the second callback was
   never called. *)
Theorem C12_route_legacy_refuted :
  trace_legacy w_reentrant = [OAdded (Ok 0%nat); OAdded (Ok 1%nat); ORouted [(0%nat, 0)] (Err EOther)] /\
  trace w_reentrant = [OAdded (Ok 0%nat); OAdded (Ok 1%nat); ORouted [(0%nat, 0); (1%nat, 1)] (Ok tt)] /\
  MatchSpec.matches w_rule (w_sig w_ab None) = true.
Proof. exact reentrant_legacy_refuted_w. Qed.

(* Non-vacuity. *)
Example C12_history_nonvacuous :
  passive_history w_history /\
  trace w_history =
    [ OAdded (Ok 0%nat); OAdded (Ok 1%nat); OAdded (Err EKey); OAdded (Ok 2%nat);
      ORouted [(0%nat, 10); (2%nat, 13)] (Ok tt);
      ODeleted (Ok tt); ODeleted (Err EKey); ODeleted (Err EKey);
      ORouted [(2%nat, 13)] (Ok tt) ] /\
  map (fun x => fst (fst x)) (live w_history) = [1%nat; 2%nat] /\
  expected w_history (w_sig w_ab (Some [AStr w_x])) = [(2%nat, 13)].
Proof. exact w_history_ok. Qed.

Example C12_match_nonvacuous :
  Router.matches (r_with_type k_method_call) (w_sig w_ab None) = false /\
  Router.matches (r_with_ns w_ab) (w_sig w_abc None) = false /\
  Router.matches (r_with_arg 0 w_x) (w_sig w_ab None) = false /\
  Router.matches (r_with_arg_path 0 w_ab) (w_sig w_ab (Some [AStr w_abc])) = false /\
  Router.matches (r_with_arg_path 0 w_ab_) (w_sig w_ab (Some [AStr w_a_])) = true /\
  Router.matches (r_with_iface []) (w_sig w_ab None) = false.
Proof. exact current_on_witnesses. Qed.

Example C12_rule_string_nonvacuous :
  rule_string w_full =
  [116; 121; 112; 101; 61; 39; 115; 105; 103; 110; 97; 108; 39; 44; 115; 101; 110; 100; 101; 114; 61; 39; 58; 49;
   46; 55; 39; 44; 105; 110; 116; 101; 114; 102; 97; 99; 101; 61; 39; 111; 46; 73; 39; 44; 109; 101; 109; 98; 101;
   114; 61; 39; 77; 39; 44; 112; 97; 116; 104; 61; 39; 47; 97; 47; 98; 39; 44; 112; 97; 116; 104; 95; 110; 97;
   109; 101; 115; 112; 97; 99; 101; 61; 39; 47; 97; 39; 44; 100; 101; 115; 116; 105; 110; 97; 116; 105; 111; 110;
   61; 39; 58; 49; 46; 52; 50; 39; 44; 97; 114; 103; 48; 61; 39; 120; 39; 44; 97; 114; 103; 49; 50; 61; 39; 39;
   44; 97; 114; 103; 49; 112; 97; 116; 104; 61; 39; 47; 97; 47; 39; 44; 97; 114; 103; 48; 110; 97; 109; 101; 115;
   112; 97; 99; 101; 61; 39; 111; 46; 101; 39] /\
  w_full <> empty_rule /\ values_clean c_comma w_full = true /\ values_clean c_eq w_full = true /\
  parse_rule (rule_string w_full) = Ok w_full.
Proof. exact w_full_text. Qed.

Example C12_proxy_nonvacuous :
  proxy_on_signal w_ab [77] [111; 46; 73] (Some [115]) (mkMsg 4 (Some w_ab) (Some [111; 46; 73]) (Some [77]) None None (Some [115]) (Some [AStr w_x]))
    = Some [AStr w_x] /\
  proxy_on_signal w_ab [77] [111; 46; 73] (Some [105]) (mkMsg 4 (Some w_ab) (Some [111; 46; 73]) (Some [77]) None None (Some [115]) (Some [AStr w_x]))
    = None /\
  proxy_on_signal w_ab [77] [111; 46; 73] None (mkMsg 4 (Some w_ab) (Some [111; 46; 73]) (Some [77]) None None None None)
    = Some [].
Proof. vm_compute. repeat split; reflexivity. Qed.
