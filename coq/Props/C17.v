(* C17 - Remote property access honours declared type and access mode.
   Statements only; proofs in Proofs/PropsProofs.v and Proofs/PropsTyped.v.

   Reading guide.  h is a class hierarchy (Model/PropsModel.v: MRO list of
   classes, each with its DBusInterface declarations and its DBusProperty
   attributes); `compile h = Ok bs` is the model's per-class cache
   construction; `step current ins bs st o` executes one operation (local
   assignment, export, remote Get / Set / GetAll) on the model of the repaired
   code and returns (state, reply, signals); `run` folds it over a history.
   The right-hand sides are Spec/PropsSpec.v: `latest` (the value most recently
   assigned to a property, locally or by a Set the specification counts as
   successful), `s_get`, `s_entry`, `s_changed`, `write_of`.
   Hypotheses: [wf h] - every interface declared once with distinct property
   names, every DBusProperty names an existing property, no attribute name
   reused in the hierarchy; [op_clear] - calls with an EMPTY interface name are
   covered where only one interface has a property of that name (the DBus
   specification leaves the other case open).
   `present sig v` (Model/PropsModel.v) is variantClassMap[sig](v) followed by
   marshalling as a variant; C17_get_typed says what it is for conforming
   values of basic types.  For values it rejects (wrong type, never assigned)
   the specified reply is an error reply. *)
From Tx Require Import Lib.Base Gen.Generated Model.PyVal Model.Marshal Spec.WireSpec Spec.Readback
  Spec.Conforms Spec.WireTyped Proofs.MarshalProofs Model.PropsModel Spec.PropsSpec Proofs.PropsProofs Proofs.PropsTyped.
Local Open Scope N_scope.

(* Get returns the latest value: for EVERY well-formed hierarchy and EVERY
   history, the reply to Get(i, n) is the specified one - the presentation of
   the value most recently assigned to that property of that interface if it
   is declared and readable (and the object exported), an error reply
   otherwise. *)
Theorem C17_get_latest :
  forall h bs, wf h -> compile h = Ok bs ->
  forall hist c i n, Forall (op_clear h) hist -> clear h i n ->
    snd (fst (step current (iface_names h) bs (run current (iface_names h) bs hist) (OGet c i n)))
    = s_get present h hist c i n.
Proof. exact c17_get_latest. Qed.

(* ... as a variant of exactly the declared type when that type is basic: a
   value whose coercion to the declared class conforms to the basic type t
   (Spec/Conforms.v) is presented with signature exactly `show t` and reads
   back as itself.  For the ten types of variantClassMap the signature
   hypothesis holds by construction (second part); the table of the tree under
   test is the one the model assumes (third part). *)
Theorem C17_get_typed :
  (forall t v v' w,
      basic t = true -> wrap_decl (show t) v = Ok v' -> sig_from_py v' = Ok (show t) ->
      conf t v' w -> wt [] t w ->
      len (enc_seq [TVariant] [WVariant t w] 0 true) < two32 ->
      present (show t) v = Ok (show t, readback [] t w)) /\
  (forall c v v', (is_int_code c || is_str_code c)%bool = true -> wrap_decl [c] v = Ok v' ->
                  sig_from_py v' = Ok [c]) /\
  variant_class_map = Some [(98, 98); (103, 103); (105, 105); (110, 110); (111, 111); (113, 113);
                            (116, 116); (117, 117); (120, 120); (121, 121)].
Proof. split; [exact present_typed|split; [exact wrap_sig|vm_compute; reflexivity]]. Qed.

(* Access matrix, for every history and every next operation o:
   (1) the stored value of every property changes exactly as `write_of` says -
       a local assignment always, a remote Set iff the object is exported and
       the property is known and writable; nothing else (Get, GetAll, export,
       refused Set) changes any value;
   (2) a Set that is not such a write is answered by an error reply and emits
       nothing;
   (3) a Set that is one is answered by a method return (unless the value
       cannot be announced in the PropertiesChanged it must emit);
   (4) Get on an unknown interface / property or a write-only property is
       answered by an error reply. *)
Theorem C17_access_matrix :
  forall h bs, wf h -> compile h = Ok bs ->
  forall hist o, Forall (op_clear h) hist -> op_clear h o ->
    let st := run current (iface_names h) bs hist in
    let out := step current (iface_names h) bs st o in
    (forall i n,
        read_val current (fst (fst out)) (i, n)
        = match write_of h (exported_on hist (arrives o)) o with
          | Some (d, v) => if str_eqb (dc_iface d) i && str_eqb (dc_name d) n then v
                           else read_val current st (i, n)
          | None => read_val current st (i, n)
          end) /\
    (forall c i n v, o = OSet c i n v -> write_of h (exported_on hist c) o = None ->
                     snd (fst out) = RErr /\ snd out = []) /\
    (forall c i n v d, o = OSet c i n v -> write_of h (exported_on hist c) o = Some (d, v) ->
                       snd (fst out) = if notifies (dc_prop d) && negb (is_ok (present (p_sig (dc_prop d)) v))
                                       then RErr else ROk) /\
    (forall c i n, o = OGet c i n ->
                   match named h i n with Some d => readable (dc_prop d) = false | None => True end ->
                   snd (fst out) = RErr).
Proof. exact c17_access_matrix. Qed.

(* GetAll i on an exported object, as a finite map: the entry of name n is
   present iff some class of the WHOLE hierarchy binds a readable property n
   of interface i, and then carries its latest value; the reply is an error
   reply exactly when one of those values cannot be presented. *)
Theorem C17_getall_exact :
  forall h bs, wf h -> compile h = Ok bs ->
  forall hist c i, Forall (op_clear h) hist -> nonempty i = true -> exported_on hist c = true ->
    match snd (fst (step current (iface_names h) bs (run current (iface_names h) bs hist) (OGetAll c i))) with
    | RDict d =>
        (forall n, alist_get str_eqb n d
                   = match s_entry present h hist i n with Some (Ok x) => Some x | _ => None end) /\
        (forall n e, s_entry present h hist i n <> Some (Err e))
    | RErr => exists n e, s_entry present h hist i n = Some (Err e)
    | _ => False
    end.
Proof. exact c17_getall_exact. Qed.

(* PropertiesChanged, over histories that export and unexport the object on any
   number of connections: the signals of this kind emitted by any operation are
   exactly `s_changed`: one signal naming interface, property and new value,
   sent on the connection of the MOST RECENT export, when the operation assigns
   (locally or by a Set accepted on whichever connection it arrived) a property
   declared with emitsOnChange=True; none in every other case (never exported,
   emitsOnChange False or 'invalidates', refused Set, Get, GetAll, export,
   unexport).  unexportObject does not detach the object: it keeps announcing
   on its latest connection. *)
Theorem C17_changed_signal :
  forall h bs, wf h -> compile h = Ok bs ->
  forall hist o, Forall (op_clear h) hist -> op_clear h o ->
    filter is_changed (snd (step current (iface_names h) bs (run current (iface_names h) bs hist) o))
    = s_changed present h hist o.
Proof. exact c17_changed_signal. Qed.

(* What the STATEMENT demands, with connections (Spec/PropsSpec.v
   changed_demanded): the text asks for one signal and names no connection.
   While the object is exported on the connection of its latest export the
   signal must be exactly that one, there (an object exported on two
   connections at once announces on the later one only: the code's choice,
   taken as given); while it is exported only elsewhere the count and content
   are demanded, the connection is not; once it is exported nowhere either
   silence or the announcement is accepted.  The model meets the demand for
   every history and every set of connections considered. *)
Theorem C17_changed_signal_handlers :
  forall h bs, wf h -> compile h = Ok bs ->
  forall conns hist o, Forall (op_clear h) hist -> op_clear h o ->
    changed_demanded present h conns hist o
      (filter is_changed (snd (step current (iface_names h) bs (run current (iface_names h) bs hist) o))).
Proof. exact c17_changed_signal_handlers. Qed.

(* --- non-vacuity: a hierarchy with inheritance, one interface whose properties
   are bound on base AND subclass, the same property name on two interfaces ---- *)
Definition iA : str := [97; 46; 65].
Definition iB : str := [97; 46; 66].
Definition ex_h : hier :=
  [ mkC [] [mkD [97] [65] None];
    mkC [mkI iA [mkP [65] [115] AReadWrite EmTrue; mkP [66] [117] AReadWrite EmTrue; mkP [87] [105] AWrite EmFalse;
                 mkP [86] [105] AReadWrite EmInval];
         mkI iB [mkP [65] [115] ARead EmFalse]]
        [mkD [98] [66] None; mkD [119] [87] None; mkD [99] [65] (Some iB); mkD [118] [86] None] ].
Definition ex_hist : list op :=
  [OAssign [97] (PStr [120]); OAssign [98] (PInt 1); OAssign [99] (PStr [121]); OAssign [119] (PInt 5);
   OAssign [118] (PInt 2); OExport 1; OSet 1 iA [66] (PInt 3000000000); OSet 1 iB [65] (PStr [122]); OSet 1 [] [87] (PInt 6)].

Example C17_nonvacuous :
  wf ex_h /\ Forall (op_clear ex_h) ex_hist /\
  exists bs, compile ex_h = Ok bs /\
    let st := run current (iface_names ex_h) bs ex_hist in
    let reply o := snd (fst (step current (iface_names ex_h) bs st o)) in
    reply (OGet 1 iA [66]) = RVal [117] (PInt 3000000000) /\
    reply (OGet 1 iA [65]) = RVal [115] (PStr [120]) /\
    reply (OGet 1 iB [65]) = RVal [115] (PStr [121]) /\                     (* the refused Set left it alone *)
    reply (OGet 1 iA [87]) = RErr /\ reply (OGet 1 iA [90]) = RErr /\ reply (OGet 1 [97; 46; 67] [65]) = RErr /\
    reply (OGetAll 1 iA) = RDict [([65], ([115], PStr [120])); ([66], ([117], PInt 3000000000)); ([86], ([105], PInt 2))] /\
    snd (step current (iface_names ex_h) bs st (OAssign [98] (PInt 4000000000)))
      = [SigChanged 1 iA [66] [117] (PInt 4000000000)] /\
    snd (step current (iface_names ex_h) bs st (OAssign [118] (PInt 9))) = [] /\
    snd (step current (iface_names ex_h) bs st (OAssign [99] (PStr [122]))) = [].
Proof.
  split; [apply wf_b_sound; vm_compute; reflexivity|].
  split; [repeat (apply Forall_cons; [first [exact I | apply clear_b_sound; vm_compute; reflexivity]|]); apply Forall_nil|].
  eexists. split; [vm_compute; reflexivity|]. vm_compute. repeat split; reflexivity.
Qed.

Example C17_typed_nonvacuous :
  present [117] (PInt 3000000000) = Ok ([117], PInt 3000000000) /\
  conf TUInt32 (PWrap 117 (PInt 3000000000)) (WInt 3000000000) /\ wt [] TUInt32 (WInt 3000000000) /\
  present [111] (PStr [47; 97; 47; 98]) = Ok ([111], PStr [47; 97; 47; 98]) /\
  present [98] (PBool true) = Ok ([98], PBool true).
Proof. vm_compute. repeat split; reflexivity. Qed.

(* two connections: moved from 1 to 2 (export on 2, then unexport from 1) the object
   announces on 2, answers on 2 only; observations outside the statement: after
   export 1, export 2, unexport 2 it is exported on 1 but announces on 2; after
   unexporting from its only connection it keeps announcing there *)
Example C17_handlers_nonvacuous :
  exists bs, compile ex_h = Ok bs /\
    let ins := iface_names ex_h in
    let pre := [OAssign [98] (PInt 1); OExport 1] in
    let moved := pre ++ [OExport 2; OUnexport 1] in
    let back := pre ++ [OExport 2; OUnexport 2] in
    let gone := pre ++ [OUnexport 1] in
    let o := OAssign [98] (PInt 7) in
    exported_on moved 2 = true /\ exported_on moved 1 = false /\ handler_of moved = Some 2%nat /\
    snd (step current ins bs (run current ins bs moved) o) = [SigChanged 2 iA [66] [117] (PInt 7)] /\
    snd (fst (step current ins bs (run current ins bs moved) (OGet 2 iA [66]))) = RVal [117] (PInt 1) /\
    snd (fst (step current ins bs (run current ins bs moved) (OGet 1 iA [66]))) = RErr /\
    snd (step current ins bs (run current ins bs moved) (OSet 2 iA [66] (PInt 9))) = [SigChanged 2 iA [66] [117] (PInt 9)] /\
    exported_on back 1 = true /\ exported_on back 2 = false /\
    snd (step current ins bs (run current ins bs back) o) = [SigChanged 2 iA [66] [117] (PInt 7)] /\
    exported_on gone 1 = false /\
    snd (step current ins bs (run current ins bs gone) o) = [SigChanged 1 iA [66] [117] (PInt 7)] /\
    step current ins bs (run current ins bs gone) (OUnexport 1) = (run current ins bs gone, RRaise, []).
Proof. eexists. split; [vm_compute; reflexivity|]. vm_compute. repeat split; reflexivity. Qed.

(* --- the code before the repairs --------------------------------------------------- *)

(* D15: getAllProperties stopped at the first class of the MRO mentioning the
   interface - B, bound on the base class, is missing although specified. *)
Theorem C17_getall_exact_legacy_refuted :
  exists h bs hist i n x,
    wf h /\ compile h = Ok bs /\ Forall (op_clear h) hist /\ exported_on hist 1 = true /\
    s_entry present h hist i n = Some (Ok x) /\
    exists d, snd (fst (step (mkCfg true false false false) (iface_names h) bs
                             (run (mkCfg true false false false) (iface_names h) bs hist) (OGetAll 1 i))) = RDict d /\
              alist_get str_eqb n d = None.
Proof.
  exists ex_h. eexists. exists [OAssign [97] (PStr [120]); OAssign [98] (PInt 1); OAssign [118] (PInt 2); OExport 1], iA, [66]. eexists.
  split; [apply wf_b_sound; vm_compute; reflexivity|].
  split; [vm_compute; reflexivity|].
  split; [repeat (apply Forall_cons; [first [exact I | apply clear_b_sound; vm_compute; reflexivity]|]); apply Forall_nil|]. split; [reflexivity|].
  split; [vm_compute; reflexivity|]. eexists. split; vm_compute; reflexivity.
Qed.

(* D40: the storage key was the concatenation interface + name: 'x.y' + 'zP' and
   'x.yz' + 'P' shared one slot, so Get returned the other property's value. *)
Definition k_h : hier :=
  [ mkC [mkI [120; 46; 121] [mkP [122; 80] [115] AReadWrite EmFalse]; mkI [120; 46; 121; 122] [mkP [80] [115] AReadWrite EmFalse]]
        [mkD [112] [122; 80] None; mkD [113] [80] None] ].
Theorem C17_get_latest_legacy_refuted :
  exists h bs hist i n,
    wf h /\ compile h = Ok bs /\ Forall (op_clear h) hist /\ clear h i n /\
    snd (fst (step (mkCfg false true false false) (iface_names h) bs
                   (run (mkCfg false true false false) (iface_names h) bs hist) (OGet 1 i n)))
    <> s_get present h hist 1 i n.
Proof.
  exists k_h. eexists. exists [OAssign [112] (PStr [111; 110; 101]); OAssign [113] (PStr [116; 119; 111]); OExport 1], [120; 46; 121], [122; 80].
  split; [apply wf_b_sound; vm_compute; reflexivity|].
  split; [vm_compute; reflexivity|].
  split; [repeat (apply Forall_cons; [first [exact I | apply clear_b_sound; vm_compute; reflexivity]|]); apply Forall_nil|]. split; [left; reflexivity|].
  vm_compute. discriminate.
Qed.

(* D41: PropertiesChanged carried the value under its INFERRED type (a Python
   int as INT32): assigning 3000000000 to a UINT32 property declared to emit
   raised and emitted nothing. *)
Theorem C17_changed_signal_legacy_refuted :
  exists h bs hist o,
    wf h /\ compile h = Ok bs /\ Forall (op_clear h) hist /\ op_clear h o /\
    s_changed present h hist o = [SigChanged 1 iA [66] [117] (PInt 3000000000)] /\
    step (mkCfg false false true false) (iface_names h) bs
         (run (mkCfg false false true false) (iface_names h) bs hist) o
    = (mkS [((iA, [66]), PInt 3000000000)] [1%nat] (Some 1%nat) 2, RRaise, []).
Proof.
  exists ex_h. eexists. exists [OAssign [98] (PInt 1); OExport 1], (OAssign [98] (PInt 3000000000)).
  split; [apply wf_b_sound; vm_compute; reflexivity|].
  split; [vm_compute; reflexivity|].
  split; [repeat (apply Forall_cons; [first [exact I | apply clear_b_sound; vm_compute; reflexivity]|]); apply Forall_nil|]. split; [exact I|].
  split; vm_compute; reflexivity.
Qed.

(* D42: a descriptor used before its class's cache existed forced the caches
   with _getProperty('', name), which stops at the first class binding a
   property of that name: with the name also bound in the subclass the base
   descriptor stayed unresolved, the assignment raised and (no interface given)
   the value was lost. *)
Definition z_h : hier :=
  [ mkC [] [mkD [112] [80] None];
    mkC [mkI iA [mkP [80] [115] AReadWrite EmTrue]] [mkD [113] [80] None] ].
Theorem C17_assign_legacy_refuted :
  exists h bs hist i n,
    wf h /\ compile h = Ok bs /\ Forall (op_clear h) hist /\ clear h i n /\
    s_get present h hist 1 i n = RVal [115] (PStr [116; 119; 111]) /\
    snd (fst (step (mkCfg false false false true) (iface_names h) bs init (OAssign [113] (PStr [116; 119; 111])))) = RRaise /\
    snd (fst (step (mkCfg false false false true) (iface_names h) bs
                   (run (mkCfg false false false true) (iface_names h) bs hist) (OGet 1 i n))) = RErr /\
    snd (fst (step current (iface_names h) bs init (OAssign [113] (PStr [116; 119; 111])))) = RNone.
Proof.
  exists z_h. eexists. exists [OAssign [113] (PStr [116; 119; 111]); OExport 1], iA, [80].
  split; [apply wf_b_sound; vm_compute; reflexivity|].
  split; [vm_compute; reflexivity|].
  split; [repeat (apply Forall_cons; [first [exact I | apply clear_b_sound; vm_compute; reflexivity]|]); apply Forall_nil|]. split; [left; reflexivity|].
  repeat split; vm_compute; reflexivity.
Qed.

(* Open finding (not repaired, also true of the current model): Set does not
   check the type of the value.  A string Set on a UINT32 property is answered
   by a method return and the next Get fails; on an emitting property the same
   Set is answered by an error reply although the value was stored. *)
Definition f_h : hier :=
  [ mkC [mkI iA [mkP [78] [117] AReadWrite EmFalse; mkP [66] [117] AReadWrite EmTrue]]
        [mkD [110] [78] None; mkD [98] [66] None] ].
Theorem C17_set_wrong_type_finding :
  exists bs, wf f_h /\ compile f_h = Ok bs /\
    let ins := iface_names f_h in
    let st := run current ins bs [OAssign [110] (PInt 1); OAssign [98] (PInt 1); OExport 1] in
    let '(st1, r1, _) := step current ins bs st (OSet 1 iA [78] (PStr [97; 98; 99])) in
    let '(st2, r2, _) := step current ins bs st (OSet 1 iA [66] (PStr [97; 98; 99])) in
    r1 = ROk /\ snd (fst (step current ins bs st1 (OGet 1 iA [78]))) = RErr /\
    r2 = RErr /\ read_val current st2 (iA, [66]) = PStr [97; 98; 99].
Proof.
  eexists. split; [apply wf_b_sound; vm_compute; reflexivity|].
  split; [vm_compute; reflexivity|]. vm_compute. repeat split; reflexivity.
Qed.
