(* C05 - Malformed or hostile message bytes are rejected in bounded time.
   Statements only; proofs are in Proofs/CostProofs.v.

   Model/Marshal.v [m_unmarshal] is the model of txdbus.marshal.unmarshal tied
   to the code by the C01/C02/C19/C05 harnesses; Model/MarshalCost.v
   [mc_unmarshal] is the same function returning work counters next to the
   result (calls: unmarshaller calls + string bytes; scan: signature
   characters handed to genCompleteTypes; units: array iterations, variants,
   string bytes).  There is NO hypothesis on the signature or on the data
   beyond "data is a list of bytes" ([wf_bytes]: every element < 256) and
   "descriptors are atoms" ([fds_atomic]). *)
From Tx Require Import Lib.Base Model.PyVal Model.Marshal Model.Message Model.FdFraming Model.MarshalCost Spec.WorkBounds Proofs.CostProofs.
Local Open Scope nat_scope.

(* Erasing the counters gives exactly the model of unmarshal. *)
Theorem C05_counters_erase : forall data le fds fuel sig off,
    fst (mc_unmarshal false data le fds fuel sig off) = m_unmarshal fuel sig data off le fds.
Proof. exact erase_unmarshal. Qed.

(* It never loops or recurses without bound: fuel (= nesting depth, and the
   bound on loop iterations) linear in |sig| + |data| always suffices. *)
Theorem C05_terminates : forall sig data off le fds,
    m_unmarshal (lin_fuel_spec (length sig) (length data)) sig data off le fds <> Err EFuel.
Proof. exact unmarshal_terminates. Qed.

(* Work proportional to the length: array iterations + variants + string
   bytes are at most twice the data; calls at most |sig| + S*2|data| and
   re-scanned signature characters at most |sig| + S*calls, with
   S = max(|sig|, 255) (a variant carries a signature of up to 255 bytes). *)
Theorem C05_work_linear : forall sig data off le fds fuel,
    wf_bytes data ->
    let c := snd (mc_unmarshal false data le fds fuel sig off) in
    units c <= units_bound data /\
    calls c <= calls_bound sig data /\
    scan c <= scan_bound sig (calls c).
Proof.
  exact (fun sig data off le fds fuel Hwf =>
           conj (unmarshal_units data le fds fuel sig off) (unmarshal_work data le fds fuel sig off Hwf)).
Qed.

(* It builds no data unrelated in size to the input: nodes + string bytes of
   the decoded values. *)
Theorem C05_output_bounded : forall sig data off le fds fuel n vs,
    wf_bytes data -> fds_atomic fds ->
    m_unmarshal fuel sig data off le fds = Ok (n, vs) ->
    vsize_list vs <= calls_bound sig data.
Proof. exact (fun sig data off le fds fuel n vs => unmarshal_output data le fds fuel sig off n vs). Qed.

(* parseMessage (header signature fixed "yyyyuua(yv)"; body signature at most
   255 characters once the SIGNATURE header field is validated, repair D35;
   descriptor list cut to the UNIX_FDS count, repair D60).
   [parse_c] is parseMessage with counters; erasing them gives
   [parse_message_v2], which never runs out of fuel, and whose work and
   output are LINEAR in the length of the message, with explicit constants:
   calls <= 1042 + 3060*|raw|, scanned characters <= 1024*(1020 + 2160*|raw|),
   size of everything left on the message object <= 1042 + 3060*|raw|. *)
Theorem C05_parse_counters_erase : forall raw fds, fst (parse_c raw fds) = parse_message_v2 raw fds.
Proof. exact parse_erase. Qed.

Theorem C05_parse_total : forall raw fds,
    parse_message_v2 raw fds <> Err EFuel /\
    (wf_bytes raw -> fds_atomic fds ->
     calls (snd (parse_c raw fds)) <= parse_calls_bound raw /\
     scan (snd (parse_c raw fds)) <= parse_scan_bound raw /\
     (forall m, parse_message_v2 raw fds = Ok m -> parsed_size m <= parse_calls_bound raw)).
Proof.
  exact (fun raw fds =>
           conj (parse_terminates raw fds)
                (fun Hwf Hfd =>
                   match parse_work raw fds Hwf Hfd with
                   | conj A (conj B C) =>
                       conj A (conj B (fun m H => C m (eq_trans (parse_erase raw fds) H)))
                   end)).
Qed.

(* Defect D35: before the repair the SIGNATURE header field was used whatever
   its type; sent as a STRING it escapes the 255-byte limit of the wire type
   (here 256 characters, accepted), and the linear bound above is lost. *)
Theorem C05_parse_legacy_refuted :
  exists raw fds,
    is_ok (parse_message false (msg_fuel raw) raw fds) = true /\
    parse_message_v2 raw fds = Err EMarshal.
Proof. exact (ex_intro _ d30_raw (ex_intro _ (Some []) d30_legacy_accepts)). Qed.

(* The UNIX_FDS header field (code 9) bounds the descriptor list handed to the
   body decoder (repair D60, FdFraming.body_fds): oobFDs[:unix_fds].  Carried
   with a non-integer type the slice raises (the message is rejected, in the
   bounds above); a negative or huge integer follows Python slice semantics. *)
Example C05_parse_hostile_unix_fds :
  parse_message_v2 fds_str_msg (Some [PInt 7]) = Err EType /\
  parse_message_v2 fds_neg_msg (Some [PInt 7; PInt 8]) =
  Ok (2%N, 1%Z, true, true,
      [(AReplySerial, PInt 7); (ASignature, PStr [104%N; 104%N]); (AUnixFds, PInt (-1))],
      Some [PInt 7; PNone]).
Proof. exact hostile_unix_fds. Qed.

Example C05_parse_nonvacuous :
  wf_bytes ex_msg /\ fds_atomic (Some []) /\
  parse_c ex_msg (Some []) =
  (Ok (2%N, 1%Z, true, true, [(AReplySerial, PInt 7); (ASignature, PStr [117%N])], Some [PInt 9]), mkc 19 22 5).
Proof. exact (conj wf_ex_msg (conj fds_atomic_nil ex_msg_parses)). Qed.

(* Defect D01 (repaired by 834e941): before the repair an array of zero-size
   elements never advanced - the pre-repair loop runs out of every fuel. *)
Theorem C05_legacy_refuted :
  exists sig data, forall fuel, fst (mc_unmarshal true data true None fuel sig 0) = Err EFuel.
Proof. exact (ex_intro _ d01_sig (ex_intro _ d01_data d01_legacy_loops)). Qed.

Example C05_d01_now_rejected :
  wf_bytes d01_data /\ m_unmarshal (lin_fuel d01_sig d01_data) d01_sig d01_data 0 true None = Err EMarshal.
Proof. exact (conj wf_d01 d01_repaired_rejects). Qed.

Example C05_nonvacuous :
  mc_unmarshal false ex_data true None (lin_fuel ex_sig ex_data) ex_sig 0 =
  (Ok (35%N, [PList [PList [PInt 1; PStr [97%N]]; PList [PInt 2; PStr [98%N; 98%N]]]]), mkc 10 13 5).
Proof. exact ex_decodes. Qed.
