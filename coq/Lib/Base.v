(* Base definitions shared by every model: bytes, results, small list helpers.
   Definitions only (plus a few elementary lemmas used everywhere). *)
From Coq Require Export List NArith ZArith Bool Arith Lia.
Export ListNotations.

Definition bytes := list N.          (* each element < 256 by construction *)
Definition str := list N.            (* a Python str as a list of code points *)

(* Python exceptions are values of a small enum. *)
Inductive err :=
| EMarshal      (* txdbus.error.MarshallingError *)
| EStruct       (* struct.error: out-of-range pack / short unpack *)
| EType         (* TypeError / AttributeError: wrong Python shape *)
| EKey          (* KeyError: unknown type code *)
| EIndex        (* IndexError *)
| EUnicode      (* UnicodeDecodeError / UnicodeEncodeError *)
| EStop         (* StopIteration / None+1 in the signature splitter *)
| EFuel         (* the model ran out of fuel: excluded by every theorem *)
| EUnmodelled   (* a Python shape the model does not represent *)
| EAuth         (* DBusAuthenticationFailed *)
| EOther.

Inductive res (A : Type) :=
| Ok (a : A)
| Err (e : err).
Arguments Ok {A} a.
Arguments Err {A} e.

Definition bind {A B} (r : res A) (f : A -> res B) : res B :=
  match r with Ok a => f a | Err e => Err e end.
Notation "'do' x <- r ; k" := (bind r (fun x => k))
  (at level 200, x pattern, r at level 100, k at level 200).

Definition is_ok {A} (r : res A) : bool := match r with Ok _ => true | Err _ => false end.

Definition err_code (e : err) : Z :=
  match e with
  | EMarshal => 1 | EStruct => 2 | EType => 3 | EKey => 4 | EIndex => 5
  | EUnicode => 6 | EStop => 7 | EFuel => 8 | EUnmodelled => 9 | EAuth => 10
  | EOther => 11
  end%Z.

(* --- list helpers ------------------------------------------------------- *)

Fixpoint list_eqb {A} (eqb : A -> A -> bool) (a b : list A) : bool :=
  match a, b with
  | [], [] => true
  | x :: a', y :: b' => eqb x y && list_eqb eqb a' b'
  | _, _ => false
  end.

Definition str_eqb : str -> str -> bool := list_eqb N.eqb.

Lemma list_eqb_spec {A} (eqb : A -> A -> bool) :
  (forall x y, eqb x y = true <-> x = y) ->
  forall a b, list_eqb eqb a b = true <-> a = b.
Proof.
  intros H a; induction a as [|x a IH]; intros [|y b]; simpl; split; intro E;
    try reflexivity; try discriminate.
  - apply andb_true_iff in E as [E1 E2]. apply H in E1. apply IH in E2. congruence.
  - inversion E; subst. apply andb_true_iff; split; [apply H|apply IH]; reflexivity.
Qed.

Lemma str_eqb_spec a b : str_eqb a b = true <-> a = b.
Proof. apply list_eqb_spec. intros; apply N.eqb_eq. Qed.

Lemma str_eqb_refl a : str_eqb a a = true.
Proof. apply str_eqb_spec; reflexivity. Qed.

(* s.startswith(p) *)
Fixpoint starts_with (p s : str) : bool :=
  match p, s with
  | [], _ => true
  | x :: p', y :: s' => N.eqb x y && starts_with p' s'
  | _ :: _, [] => false
  end.

Lemma starts_with_spec p s : starts_with p s = true <-> exists t, s = p ++ t.
Proof.
  revert s; induction p as [|x p IH]; intros s; simpl.
  - split; [exists s; reflexivity | reflexivity].
  - destruct s as [|y s]; [split; [discriminate | intros [t E]; discriminate]|].
    rewrite andb_true_iff, N.eqb_eq, IH. split.
    + intros [-> [t ->]]. exists t; reflexivity.
    + intros [t E]. inversion E; subst. split; [reflexivity | exists t; reflexivity].
Qed.

(* sub in s  (Python substring test) *)
Fixpoint contains (sub s : str) : bool :=
  starts_with sub s || match s with [] => false | _ :: s' => contains sub s' end.

Fixpoint last_opt {A} (l : list A) : option A :=
  match l with [] => None | [x] => Some x | _ :: l' => last_opt l' end.

Definition ends_with_char (c : N) (s : str) : bool :=
  match last_opt s with Some x => N.eqb x c | None => false end.

(* split on a single separator character, like s.split(c): always >= 1 field *)
Fixpoint split_on (c : N) (s : str) : list str :=
  match s with
  | [] => [[]]
  | x :: s' =>
      if N.eqb x c then [] :: split_on c s'
      else match split_on c s' with
           | [] => [[x]]            (* unreachable *)
           | f :: fs => (x :: f) :: fs
           end
  end.

Fixpoint join_with (c : N) (l : list str) : str :=
  match l with
  | [] => []
  | [x] => x
  | x :: l' => x ++ c :: join_with c l'
  end.

Fixpoint repeat_n {A} (x : A) (n : nat) : list A :=
  match n with O => [] | S k => x :: repeat_n x k end.

Lemma repeat_n_length {A} (x : A) n : length (repeat_n x n) = n.
Proof. induction n; simpl; congruence. Qed.

Definition ascii (z : Z) : N := Z.to_N z.

(* association lists with Python-dict update semantics (insertion order kept) *)
Fixpoint alist_set {K V} (eqb : K -> K -> bool) (k : K) (v : V) (l : list (K * V)) : list (K * V) :=
  match l with
  | [] => [(k, v)]
  | (k', v') :: l' => if eqb k k' then (k', v) :: l' else (k', v') :: alist_set eqb k v l'
  end.

Fixpoint alist_get {K V} (eqb : K -> K -> bool) (k : K) (l : list (K * V)) : option V :=
  match l with
  | [] => None
  | (k', v') :: l' => if eqb k k' then Some v' else alist_get eqb k l'
  end.

Fixpoint alist_del {K V} (eqb : K -> K -> bool) (k : K) (l : list (K * V)) : list (K * V) :=
  match l with
  | [] => []
  | (k', v') :: l' => if eqb k k' then l' else (k', v') :: alist_del eqb k l'
  end.
