(* S-expression reader/printer used by the correspondence harness.  It is
   Gallina so that the same code runs under vm_compute and in the extracted
   OCaml driver; the hand-written OCaml is only the line I/O loop.

   Syntax:  sexp ::= '(' sexp* ')' | ['-'] digit+ | '"' (hexdigit hexdigit)* '"'   *)
From Tx Require Import Lib.Base.
From Coq Require Decimal DecimalN.
Local Open Scope N_scope.

Inductive sexp :=
| SNum (z : Z)
| SBytes (b : list N)
| SList (l : list sexp).

Inductive tok := TLP | TRP | TAtom (a : sexp).

Inductive lexst :=
| LIdle
| LNum (neg : bool) (acc : N)
| LStr (racc : list N) (hi : option N).

Definition hexval (c : N) : option N :=
  if (48 <=? c) && (c <=? 57) then Some (c - 48)
  else if (97 <=? c) && (c <=? 102) then Some (c - 87)
  else if (65 <=? c) && (c <=? 70) then Some (c - 55)
  else None.

Definition flush (st : lexst) : option (list tok) :=
  match st with
  | LIdle => Some []
  | LNum neg acc => Some [TAtom (SNum (if neg then Z.opp (Z.of_N acc) else Z.of_N acc))]
  | LStr _ _ => None
  end.

(* returns tokens in order *)
Fixpoint lex (s : list N) (st : lexst) : option (list tok) :=
  match s with
  | [] => flush st
  | c :: r =>
      match st with
      | LStr racc hi =>
          if c =? 34 then
            match hi with
            | None => option_map (cons (TAtom (SBytes (rev racc)))) (lex r LIdle)
            | Some _ => None
            end
          else match hexval c with
               | None => None
               | Some v =>
                   match hi with
                   | None => lex r (LStr racc (Some v))
                   | Some h => lex r (LStr ((h * 16 + v) :: racc) None)
                   end
               end
      | _ =>
          if (48 <=? c) && (c <=? 57) then
            match st with
            | LNum neg acc => lex r (LNum neg (acc * 10 + (c - 48)))
            | _ => lex r (LNum false (c - 48))
            end
          else
            match flush st with
            | None => None
            | Some pre =>
                let rest :=
                  if c =? 40 then option_map (cons TLP) (lex r LIdle)
                  else if c =? 41 then option_map (cons TRP) (lex r LIdle)
                  else if c =? 45 then lex r (LNum true 0)
                  else if c =? 34 then lex r (LStr [] None)
                  else if (c =? 32) || (c =? 10) || (c =? 13) || (c =? 9) then lex r LIdle
                  else None in
                option_map (fun rs => List.app pre rs) rest
            end
      end
  end.

Fixpoint parse_toks (ts : list tok) (stack : list (list sexp)) (cur : list sexp) : option sexp :=
  match ts with
  | [] => match stack, cur with [], [x] => Some x | _, _ => None end
  | TLP :: r => parse_toks r (cur :: stack) []
  | TRP :: r =>
      match stack with
      | [] => None
      | top :: st => parse_toks r st (SList (rev cur) :: top)
      end
  | TAtom a :: r => parse_toks r stack (a :: cur)
  end.

Definition parse (s : list N) : option sexp :=
  match lex s LIdle with
  | None => None
  | Some ts => parse_toks ts [] []
  end.

(* --- printer ------------------------------------------------------------- *)

Fixpoint uint_chars (u : Decimal.uint) : list N :=
  match u with
  | Decimal.Nil => []
  | Decimal.D0 r => 48 :: uint_chars r | Decimal.D1 r => 49 :: uint_chars r
  | Decimal.D2 r => 50 :: uint_chars r | Decimal.D3 r => 51 :: uint_chars r
  | Decimal.D4 r => 52 :: uint_chars r | Decimal.D5 r => 53 :: uint_chars r
  | Decimal.D6 r => 54 :: uint_chars r | Decimal.D7 r => 55 :: uint_chars r
  | Decimal.D8 r => 56 :: uint_chars r | Decimal.D9 r => 57 :: uint_chars r
  end%N.

Definition n_chars (n : N) : list N := uint_chars (N.to_uint n).

Definition z_chars (z : Z) : list N :=
  match z with
  | Z0 => [48]
  | Zpos p => n_chars (Npos p)
  | Zneg p => 45 :: n_chars (Npos p)
  end%N.

Definition hexdigit (v : N) : N := if v <? 10 then 48 + v else 87 + v.

Fixpoint hex_chars (b : list N) : list N :=
  match b with
  | [] => []
  | x :: r => hexdigit (x / 16) :: hexdigit (x mod 16) :: hex_chars r
  end.

Fixpoint print (s : sexp) : list N :=
  match s with
  | SNum z => z_chars z
  | SBytes b => 34 :: hex_chars b ++ [34]
  | SList l =>
      40 :: (fix go (l : list sexp) : list N :=
               match l with
               | [] => [41]
               | [x] => print x ++ [41]
               | x :: r => print x ++ 32 :: go r
               end) l
  end%N.

(* --- small decoding helpers ---------------------------------------------- *)

Definition sbool (b : bool) : sexp := SNum (if b then 1 else 0).
Definition snat (n : nat) : sexp := SNum (Z.of_nat n).
Definition sN (n : N) : sexp := SNum (Z.of_N n).

Definition as_num (s : sexp) : option Z := match s with SNum z => Some z | _ => None end.
Definition as_bytes (s : sexp) : option (list N) := match s with SBytes b => Some b | _ => None end.
Definition as_list (s : sexp) : option (list sexp) := match s with SList l => Some l | _ => None end.
Definition as_bool (s : sexp) : option bool :=
  match s with SNum z => Some (negb (Z.eqb z 0)) | _ => None end.
Definition as_nat (s : sexp) : option nat :=
  match s with SNum z => Some (Z.to_nat z) | _ => None end.
Definition as_N (s : sexp) : option N :=
  match s with SNum z => Some (Z.to_N z) | _ => None end.

Section MapOpt.
  Context {A B : Type} (f : A -> option B).
  Fixpoint map_opt (l : list A) : option (list B) :=
    match l with
    | [] => Some []
    | x :: r => match f x, map_opt r with
                | Some y, Some ys => Some (y :: ys)
                | _, _ => None
                end
    end.
End MapOpt.

(* optional value: () = None, (x) = Some x *)
Definition as_opt {A} (f : sexp -> option A) (s : sexp) : option (option A) :=
  match s with
  | SList [] => Some None
  | SList [x] => option_map Some (f x)
  | _ => None
  end.

Definition sopt {A} (f : A -> sexp) (o : option A) : sexp :=
  match o with None => SList [] | Some x => SList [f x] end.

Definition sres {A} (f : A -> sexp) (r : res A) : sexp :=
  match r with
  | Ok a => SList [SNum 1; f a]
  | Err e => SList [SNum 0; SNum (err_code e)]
  end.

(* a Python str: "hex" when all code points < 256, else a list of numbers *)
Definition as_str (s : sexp) : option (list N) :=
  match s with
  | SBytes b => Some b
  | SList l => map_opt as_N l
  | SNum _ => None
  end.

Definition sstr (s : list N) : sexp :=
  if forallb (fun c => N.ltb c 256) s then SBytes s else SList (map sN s).

Definition bad : sexp := SList [SNum (-1)].
