(* Proofs for C12, proxy layer with delayed daemon answers: a repeated
   cancelSignalNotification of an id writes nothing; along every history of
   subscriptions, cancels, answers and signals the reference daemon holds
   exactly the texts of the client's match_rules. *)
From Tx Require Import Lib.Base Lib.Sexp Model.Router Spec.MatchSpec Spec.DaemonSpec Model.ClientMatch Model.AsyncMatch.
From Tx Require Import Proofs.RouterProofs Proofs.RuleTextProofs Proofs.ClientMatchProofs.
From Coq Require Import Permutation.
Local Open Scope N_scope.

Lemma mem_spec i l : mem i l = true <-> In i l.
Proof.
  unfold mem. rewrite existsb_exists. split.
  - intros (j & Hj & E). apply Nat.eqb_eq in E. subst; exact Hj.
  - intros H. exists i. split; [exact H | apply Nat.eqb_refl].
Qed.

Lemma set_remove_not_in i l : ~ In i (set_remove i l).
Proof. unfold set_remove. intro H. apply filter_In in H as [_ H]. rewrite Nat.eqb_refl in H. discriminate. Qed.

Lemma set_remove_in i j l : In j (set_remove i l) -> In j l /\ j <> i.
Proof.
  unfold set_remove. intro H. apply filter_In in H as [H E]. split; [exact H|].
  intro X. subst. rewrite Nat.eqb_refl in E. discriminate.
Qed.

(* ---- cancel is idempotent per id ------------------------------------------------------- *)

Theorem cancel_idempotent prule declared s id :
  let s1 := fst (astep prule declared s (XCancel id)) in
  wrote (snd (astep prule declared s1 (XCancel id))) = [] /\
  fst (astep prule declared s1 (XCancel id)) = s1.
Proof.
  cbn [astep]. destruct (mem id (a_subs s)) eqn:M.
  - unfold issue_del. destruct (client_del_text id (a_client s)) as [t|] eqn:G; cbn [fst snd].
    + cbn [astep a_subs].
      assert (M' : mem id (set_remove id (a_subs s)) = false).
      { destruct (mem id (set_remove id (a_subs s))) eqn:X; [|reflexivity].
        apply mem_spec in X. exfalso. exact (set_remove_not_in _ _ X). }
      rewrite M'. split; reflexivity.
    + cbn [astep]. rewrite M. unfold issue_del. rewrite G. split; reflexivity.
  - cbn [fst snd astep]. rewrite M. split; reflexivity.
Qed.

(* ---- the daemon holds the texts of match_rules ------------------------------------------- *)

Definition proxy_event (e : aevent) : Prop :=
  match e with
  | XNotify k => cb_acts k = []
  | XCancel _ | XAnswer | XSignal _ => True
  | XAdd _ _ | XDel _ => False
  end.

Definition pdel_ids (l : list pcall) : list nat :=
  flat_map (fun c => match c with PDel i _ => [i] | PAdd _ _ _ _ => [] end) l.

Section Inv.
  Variable prule : rule.
  Variable declared : option str.
  Hypothesis prule_good : good_rule prule.
  Hypothesis prule_reg : registrable prule = true.

  Record inv (s : astate) : Prop := {
    i_wf : wf (cl_router (a_client s));
    i_keys : map fst (cl_texts (a_client s)) = map fst (rules (cl_router (a_client s)));
    i_perm : Permutation (a_daemon s) (map snd (cl_texts (a_client s)));
    i_pdel : forall i t, In (PDel i t) (a_pending s) -> alist_get Nat.eqb i (cl_texts (a_client s)) = Some t;
    i_pdel_nodup : NoDup (pdel_ids (a_pending s));
    i_padd : forall r k t px, In (PAdd r k t px) (a_pending s) -> r = prule /\ t = rule_string prule /\ cb_acts k = [];
    i_subs : forall i, In i (a_subs s) -> In i (map fst (cl_texts (a_client s))) /\ ~ In i (pdel_ids (a_pending s))
  }.

  Lemma inv_init : inv ainit.
  Proof.
    constructor; cbn; try tauto.
    - exact wf_init.
    - apply Permutation_refl.
    - constructor.
  Qed.

  Lemma pdel_ids_app l1 l2 : pdel_ids (l1 ++ l2) = pdel_ids l1 ++ pdel_ids l2.
  Proof. unfold pdel_ids. apply flat_map_app. Qed.

  Lemma pdel_ids_in i l : In i (pdel_ids l) <-> exists t, In (PDel i t) l.
  Proof.
    unfold pdel_ids. rewrite in_flat_map. split.
    - intros (c & Hc & Hi). destruct c as [r k t px|j t]; [destruct Hi|]. destruct Hi as [<-|[]]. exists t; exact Hc.
    - intros (t & Ht). exists (PDel i t). split; [exact Ht | left; reflexivity].
  Qed.

  Lemma alist_get_del_other (l : list (nat * str)) i j :
    i <> j -> alist_get Nat.eqb i (alist_del Nat.eqb j l) = alist_get Nat.eqb i l.
  Proof.
    intros N. induction l as [|[k x] l IH]; cbn; [reflexivity|].
    destruct (Nat.eqb j k) eqn:E1.
    - apply Nat.eqb_eq in E1. subst k. destruct (Nat.eqb i j) eqn:E2; [apply Nat.eqb_eq in E2; congruence | reflexivity].
    - cbn. destruct (Nat.eqb i k); [reflexivity | exact IH].
  Qed.

  Lemma alist_get_app_fresh (l : list (nat * str)) i j x :
    In i (map fst l) -> alist_get Nat.eqb i (l ++ [(j, x)]) = alist_get Nat.eqb i l.
  Proof.
    induction l as [|[k y] l IH]; cbn; [tauto|].
    intros H. destruct (Nat.eqb i k) eqn:E; [reflexivity|].
    apply IH. destruct H as [H|H]; [apply Nat.eqb_neq in E; congruence | exact H].
  Qed.

  Lemma alist_get_keys (l : list (nat * str)) i t : alist_get Nat.eqb i l = Some t -> In i (map fst l).
  Proof. intros H. apply alist_get_some_in in H. apply in_map_iff. exists (i, t). split; [reflexivity | exact H]. Qed.

  Lemma alist_del_keys_sub (l : list (nat * str)) j i : In i (map fst (alist_del Nat.eqb j l)) -> In i (map fst l).
  Proof.
    induction l as [|[k y] l IH]; cbn; [tauto|].
    destruct (Nat.eqb j k); cbn; [tauto|]. intros [H|H]; [left; exact H | right; apply IH; exact H].
  Qed.

  Lemma step_inv s e : inv s -> proxy_event e -> inv (fst (astep prule declared s e)).
  Proof.
    intros I He. destruct e as [r k|j|k|j| |m]; cbn [proxy_event] in He; try contradiction; cbn [astep].
    - (* notifyOnSignal *)
      cbn [fst]. destruct I. constructor; cbn [a_client a_pending a_daemon a_subs]; try assumption.
      + intros i t H. apply in_app_iff in H as [H|[H|[]]]; [eauto | discriminate].
      + rewrite pdel_ids_app. cbn. rewrite app_nil_r. assumption.
      + intros r k' t px H. apply in_app_iff in H as [H|[H|[]]]; [eauto|].
        injection H as <- <- <- <-. auto.
      + intros i H. destruct (i_subs0 i H) as [A B]. split; [exact A|].
        rewrite pdel_ids_app. cbn. rewrite app_nil_r. exact B.
    - (* cancelSignalNotification *)
      destruct (mem j (a_subs s)) eqn:M; [|exact I].
      apply mem_spec in M. destruct I. destruct (i_subs0 j M) as [Hk Hnp].
      unfold issue_del, client_del_text.
      destruct (alist_get Nat.eqb j (cl_texts (a_client s))) as [t|] eqn:G; [|cbn [fst]; constructor; assumption].
      cbn [fst]. constructor; cbn [a_client a_pending a_daemon a_subs]; try assumption.
      + intros i t' H. apply in_app_iff in H as [H|[H|[]]]; [eauto|]. injection H as <- <-. exact G.
      + rewrite pdel_ids_app. cbn. apply NoDup_app_snoc; assumption.
      + intros r k t' px H. apply in_app_iff in H as [H|[H|[]]]; [eauto | discriminate].
      + intros i H. apply set_remove_in in H as [H N]. destruct (i_subs0 i H) as [A B]. split; [exact A|].
        rewrite pdel_ids_app, in_app_iff. cbn. intros [X|[X|[]]]; [exact (B X) | congruence].
    - (* an answer *)
      destruct (a_pending s) as [|[r k t px|j t] rest] eqn:EP; [exact I | |]; destruct I.
      + (* AddMatch answered *)
        destruct (i_padd0 r k t px) as (-> & -> & Hk); [rewrite EP; left; reflexivity|].
        unfold d_add. rewrite (rule_of_text_good prule prule_good), prule_reg.
        unfold client_add_ok, add_match, add_match_with.
        destruct (proj1 (compile_registrable prule) prule_reg) as [cc Ec]. rewrite Ec. cbn [fst].
        set (id := next_id (cl_router (a_client s))).
        assert (Hfresh : ~ In id (map fst (rules (cl_router (a_client s))))).
        { intro H. apply in_map_iff in H as ([i x] & Ei & Hin). cbn in Ei. subst i.
          apply (wf_lt _ i_wf0) in Hin. unfold id in Hin. lia. }
        assert (Hfresh' : ~ In id (map fst (cl_texts (a_client s)))) by (rewrite i_keys0; exact Hfresh).
        assert (Hpd : forall i, In i (pdel_ids rest) -> i <> id).
        { intros i H X. subst i. apply pdel_ids_in in H as (t' & H). apply Hfresh'.
          eapply alist_get_keys. apply (i_pdel0 id t'). rewrite EP. right; exact H. }
        constructor; cbn [a_client a_pending a_daemon a_subs cl_router cl_texts].
        * pose proof (step_wf (cl_router (a_client s)) (EAdd prule k) i_wf0 Hk) as W.
          cbn [step] in W. unfold add_match, add_match_with in W. rewrite Ec in W. exact W.
        * cbn [rules]. rewrite (alist_set_fresh (cl_texts (a_client s))) by exact Hfresh'.
          rewrite (alist_set_fresh (rules (cl_router (a_client s)))) by exact Hfresh.
          rewrite !map_app, i_keys0. reflexivity.
        * rewrite (alist_set_fresh (cl_texts (a_client s))) by exact Hfresh'. rewrite map_app. cbn [map snd].
          apply Permutation_cons_app. rewrite app_nil_r. exact i_perm0.
        * intros i t' H. rewrite (alist_set_fresh (cl_texts (a_client s))) by exact Hfresh'.
          assert (G : alist_get Nat.eqb i (cl_texts (a_client s)) = Some t') by (apply i_pdel0; rewrite EP; right; exact H).
          rewrite alist_get_app_fresh; [exact G | eapply alist_get_keys; exact G].
        * rewrite EP in i_pdel_nodup0. exact i_pdel_nodup0.
        * intros r' k' t' px' H. apply (i_padd0 r' k' t' px'). rewrite EP. right; exact H.
        * intros i H. rewrite (alist_set_fresh (cl_texts (a_client s))) by exact Hfresh'. rewrite map_app, in_app_iff.
          assert (Hi : In i (a_subs s) \/ i = id).
          { destruct px; [|left; exact H]. unfold set_add in H. destruct (mem id (a_subs s)); [left; exact H|].
            apply in_app_iff in H as [H|[H|[]]]; [left; exact H | right; symmetry; exact H]. }
          destruct Hi as [Hi| ->].
          -- destruct (i_subs0 i Hi) as [A B]. split; [left; exact A|]. rewrite EP in B. exact B.
          -- split; [right; left; reflexivity|]. intro X. exact (Hpd id X eq_refl).
      + (* RemoveMatch answered *)
        assert (G : alist_get Nat.eqb j (cl_texts (a_client s)) = Some t) by (apply i_pdel0; rewrite EP; left; reflexivity).
        assert (Hin : In t (a_daemon s)).
        { apply (Permutation_in t (Permutation_sym i_perm0)). apply alist_get_some_in in G.
          apply in_map_iff. exists (j, t). split; [reflexivity | exact G]. }
        destruct (d_remove_in t _ Hin) as (d' & -> & Pd). unfold client_del_text. rewrite G. cbn [fst].
        rewrite EP in i_pdel_nodup0. change (pdel_ids (PDel j t :: rest)) with (j :: pdel_ids rest) in i_pdel_nodup0.
        inversion i_pdel_nodup0 as [|? ? Hj ND']; subst.
        assert (NDk : NoDup (map fst (cl_texts (a_client s)))) by (rewrite i_keys0; exact (wf_nodup _ i_wf0)).
        constructor; cbn [a_client a_pending a_daemon a_subs client_del_ok cl_router cl_texts].
        * pose proof (step_wf (cl_router (a_client s)) (EDel j) i_wf0 I) as W. cbn [step] in W.
          destruct (del_match j (cl_router (a_client s))). exact W.
        * unfold del_match.
          destruct (alist_get Nat.eqb j (rules (cl_router (a_client s)))) eqn:Gr.
          -- cbn [fst rules]. rewrite (alist_del_filter (cl_texts (a_client s))) by exact NDk.
             rewrite (alist_del_filter (rules (cl_router (a_client s)))) by exact (wf_nodup _ i_wf0).
             clear - i_keys0. revert i_keys0. generalize (cl_texts (a_client s)) (rules (cl_router (a_client s))).
             induction l as [|[a x] l IH]; intros [|[b y] l0]; cbn; try discriminate; [reflexivity|].
             intros [= -> E]. destruct (Nat.eqb j b); cbn; [|f_equal]; apply IH; exact E.
          -- exfalso. apply alist_get_none in Gr. apply Gr. rewrite <- i_keys0. eapply alist_get_keys; exact G.
        * apply (Permutation_cons_inv (a := t)).
          eapply perm_trans; [apply Permutation_sym; exact Pd|].
          eapply perm_trans; [exact i_perm0|]. apply alist_del_perm; exact G.
        * intros i t' H.
          assert (N : i <> j).
          { intro X. subst i. apply Hj. apply pdel_ids_in. exists t'. exact H. }
          rewrite (alist_get_del_other _ _ _ N). apply i_pdel0. rewrite EP. right; exact H.
        * exact ND'.
        * intros r' k' t' px' H. apply (i_padd0 r' k' t' px'). rewrite EP. right; exact H.
        * intros i H. destruct (i_subs0 i H) as [A B]. rewrite EP in B. cbn in B.
          split; [|intro X; apply B; right; exact X].
          assert (N : i <> j) by (intro X; apply B; left; symmetry; exact X).
          rewrite (alist_del_filter (cl_texts (a_client s))) by exact NDk.
          apply in_map_iff in A as ([i' x] & E & A). cbn in E. subst i'.
          apply in_map_iff. exists (i, x). split; [reflexivity|]. apply filter_In. split; [exact A|].
          cbn. apply negb_true_iff. apply Nat.eqb_neq. congruence.
    - (* a signal *)
      destruct (d_forwards (a_daemon s) m); [|exact I].
      destruct I. rewrite (route_message_passive m _ i_wf0). cbn [fst].
      constructor; cbn [a_client a_pending a_daemon a_subs cl_router cl_texts]; assumption.
  Qed.

  Theorem proxy_daemon_agree h :
    Forall proxy_event h -> inv (arun prule declared h).
  Proof.
    unfold arun. generalize ainit inv_init. induction h as [|e h IH]; intros s I F; [exact I|].
    inversion F as [|? ? He F']; subst. cbn [fold_left]. apply IH; [apply step_inv; assumption | exact F'].
  Qed.
End Inv.

(* non-vacuity: two subscriptions to the same signal, the first cancelled
   twice before the RemoveMatch reply: one RemoveMatch, the daemon keeps one
   instance, the second subscription is served *)
Definition w_prule : rule := proxy_rule w_ab [84] [111; 46; 80].     (* /a/b, T, o.P *)
Definition w_tick : msg := mkMsg 4 (Some w_ab) (Some [111; 46; 80]) (Some [84]) None None None None.
Definition w_ptext : str := rule_string w_prule.
Definition w_cancel_twice : list aevent :=
  [ XNotify (passive 1 false); XNotify (passive 2 false); XAnswer; XAnswer;
    XCancel 0%nat; XCancel 0%nat; XAnswer; XAnswer; XSignal w_tick ].

Lemma w_cancel_twice_ok :
  Forall proxy_event w_cancel_twice /\ good_rule w_prule /\ registrable w_prule = true /\
  atrace w_prule None w_cancel_twice =
    [ OWrote [WAdd w_ptext] (Ok tt); OWrote [WAdd w_ptext] (Ok tt); OAnsAdd (Ok 0%nat); OAnsAdd (Ok 1%nat);
      OWrote [WRemove w_ptext] (Ok tt); OWrote [] (Ok tt); OAnsDel (Ok tt); OAnsNone;
      OASignal true [(1%nat, 2)] ] /\
  a_daemon (arun w_prule None w_cancel_twice) = [w_ptext].
Proof.
  split; [repeat constructor|]. split; [split; vm_compute; reflexivity|].
  vm_compute. repeat split; reflexivity.
Qed.

Theorem proxy_daemon_agree_stmt prule declared h :
  good_rule prule -> registrable prule = true -> Forall proxy_event h ->
  let s := arun prule declared h in
  Permutation (a_daemon s) (map snd (cl_texts (a_client s))) /\
  NoDup (pdel_ids (a_pending s)) /\
  (forall i t, In (PDel i t) (a_pending s) -> alist_get Nat.eqb i (cl_texts (a_client s)) = Some t) /\
  (forall i, In i (a_subs s) -> In i (map fst (cl_texts (a_client s))) /\ ~ In i (pdel_ids (a_pending s))).
Proof.
  intros G R F. destruct (proxy_daemon_agree prule declared G R h F). cbv zeta. auto.
Qed.
