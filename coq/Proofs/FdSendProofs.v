(* Proofs for C20, sending side: marshalling a body with UNIX_FD arguments
   collects the descriptors in argument order and writes their positions;
   the constructor declares their count; sendMessage hands them over first. *)
From Tx Require Import Lib.Base Model.PyVal Model.Validators Model.Marshal Model.Message Model.FdFraming
  Spec.WireSpec Spec.Readback Spec.WireTyped Spec.Conforms Spec.Grammar Spec.MsgSpec Spec.FdSpec
  Proofs.SigProofs Proofs.BytesProofs Proofs.MarshalProofs Proofs.UnmarshalProofs Proofs.ValidatorsProofs
  Proofs.MessageProofs.
From Coq Require Import ZifyBool ZifyNat ZifyN.
Local Open Scope N_scope.
Ltac Zify.zify_post_hook ::= Z.to_euclidean_division_equations.

(* ------------------------------------------------------------------------ *)
(* named inner loops of the specification                                      *)

Definition fconf_all (F : list pyval) (et : ty) :=
  fix all2 (items : list pyval) (l : list wval) {struct l} : Prop :=
    match items, l with
    | [], [] => True
    | x :: items', y :: l' => fconf F et x y /\ all2 items' l'
    | _, _ => False
    end.

Definition fconf_fields (F : list pyval) :=
  fix all3 (ts : list ty) (items : list pyval) (l : list wval) {struct l} : Prop :=
    match ts, items, l with
    | [], [], [] => True
    | t :: ts', x :: items', y :: l' => fconf F t x y /\ all3 ts' items' l'
    | _, _, _ => False
    end.

Definition leaves_fields :=
  fix go (ts : list ty) (l : list wval) {struct l} : list Z :=
    match ts, l with
    | t :: ts', x :: r => fd_leaves t x ++ go ts' r
    | _, _ => []
    end.

Lemma fconf_array F et v l :
  fconf F (TArray et) v (WArray l) = exists items, array_items v = Ok items /\ fconf_all F et items l.
Proof. reflexivity. Qed.

Lemma fconf_struct F ts v l :
  fconf F (TStruct ts) v (WStruct l) = exists items, seq_items v = Ok items /\ fconf_fields F ts items l.
Proof. reflexivity. Qed.

Lemma leaves_struct ts l : fd_leaves (TStruct ts) (WStruct l) = leaves_fields ts l.
Proof. reflexivity. Qed.

Lemma leaves_array et l : fd_leaves (TArray et) (WArray l) = flat_map (fd_leaves et) l.
Proof. reflexivity. Qed.

Lemma leaves_fields_seq ts ws : leaves_fields ts ws = fd_leaves_seq ts ws.
Proof.
  revert ws; induction ts as [|t ts IH]; intros [|w ws]; try reflexivity.
  cbn [leaves_fields fd_leaves_seq]. rewrite IH. reflexivity.
Qed.

Lemma fconf_fields_seq F ts vs ws : fconf_fields F ts vs ws <-> fconf_seq F ts vs ws.
Proof.
  revert vs ws; induction ts as [|t ts IH]; intros [|v vs] [|w ws]; cbn; try tauto.
  rewrite IH. tauto.
Qed.

(* ------------------------------------------------------------------------ *)
(* consecutive numbers                                                         *)

Lemma seqZ_length n k : length (seqZ n k) = k.
Proof. unfold seqZ. rewrite map_length, seq_length. reflexivity. Qed.

Lemma seqZ_app n a b : seqZ n (a + b) = seqZ n a ++ seqZ (n + a) b.
Proof. unfold seqZ. rewrite seq_app, map_app. reflexivity. Qed.

Lemma app_eq_len {A} : forall (a c b d : list A), length a = length c -> a ++ b = c ++ d -> a = c /\ b = d.
Proof.
  induction a as [|x a IH]; intros [|y c] b d L E; try discriminate.
  - auto.
  - cbn in E. injection E as -> E. cbn in L. destruct (IH c b d ltac:(lia) E) as [-> ->]. auto.
Qed.

Lemma seqZ_split (x y : list Z) n :
  x ++ y = seqZ n (length (x ++ y)) -> x = seqZ n (length x) /\ y = seqZ (n + length x) (length y).
Proof.
  rewrite app_length, seqZ_app. intros E.
  apply app_eq_len in E; [exact E|]. rewrite seqZ_length. reflexivity.
Qed.

Lemma firstn_snoc {A} : forall n (F : list A) v, nth_error F n = Some v -> firstn (S n) F = firstn n F ++ [v].
Proof.
  induction n as [|n IH]; intros [|x F] v H; try discriminate.
  - cbn in H. injection H as ->. reflexivity.
  - cbn [nth_error] in H. change (x :: firstn (S n) F = x :: (firstn n F ++ [v])). f_equal. apply IH. exact H.
Qed.

(* ------------------------------------------------------------------------ *)
(* the statement proved by induction on the wire value                         *)

Section Send.
  Variable F : list pyval.                  (* the message's descriptor array *)
  Variable le : bool.
  Hypothesis HF : N.of_nat (length F) < two32.

  Definition felem_ok (x : wval) : Prop :=
    forall t v, fconf F t v x -> forall f o n,
      (wdepth x <= f)%nat -> (o mod align t = 0)%nat -> len (encb t x o le) < two32 ->
      fd_leaves t x = seqZ n (length (fd_leaves t x)) ->
      (n + length (fd_leaves t x) <= length F)%nat ->
      m_one f (show t) v (N.of_nat o) le (Some (firstn n F)) =
        Ok (len (encb t x o le), encb t x o le, Some (firstn (n + length (fd_leaves t x)) F)).

  (* a value without descriptor arguments: the refinement of C01/C02 applies *)
  Lemma plain_ok x t v f o n :
    conf t v x -> fd_leaves t x = [] ->
    (wdepth x <= f)%nat -> (o mod align t = 0)%nat -> len (encb t x o le) < two32 ->
    m_one f (show t) v (N.of_nat o) le (Some (firstn n F)) =
      Ok (len (encb t x o le), encb t x o le, Some (firstn (n + length (fd_leaves t x)) F)).
  Proof.
    intros Hc Hl Hd Hal Hs. rewrite Hl. cbn [length]. rewrite Nat.add_0_r.
    exact (m_one_refines le x t v Hc f o (Some (firstn n F)) Hd Hal Hs).
  Qed.

  Lemma fone_padded x t v f off n :
    felem_ok x -> fconf F t v x -> (wdepth x <= f)%nat -> len (enc t x off le) < two32 ->
    fd_leaves t x = seqZ n (length (fd_leaves t x)) -> (n + length (fd_leaves t x) <= length F)%nat ->
    forall c r, show t = c :: r -> align_of c = Some (N.of_nat (align t)) ->
    exists p, pad_for c (N.of_nat off) = Ok p /\
      zeros p ++ encb t x (off + length (padding (align t) off)) le = enc t x off le /\
      m_one f (show t) v (N.of_nat off + p) le (Some (firstn n F)) =
        Ok (len (encb t x (off + length (padding (align t) off)) le),
            encb t x (off + length (padding (align t) off)) le,
            Some (firstn (n + length (fd_leaves t x)) F)) /\
      N.of_nat off + p + len (encb t x (off + length (padding (align t) off)) le)
        = N.of_nat (off + length (enc t x off le)).
  Proof.
    intros Hx Hc Hd Hs Hl Hn c r Hshow Hal.
    exists (len (padding (align t) off)). unfold pad_for. rewrite Hal.
    rewrite (pad_len_spec _ _ (align_good t)). split; [reflexivity|].
    rewrite zeros_padding. split; [reflexivity|].
    rewrite enc_split, len_app in Hs.
    split.
    - replace (N.of_nat off + len (padding (align t) off))
        with (N.of_nat (off + length (padding (align t) off))) by (unfold len; lia).
      apply Hx; [exact Hc|exact Hd|apply padding_then_aligned, align_good|lia|exact Hl|exact Hn].
    - rewrite enc_split, app_length. unfold len. lia.
  Qed.

  Lemma farr_loop_refines et c r f :
    show et = c :: r -> align_of c = Some (N.of_nat (align et)) ->
    forall l, Forall felem_ok l -> forall items, fconf_all F et items l -> (wdepth_list l <= f)%nat ->
    forall off dlen n, len (arr_body et le l off) < two32 ->
    flat_map (fd_leaves et) l = seqZ n (length (flat_map (fd_leaves et) l)) ->
    (n + length (flat_map (fd_leaves et) l) <= length F)%nat ->
    arr_loop (m_one f) (show et) c items (N.of_nat off) dlen le (Some (firstn n F)) =
    Ok (N.of_nat (off + length (arr_body et le l off)), dlen + len (arr_body et le l off),
        arr_body et le l off, Some (firstn (n + length (flat_map (fd_leaves et) l)) F)).
  Proof.
    intros Hshow Hal l Hl. induction Hl as [|x l Hx Hl IH]; intros items Hc Hd off dlen n Hs HL Hn.
    - destruct items; [|contradiction]. cbn [arr_loop arr_body length flat_map]. unfold len; cbn [length].
      rewrite !Nat.add_0_r, N.add_0_r. reflexivity.
    - destruct items as [|v items]; [contradiction|]. destruct Hc as [Hc1 Hc2].
      unfold wdepth_list in Hd; cbn [fold_right] in Hd. fold (wdepth_list l) in Hd.
      cbn [flat_map] in HL, Hn |- *.
      destruct (seqZ_split _ _ _ HL) as [HL1 HL2]. rewrite app_length in Hn.
      rewrite arr_body_enc in *. rewrite len_app in Hs.
      destruct (fone_padded x et v f off n Hx Hc1 ltac:(lia) ltac:(lia) HL1 ltac:(lia) c r Hshow Hal)
        as (p & Hp & Hz & Hone & Hoff).
      cbn [arr_loop]. rewrite Hp. cbn [bind]. rewrite Hone. cbn [bind].
      rewrite Hoff.
      replace (dlen + p + len (encb et x (off + length (padding (align et) off)) le))
        with (dlen + len (enc et x off le))
        by (rewrite <- Hz at 1; rewrite len_app; unfold zeros, len; rewrite repeat_n_length; lia).
      rewrite (IH items Hc2 ltac:(lia) (off + length (enc et x off le))%nat _ _ ltac:(lia) HL2 ltac:(lia)).
      cbn [bind].
      rewrite app_assoc, Hz, len_app, !app_length, (Nat.add_assoc n).
      f_equal. f_equal. f_equal. f_equal; lia.
  Qed.

  Lemma fseq_loop_refines f :
    forall l, Forall felem_ok l -> forall ts items, fconf_fields F ts items l -> (wdepth_list l <= f)%nat ->
    forall off n, len (struct_body le ts l off) < two32 ->
    leaves_fields ts l = seqZ n (length (leaves_fields ts l)) ->
    (n + length (leaves_fields ts l) <= length F)%nat ->
    seq_loop (m_one f) (show_list ts) items (N.of_nat off) le (Some (firstn n F)) =
    Ok (N.of_nat (off + length (struct_body le ts l off)), struct_body le ts l off,
        Some (firstn (n + length (leaves_fields ts l)) F)).
  Proof.
    intros l Hl. induction Hl as [|x l Hx Hl IH]; intros ts items Hc Hd off n Hs HL Hn.
    - destruct ts; [|destruct items; contradiction]. destruct items; [|contradiction].
      cbn. rewrite !Nat.add_0_r. reflexivity.
    - destruct ts as [|t ts]; [destruct items; contradiction|].
      destruct items as [|v items]; [contradiction|]. destruct Hc as [Hc1 Hc2].
      unfold wdepth_list in Hd; cbn [fold_right] in Hd. fold (wdepth_list l) in Hd.
      cbn [leaves_fields] in HL, Hn |- *.
      destruct (seqZ_split _ _ _ HL) as [HL1 HL2]. rewrite app_length in Hn.
      rewrite struct_body_enc in *. rewrite len_app in Hs.
      destruct (hd_code t) as (c & r & Hshow & Hal).
      destruct (fone_padded x t v f off n Hx Hc1 ltac:(lia) ltac:(lia) HL1 ltac:(lia) c r Hshow Hal)
        as (p & Hp & Hz & Hone & Hoff).
      cbn [seq_loop]. rewrite show_list_cons, gct_next_show. rewrite Hshow at 1.
      rewrite Hp. cbn [bind]. rewrite Hone. cbn [bind]. rewrite Hoff.
      rewrite (IH ts items Hc2 ltac:(lia) (off + length (enc t x off le))%nat _ ltac:(lia) HL2 ltac:(lia)).
      cbn [bind].
      rewrite app_assoc, Hz, !app_length, (Nat.add_assoc n).
      f_equal. f_equal. f_equal. f_equal; lia.
  Qed.

  Theorem fm_one_refines : forall w, felem_ok w.
  Proof.
    induction w as [z|b|bits|s|l IH|l IH|vt x IH] using wval_ind';
      intros t v Hc f o n Hd Hal Hs HL Hn.
    - (* integers and descriptors *)
      destruct t; try (apply plain_ok; [exact Hc|reflexivity|exact Hd|exact Hal|exact Hs]).
      (* UNIX_FD *)
      destruct Hc as [Hz Hv]. cbn [fd_leaves length] in *.
      unfold seqZ in HL. cbn [seq map] in HL. injection HL as ->.
      rewrite Nat2Z.id in Hv.
      destruct f as [|f]; [cbn in Hd; lia|].
      cbn [show encb width].
      change (m_one (S f) [104] v (N.of_nat o) le (Some (firstn n F)))
        with (m_unix_fd v le (Some (firstn n F))).
      unfold m_unix_fd. rewrite firstn_length_le by lia.
      replace (Z.of_nat n) with (Z.of_N (N.of_nat n)) by lia.
      rewrite pack_len; [|unfold in_width; auto|unfold two32 in HF; cbn; lia].
      cbn [bind]. rewrite twos_of_N; [|unfold in_width; auto|unfold two32 in HF; cbn; lia].
      rewrite len_uint. replace (n + 1)%nat with (S n) by lia. rewrite (firstn_snoc n F v Hv).
      reflexivity.
    - destruct t; try (cbn in Hc; contradiction); (apply plain_ok; [exact Hc|reflexivity|exact Hd|exact Hal|exact Hs]).
    - destruct t; try (cbn in Hc; contradiction); (apply plain_ok; [exact Hc|reflexivity|exact Hd|exact Hal|exact Hs]).
    - destruct t; try (cbn in Hc; contradiction); (apply plain_ok; [exact Hc|reflexivity|exact Hd|exact Hal|exact Hs]).
    - (* arrays *)
      destruct t as [| | | | | | | | | | | | |et| | |]; try contradiction.
      pose proof (wdepth_pos (WArray l)) as Hpos. destruct f as [|f]; [lia|].
      rewrite fconf_array in Hc. destruct Hc as (items & Hitems & Hall).
      rewrite leaves_array in *.
      destruct (hd_code et) as (c & r & Hshow & Halc).
      cbn [show]. rewrite Hshow, m_one_array', <- Hshow.
      rewrite encb_array in *.
      set (ip := padding (align et) (o + 4)) in *.
      set (start := (o + 4 + length ip)%nat) in *.
      rewrite !len_app, len_uint in Hs.
      unfold pad_for. rewrite Halc.
      replace (N.of_nat o + 4) with (N.of_nat (o + 4)) by lia.
      rewrite (pad_len_spec _ _ (align_good et)). fold ip. cbn [bind]. rewrite Hitems. cbn [bind].
      replace (N.of_nat (o + 4) + len ip) with (N.of_nat start) by (unfold start, len; lia).
      cbn [wdepth] in Hd. fold (wdepth_list l) in Hd.
      rewrite (farr_loop_refines et c r f Hshow Halc l IH items Hall ltac:(lia) start 0 n ltac:(lia) HL Hn).
      cbn [bind]. rewrite N.add_0_l.
      rewrite pack_len; [|unfold in_width; auto|unfold two32 in *; cbn; lia].
      cbn [bind].
      assert (Hz : zeros (len ip) = ip) by (unfold ip; apply zeros_padding).
      rewrite Hz, !len_app, len_uint. unfold len.
      f_equal. f_equal. f_equal. lia.
    - (* structs and dict entries *)
      destruct t as [| | | | | | | | | | | | | |ts|kt vt|]; try contradiction.
      + pose proof (wdepth_pos (WStruct l)) as Hpos. destruct f as [|f]; [lia|].
        rewrite fconf_struct in Hc. destruct Hc as (items & Hitems & Hall).
        rewrite leaves_struct in *.
        rewrite show_struct, m_one_struct, strip_ends_wrap, encb_struct in *.
        unfold marshal_with. rewrite Hitems. cbn [bind].
        cbn [wdepth] in Hd. fold (wdepth_list l) in Hd.
        rewrite (fseq_loop_refines f l IH ts items Hall ltac:(lia) o n Hs HL Hn). cbn [bind].
        f_equal. f_equal. f_equal. unfold len. lia.
      + destruct l as [|k [|x [|? ?]]]; try contradiction.
        pose proof (wdepth_pos (WStruct [k; x])) as Hpos. destruct f as [|f]; [lia|].
        destruct Hc as (pk & pv & Hitems & Hck & Hcx).
        rewrite encb_dict in *.
        assert (EL : fd_leaves (TDictEntry kt vt) (WStruct [k; x]) = leaves_fields [kt; vt] [k; x]).
        { cbn [fd_leaves leaves_fields]. rewrite app_nil_r. reflexivity. }
        rewrite EL in *.
        cbn [show].
        replace (show kt ++ show vt ++ [125]) with (show_list [kt; vt] ++ [125])
          by (cbn [show_list flat_map]; rewrite app_nil_r, app_assoc; reflexivity).
        rewrite m_one_dict, strip_ends_wrap.
        unfold marshal_with. rewrite Hitems. cbn [bind].
        cbn [wdepth] in Hd. fold (wdepth_list [k; x]) in Hd.
        assert (Hall : fconf_fields F [kt; vt] [pk; pv] [k; x]) by (cbn; auto).
        rewrite (fseq_loop_refines f [k; x] IH [kt; vt] [pk; pv] Hall ltac:(lia) o n Hs HL Hn). cbn [bind].
        f_equal. f_equal. f_equal. unfold len. lia.
    - (* variants carry no descriptors *)
      destruct t; try (cbn in Hc; contradiction); (apply plain_ok; [exact Hc|reflexivity|exact Hd|exact Hal|exact Hs]).
  Qed.

  (* marshal(): the top-level driver, started with the empty list *)
  Theorem marshal_refines_fd ts vals vs ws off fuel :
    seq_items vals = Ok vs -> fconf_seq F ts vs ws -> (wdepth_list ws <= fuel)%nat ->
    len (enc_seq ts ws off le) < two32 ->
    fd_leaves_seq ts ws = seqZ 0 (length F) ->
    m_marshal fuel (show_list ts) vals (N.of_nat off) le (Some []) =
    Ok (len (enc_seq ts ws off le), enc_seq ts ws off le, Some F).
  Proof.
    intros Hitems Hc Hd Hs HL. unfold m_marshal, marshal_with. rewrite Hitems. cbn [bind].
    apply fconf_fields_seq in Hc.
    assert (Hlen : length ts = length ws).
    { clear -Hc. revert vs ws Hc; induction ts as [|t ts IH]; intros [|v vs] [|w ws] H;
        cbn in H; try contradiction; [reflexivity|]. destruct H as [_ H]. cbn. f_equal. eapply IH; eauto. }
    rewrite <- (struct_body_seq le ts ws off Hlen) in *.
    assert (Hall : Forall felem_ok ws).
    { apply Forall_forall. intros x _. apply fm_one_refines. }
    rewrite <- leaves_fields_seq in HL.
    assert (EL : length (leaves_fields ts ws) = length F) by (rewrite HL, seqZ_length; reflexivity).
    change (Some []) with (Some (firstn 0 F)).
    rewrite (fseq_loop_refines fuel ws Hall ts vs Hc Hd off 0 Hs ltac:(rewrite EL; exact HL) ltac:(lia)).
    cbn [bind]. rewrite EL. cbn [Nat.add]. rewrite firstn_all.
    f_equal. f_equal. f_equal. unfold len. lia.
  Qed.
End Send.

(* ------------------------------------------------------------------------ *)
(* the constructor: header attributes (these two proofs are those of
   MessageProofs.hdr_item_conf / validate_args_ok, which use only the attribute
   part of args_denote; restated for that part alone)                          *)

Definition attrs_denote (attrs : list (attr * pyval)) (m : amsg) : Prop :=
  forall a, match field_py m a with
            | Some v => get_attr a attrs = Some v
            | None => get_attr a attrs = None \/ get_attr a attrs = Some PNone
            end.

Lemma hdr_item_conf' fdl m attrs a :
  valid_amsg fdl m -> attrs_denote attrs m ->
  conf_all farr_ty (hdr_item attrs a) (map field_w (field_spec m a)).
Proof.
  intros (_ & Vp & Vi & Vm & Ve & Vd & Vs & Vr & Vg & _) Ha.
  specialize (Ha a). unfold hdr_item.
  destruct a; cbn [field_py field_spec] in *.
  - destruct (a_path m) as [s|]; cbn [option_map opt_field map] in *.
    + rewrite Ha. cbn [conf_all]. split; [|exact I]. cbn in Vp.
      rewrite <- validate_path_grammar in Vp. pose proof (path_string_ok s Vp) as So.
      unfold string_ok in So. apply andb_true_iff in So as [S1 S2]. apply negb_true_iff in S1.
      apply field_conf; [cbn; lia|reflexivity|cbn; lia|]. cbn. auto.
    + destruct Ha as [-> | ->]; exact I.
  - destruct (a_interface m) as [s|]; cbn [option_map opt_field map] in *.
    + rewrite Ha. cbn [conf_all]. split; [|exact I]. cbn in Vi.
      rewrite <- validate_iface_grammar in Vi.
      apply field_conf; [cbn; lia|reflexivity|cbn; lia|]. apply string_ok_conf, iface_string_ok, Vi.
    + destruct Ha as [-> | ->]; exact I.
  - destruct (a_member m) as [s|]; cbn [option_map opt_field map] in *.
    + rewrite Ha. cbn [conf_all]. split; [|exact I]. cbn in Vm.
      rewrite <- validate_member_grammar in Vm.
      apply field_conf; [cbn; lia|reflexivity|cbn; lia|]. apply string_ok_conf, member_string_ok, Vm.
    + destruct Ha as [-> | ->]; exact I.
  - destruct (a_error_name m) as [s|]; cbn [option_map opt_field map] in *.
    + rewrite Ha. cbn [conf_all]. split; [|exact I]. cbn in Ve. unfold g_error in Ve.
      rewrite <- validate_iface_grammar in Ve.
      apply field_conf; [cbn; lia|reflexivity|cbn; lia|]. apply string_ok_conf, iface_string_ok, Ve.
    + destruct Ha as [-> | ->]; exact I.
  - destruct (a_reply_serial m) as [z|]; cbn [option_map opt_field map] in *.
    + rewrite Ha. cbn [conf_all]. split; [|exact I].
      apply field_conf; [cbn; lia|reflexivity|cbn; lia|]. cbn. split; [reflexivity|]. lia.
    + destruct Ha as [-> | ->]; exact I.
  - destruct (a_destination m) as [s|]; cbn [option_map opt_field map] in *.
    + rewrite Ha. cbn [conf_all]. split; [|exact I]. cbn in Vd.
      rewrite <- validate_bus_grammar in Vd.
      apply field_conf; [cbn; lia|reflexivity|cbn; lia|]. apply string_ok_conf, bus_string_ok, Vd.
    + destruct Ha as [-> | ->]; exact I.
  - destruct (a_sender m) as [s|]; cbn [option_map opt_field map] in *.
    + rewrite Ha. cbn [conf_all]. split; [|exact I]. cbn in Vs.
      apply field_conf; [cbn; lia|reflexivity|cbn; lia|]. apply string_ok_conf, Vs.
    + destruct Ha as [-> | ->]; exact I.
  - unfold body_ts in Vg. destruct (a_sig m) as [ts|]; cbn [option_map opt_field map] in *.
    + rewrite Ha. cbn [conf_all]. split; [|exact I].
      apply field_conf; [cbn; lia|reflexivity|cbn; lia|]. cbn.
      split; [reflexivity|]. split; [apply show_list_ascii|exact Vg].
    + destruct Ha as [-> | ->]; exact I.
  - destruct Ha as [-> | ->]; exact I.
Qed.

Lemma validate_args_ok' fdl m attrs :
  valid_amsg fdl m -> attrs_denote attrs m -> validate_args false (a_type m) attrs = Ok tt.
Proof.
  intros V A. pose proof (valid_type fdl m V) as T.
  destruct V as (Vt & Vp & Vi & Vm & Ve & Vd & _). rename A into Ha.
  pose proof (Ha APath) as Hpath. pose proof (Ha AInterface) as Hif. pose proof (Ha AMember) as Hmb.
  pose proof (Ha AErrorName) as Her. pose proof (Ha ADestination) as Hds. cbn [field_py] in *.
  unfold validate_args.
  destruct T as [T | [T | [T | T]]]; rewrite T in *.
  - destruct Vt as (Pp & Pm & _ & _ & Pr).
    rewrite (req_check _ _ _ _ _ validate_member_grammar Vm Pm Hmb). cbn [bind].
    rewrite (opt_check _ _ _ _ _ validate_iface_grammar Vi Hif). cbn [bind].
    rewrite (opt_check _ _ _ _ _ validate_bus_grammar Vd Hds). cbn [bind].
    destruct (a_path m) as [p|]; [|exfalso; apply Pp; reflexivity]. cbn [option_map] in Hpath.
    rewrite (geta_some _ _ _ Hpath). unfold py_str_eqb. cbn [str_of unwrap].
    destruct (str_eqb p reserved_path) eqn:E; [|reflexivity].
    apply str_eqb_spec in E. subst p. exfalso. apply Pr. reflexivity.
  - exact (opt_check _ _ _ _ _ validate_bus_grammar Vd Hds).
  - destruct Vt as (Pe & _).
    rewrite (opt_check _ _ _ _ _ validate_bus_grammar Vd Hds). cbn [bind].
    exact (req_check _ _ _ _ _ validate_iface_grammar Ve Pe Her).
  - destruct Vt as (Pp & Pi & Pm & _).
    rewrite (req_check _ _ _ _ _ validate_member_grammar Vm Pm Hmb). cbn [bind].
    rewrite (req_check _ _ _ _ _ validate_iface_grammar Vi Pi Hif). cbn [bind].
    exact (opt_check _ _ _ _ _ validate_bus_grammar Vd Hds).
Qed.

Lemma hdr_items_conf' fdl m attrs order :
  valid_amsg fdl m -> attrs_denote attrs m ->
  conf_all farr_ty (flat_map (hdr_item attrs) order) (map field_w (flat_map (field_spec m) order)).
Proof.
  intros V A. induction order as [|a order IH]; [exact I|].
  cbn [flat_map]. rewrite map_app. apply conf_all_app; [|exact IH].
  exact (hdr_item_conf' fdl m attrs a V A).
Qed.

Lemma get_attr_fds_last attrs v : get_attr AUnixFds (attrs ++ [(AUnixFds, v)]) = Some v.
Proof.
  induction attrs as [|[a' v'] r IH]; cbn [app get_attr]; [reflexivity|]. rewrite IH. reflexivity.
Qed.

Lemma flat_map_ext_in' {X Y} (f g : X -> list Y) l :
  (forall a, In a l -> f a = g a) -> flat_map f l = flat_map g l.
Proof.
  induction l as [|x l IH]; intros H; [reflexivity|]. cbn [flat_map].
  rewrite (H x (or_introl eq_refl)), IH; [reflexivity|]. intros a Ha. apply H. right. exact Ha.
Qed.

(* the header list when descriptors were collected: the class's attributes, then UNIX_FDS *)
Lemma header_list_fds mt attrs (F : list pyval) :
  F <> [] -> sig_truthy (get_attr ASignature attrs) = true -> ~ In AUnixFds (hattrs mt) ->
  header_list mt attrs (Some F) =
    flat_map (hdr_item attrs) (hattrs mt) ++ [PList [PInt 9; PWrap 117 (PInt (Z.of_nat (length F)))]].
Proof.
  intros HF Hs Hn. unfold header_list. rewrite Hs. destruct F as [|x F]; [congruence|]. cbn [andb].
  rewrite flat_map_app. f_equal.
  - apply flat_map_ext_in'. intros a Ha. unfold hdr_item.
    rewrite get_attr_app_fds; [reflexivity|]. intros ->. exact (Hn Ha).
  - cbn [flat_map]. rewrite get_attr_fds_last. reflexivity.
Qed.

Lemma hattrs_no_fds mt : ~ In AUnixFds (hattrs mt).
Proof.
  destruct mt as [|p]; [intros []|].
  destruct p as [[p|p|]|[p|p|]|]; cbn; try (intros []); try (destruct p; cbn; intros []);
    intuition discriminate.
Qed.

Section Construct.
  Variable F : list pyval.
  Hypothesis HF : N.of_nat (length F) < two32.

  (* the body: specification encoding with the descriptor positions, descriptors collected *)
  Lemma marshal_body_fd m attrs body fuel :
    valid_amsg F m -> args_denote_fd F attrs body m ->
    (wdepth_list (a_body m) <= fuel)%nat -> len (enc_seq (body_ts m) (a_body m) 0 true) < two32 ->
    marshal_body fuel attrs body (Some []) = Ok (enc_seq (body_ts m) (a_body m) 0 true, Some F).
  Proof.
    intros V (Ha & Hb & HL) Hd Hs. specialize (Ha ASignature). cbn [field_py] in Ha.
    unfold marshal_body, body_ts in *.
    destruct (a_sig m) as [ts|]; cbn [option_map] in Ha.
    - rewrite Ha. unfold sig_truthy, truthy. cbn [unwrap].
      destruct ts as [|t ts].
      + subst F. reflexivity.
      + destruct (show_list (t :: ts)) eqn:E; [apply show_list_nil in E; discriminate|].
        cbn [negb str_of unwrap]. rewrite <- E.
        destruct Hb as (vs & Hi & Hc).
        change 0 with (N.of_nat 0).
        rewrite (marshal_refines_fd F true HF (t :: ts) body vs (a_body m) 0 fuel Hi Hc Hd Hs HL).
        reflexivity.
    - subst F. destruct Ha as [-> | ->]; reflexivity.
  Qed.

  Definition fd_field : list (Z * ty * wval) :=
    match length F with O => [] | _ => [(9%Z, TUInt32, WInt (Z.of_nat (length F)))] end.

  Definition fd_item : list pyval :=
    match length F with O => [] | _ => [PList [PInt 9; PWrap 117 (PInt (Z.of_nat (length F)))]] end.

  Lemma header_list_any m attrs body :
    valid_amsg F m -> args_denote_fd F attrs body m ->
    header_list (a_type m) attrs (Some F) = flat_map (hdr_item attrs) (hattrs (a_type m)) ++ fd_item.
  Proof.
    intros V (Ha & Hb & HL). unfold fd_item.
    destruct F as [|x F'] eqn:EF.
    - cbn [length]. rewrite app_nil_r. apply header_list_no_fds. right. reflexivity.
    - cbn [length]. rewrite <- EF. replace (S (length F')) with (length F) by (rewrite EF; reflexivity).
      apply header_list_fds; [rewrite EF; discriminate| |apply hattrs_no_fds].
      specialize (Ha ASignature). cbn [field_py] in Ha. unfold body_ts in Hb.
      destruct (a_sig m) as [[|t ts]|]; try discriminate. cbn [option_map] in Ha. rewrite Ha.
      unfold sig_truthy, truthy. cbn [unwrap].
      destruct (show_list (t :: ts)) eqn:E; [apply show_list_nil in E; discriminate|]. reflexivity.
  Qed.

  Lemma fd_item_conf : conf_all farr_ty fd_item (map field_w fd_field).
  Proof.
    unfold fd_item, fd_field. destruct (length F) as [|k] eqn:E; [exact I|].
    cbn [map conf_all]. split; [|exact I].
    apply field_conf; [lia|reflexivity|cbn; lia|].
    cbn. split; [reflexivity|]. unfold two32 in HF. lia.
  Qed.

  Theorem construct_refines_fd m attrs body next fuel :
    valid_amsg F m -> args_denote_fd F attrs body m ->
    (0 <= next < 4294967296)%Z ->
    (msg_depth (smsg_fd m true next (length F)) <= fuel)%nat ->
    len (msg_enc (smsg_fd m true next (length F))) <= max_msg_len ->
    construct_st false fuel (a_type m) (negb (a_no_reply m)) (negb (a_no_auto_start m)) attrs body next (Some [])
    = (Ok (msg_header (smsg_fd m true next (length F)),
           padding 8 (length (msg_header (smsg_fd m true next (length F)))),
           msg_body (smsg_fd m true next (length F)), Some F), (next + 1)%Z).
  Proof.
    intros V A Hn Hd Hsz. set (s := smsg_fd m true next (length F)) in *.
    pose proof A as (Ha & _ & _).
    unfold construct_st. rewrite (validate_args_ok' F m attrs V Ha).
    unfold marshal_msg_st.
    assert (Hlen : len (msg_header s) + len (padding 8 (length (msg_header s))) + len (msg_body s) <= max_msg_len).
    { unfold msg_enc in Hsz. rewrite !len_app in Hsz. lia. }
    unfold max_msg_len in *.
    assert (Hbody : msg_body s = enc_seq (body_ts m) (a_body m) 0 true) by reflexivity.
    unfold msg_depth in Hd.
    rewrite (marshal_body_fd m attrs body fuel V A)
      by (try rewrite <- Hbody; unfold two32; cbn [s_body s smsg_fd] in *; lia).
    rewrite <- Hbody. unfold marshal_header.
    rewrite (header_list_any m attrs body V A).
    pose proof (valid_type F m V) as T.
    set (hl := [PInt 108; PInt (Z.of_N (a_type m)); PInt (flags_of (negb (a_no_reply m)) (negb (a_no_auto_start m)));
               PInt 1; PInt (Z.of_N (len (msg_body s))); PInt next;
               PList (flat_map (hdr_item attrs) (hattrs (a_type m)) ++ fd_item)]).
    assert (Efields : s_fields s = fields_of m ++ fd_field).
    { unfold s, smsg_fd, fd_field. cbn [s_fields]. reflexivity. }
    assert (Hconf : conf_seq hdr_ts hl (hdr_ws s (len (msg_body s)))).
    { unfold hl, hdr_ts, hdr_ws. rewrite Efields.
      cbn [conf_seq s_le s_type s_flags s_serial s smsg_fd].
      rewrite flags_of_byte.
      repeat split; try reflexivity; try (cbn; lia).
      - unfold flags_byte. destruct (a_no_reply m), (a_no_auto_start m); reflexivity.
      - unfold int_range. unfold len in *. lia.
      - rewrite conf_array. eexists. split; [reflexivity|].
        rewrite map_app. apply conf_all_app; [|apply fd_item_conf].
        rewrite (fields_of_hattrs F m V). exact (hdr_items_conf' F m attrs _ V Ha). }
    change header_format with (show_list hdr_ts). change 0 with (N.of_nat 0).
    rewrite (marshal_refines hdr_ts (PList hl) hl _ 0 true None fuel eq_refl Hconf).
    - cbn [bind]. change (enc_seq hdr_ts (hdr_ws s (len (msg_body s))) 0 true) with (msg_header s).
      change max_msg_len with 134217728.
      replace (pad_len 8 (len (msg_header s))) with (len (padding 8 (length (msg_header s)))).
      + rewrite zeros_padding.
        destruct (N.ltb_spec 134217728 (len (msg_header s) + len (padding 8 (length (msg_header s))) + len (msg_body s))) as [X|_]; [lia|].
        reflexivity.
      + symmetry. change 8 with (N.of_nat 8) at 1. apply pad_len_spec. unfold good_align. auto.
    - rewrite wdepth_hdr. lia.
    - change (enc_seq hdr_ts (hdr_ws s (len (msg_body s))) 0 true) with (msg_header s). unfold two32. lia.
  Qed.

  (* callRemote: the descriptors in argument order, then the bytes *)
  Theorem call_remote_spec m attrs body next fuel :
    a_type m = 1 ->
    valid_amsg F m -> args_denote_fd F attrs body m ->
    (0 <= next < 4294967296)%Z ->
    (msg_depth (smsg_fd m true next (length F)) <= fuel)%nat ->
    len (msg_enc (smsg_fd m true next (length F))) <= max_msg_len ->
    call_remote fuel (negb (a_no_reply m)) (negb (a_no_auto_start m)) attrs body next =
      (Ok (send_spec F (msg_enc (smsg_fd m true next (length F)))), (next + 1)%Z).
  Proof.
    intros T V A Hn Hd Hsz. unfold call_remote.
    pose proof (construct_refines_fd m attrs body next fuel V A Hn Hd Hsz) as C. rewrite T in C.
    rewrite C. reflexivity.
  Qed.
End Construct.

(* the message sent declares exactly [k] descriptors *)
Lemma fds_field_app a b :
  fds_field (a ++ b) = match fds_field b with Some z => Some z | None => fds_field a end.
Proof.
  induction a as [|[[code t] w] a IH]; cbn [app fds_field].
  - destruct (fds_field b); reflexivity.
  - rewrite IH. destruct (fds_field b); reflexivity.
Qed.

Lemma declared_smsg_fd m le serial k : declared (smsg_fd m le serial k) = k.
Proof.
  unfold declared, smsg_fd. cbn [s_fields]. rewrite fds_field_app.
  assert (E : fds_field (fields_of m) = None).
  { unfold fields_of.
    destruct (a_path m), (a_interface m), (a_member m), (a_error_name m), (a_reply_serial m),
      (a_destination m), (a_sender m), (a_sig m); reflexivity. }
  destruct k as [|k]; cbn [fds_field]; [rewrite E; reflexivity|].
  rewrite Nat2Z.id. reflexivity.
Qed.

(* ------------------------------------------------------------------------ *)
(* sender and receiver together                                                *)
From Tx Require Import Proofs.FdProofs.

Lemma smsg_fd_wt F m le next :
  valid_amsg F m -> (0 <= next < 4294967296)%Z -> N.of_nat (length F) < two32 ->
  len (msg_enc (smsg_fd m le next (length F))) < 4294967296 ->
  msg_wt F (smsg_fd m le next (length F)).
Proof.
  intros V Hn HF Hlen. pose proof (valid_type F m V) as T. pose proof (fields_of_ok F m V) as Fo.
  destruct V as (_ & _ & _ & _ & _ & _ & _ & _ & _ & Vb).
  unfold msg_wt. cbn [s_type s_flags s_serial s_fields s_body_ts s_body smsg_fd].
  split; [lia|]. split; [unfold flags_byte; destruct (a_no_reply m), (a_no_auto_start m); lia|].
  split; [exact Hn|]. split; [|split; [exact Vb|split; [|exact Hlen]]].
  - apply Forall_app_intro; [exact Fo|]. unfold two32 in HF.
    destruct (length F) as [|k] eqn:E; constructor; [|constructor].
    unfold field_ok. split; [lia|]. split; [cbn; lia|]. split; [|reflexivity].
    change (int_range TUInt32 (Z.of_nat (S k)) = true). unfold int_range.
    apply andb_true_iff. split; [apply Z.leb_le; lia | apply Z.ltb_lt; lia].
  - rewrite sig_field_app.
    assert (E : sig_field match length F with O => [] | S _ => [(9%Z, TUInt32, WInt (Z.of_nat (length F)))] end = None)
      by (destruct (length F); reflexivity).
    rewrite E, sig_field_fields_of. unfold body_ts.
    destruct (a_sig m) as [[|t ts]|]; cbn [option_map]; auto.
Qed.

Lemma recovered_body_fd F m le next k : recovered_body F (smsg_fd m le next k) = own_body F m.
Proof.
  unfold recovered_body, own_body. cbn [s_body_ts s_body smsg_fd]. unfold body_ts.
  destruct (a_sig m) as [[|t ts]|]; reflexivity.
Qed.

(* a UNIX_FD argument is read back as the Python value that was given for it *)
Lemma fd_leaf_readback F v z : fconf F TFd v (WInt z) -> readback F TFd (WInt z) = v.
Proof.
  intros [Hz Hn]. cbn [readback]. apply nth_error_nth with (d := PNone) in Hn. exact Hn.
Qed.

(* What MethodCallMessage(..., oobFDs=[]) builds, sent with its descriptors and
   received behind ANY queue tail, is delivered with the body read back against
   the sender's own descriptor list - every UNIX_FD argument is the value the
   sender gave at that position - and exactly those descriptors leave the queue *)
Theorem end_to_end F m attrs body next fuel fuel' later :
  N.of_nat (length F) < two32 ->
  valid_amsg F m -> args_denote_fd F attrs body m -> (0 <= next < 4294967296)%Z ->
  (msg_depth (smsg_fd m true next (length F)) <= fuel)%nat ->
  (msg_depth (smsg_fd m true next (length F)) <= fuel')%nat ->
  len (msg_enc (smsg_fd m true next (length F))) <= max_msg_len ->
  exists h p b pd,
    construct_st false fuel (a_type m) (negb (a_no_reply m)) (negb (a_no_auto_start m)) attrs body next (Some [])
      = (Ok (h, p, b, Some F), (next + 1)%Z) /\
    send_message (Some F) (h ++ p ++ b) = send_spec F (h ++ p ++ b) /\
    raw_received false fuel' (h ++ p ++ b) (F ++ later) = Ok (pd, later) /\
    snd (view pd) = own_body F m.
Proof.
  intros HF V A Hn Hd Hd' Hsz. set (s := smsg_fd m true next (length F)) in *.
  exists (msg_header s), (padding 8 (length (msg_header s))), (msg_body s).
  assert (W : msg_wt F s).
  { apply smsg_fd_wt; try assumption. fold s. unfold max_msg_len in Hsz. lia. }
  destruct (raw_received_own F later s fuel' W (declared_smsg_fd m true next (length F)) Hd') as (pd & E & Vw).
  exists pd. split; [exact (construct_refines_fd F HF m attrs body next fuel V A Hn Hd Hsz)|].
  split; [reflexivity|]. split; [exact E|].
  rewrite Vw. unfold seen_of. cbn [snd sn_msg sn_fds]. apply recovered_body_fd.
Qed.
