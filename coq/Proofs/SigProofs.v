(* The signature splitter of Model/Marshal.v (genCompleteTypes) against the
   type grammar of Spec/WireSpec.v:  gct_next (show t ++ r) = (show t, r). *)
From Tx Require Import Lib.Base Model.Marshal Spec.WireSpec.
Local Open Scope N_scope.

(* nested induction principle for ty *)
Section TyInd.
  Variable P : ty -> Prop.
  Hypothesis Hbasic : forall t, basic t = true -> P t.
  Hypothesis Hvar : P TVariant.
  Hypothesis Harr : forall t, P t -> P (TArray t).
  Hypothesis Hstruct : forall ts, Forall P ts -> P (TStruct ts).
  Hypothesis Hdict : forall k v, P k -> P v -> P (TDictEntry k v).

  Fixpoint ty_ind' (t : ty) : P t :=
    match t with
    | TArray t => Harr t (ty_ind' t)
    | TStruct ts =>
        Hstruct ts ((fix go (l : list ty) : Forall P l :=
                       match l with
                       | [] => Forall_nil P
                       | x :: r => Forall_cons x (ty_ind' x) (go r)
                       end) ts)
    | TDictEntry k v => Hdict k v (ty_ind' k) (ty_ind' v)
    | TVariant => Hvar
    | TByte => Hbasic TByte eq_refl | TBool => Hbasic TBool eq_refl
    | TInt16 => Hbasic TInt16 eq_refl | TUInt16 => Hbasic TUInt16 eq_refl
    | TInt32 => Hbasic TInt32 eq_refl | TUInt32 => Hbasic TUInt32 eq_refl
    | TInt64 => Hbasic TInt64 eq_refl | TUInt64 => Hbasic TUInt64 eq_refl
    | TDouble => Hbasic TDouble eq_refl | TString => Hbasic TString eq_refl
    | TObjPath => Hbasic TObjPath eq_refl | TSig => Hbasic TSig eq_refl
    | TFd => Hbasic TFd eq_refl
    end.
End TyInd.

(* show of a struct, with the inner fix folded into show_list *)
Lemma show_struct ts : show (TStruct ts) = 40 :: show_list ts ++ [41].
Proof.
  assert (H : forall l, (fix go (l : list ty) : str :=
                           match l with [] => [] | x :: r => show x ++ go r end) l = show_list l).
  { induction l as [|x r IH]; [reflexivity|]. unfold show_list in *. cbn [flat_map]. rewrite <- IH. reflexivity. }
  cbn [show]. rewrite H. reflexivity.
Qed.

Lemma show_list_cons t ts : show_list (t :: ts) = show t ++ show_list ts.
Proof. reflexivity. Qed.

Lemma show_list_app a b : show_list (a ++ b) = show_list a ++ show_list b.
Proof. unfold show_list. apply flat_map_app. Qed.

(* a basic type or variant shows as one character that is no bracket and not 'a' *)
Definition plain_char (c : N) : Prop :=
  c <> 40 /\ c <> 41 /\ c <> 123 /\ c <> 125 /\ c <> 97.

Lemma show_basic t : basic t = true \/ t = TVariant -> exists c, show t = [c] /\ plain_char c.
Proof.
  intros [H|H]; [|subst; exists 118; split; [reflexivity|unfold plain_char; repeat split; discriminate]].
  destruct t; try discriminate; eexists; (split; [reflexivity|]);
    unfold plain_char; repeat split; discriminate.
Qed.

Lemma show_nonempty t : show t <> [].
Proof. destruct t; discriminate. Qed.

Lemma show_length_pos t : (1 <= length (show t))%nat.
Proof. pose proof (show_nonempty t). destruct (show t); [congruence|cbn; lia]. Qed.

(* --- find_end skips over a complete type ------------------------------------- *)

Definition bracket_pair (b e : N) : Prop := (b = 40 /\ e = 41) \/ (b = 123 /\ e = 125).

Lemma option_map_add n (o : option nat) m :
  option_map S (option_map (Nat.add n) o) = option_map (Nat.add (S n)) o
  /\ option_map (Nat.add m) (option_map (Nat.add n) o) = option_map (Nat.add (m + n)) o.
Proof. destruct o; cbn; split; f_equal; lia. Qed.

Lemma find_end_show t :
  forall r b e d, bracket_pair b e -> (1 <= d)%nat ->
    find_end (show t ++ r) b e d = option_map (Nat.add (length (show t))) (find_end r b e d).
Proof.
  induction t as [t Hb| |t IH|ts IH|k v IHk IHv] using ty_ind'; intros r b e d Hp Hd.
  - destruct (show_basic t (or_introl Hb)) as [c [-> Hc]]. cbn [app find_end length].
    destruct Hc as (H1 & H2 & H3 & H4 & H5).
    destruct Hp as [[-> ->]|[-> ->]];
      (destruct (N.eqb_spec c 40); [congruence|]); (destruct (N.eqb_spec c 41); [congruence|]);
      (destruct (N.eqb_spec c 123); [congruence|]); (destruct (N.eqb_spec c 125); [congruence|]);
      destruct (find_end r _ _ d); reflexivity.
  - cbn [show app find_end length].
    destruct Hp as [[-> ->]|[-> ->]]; cbn; destruct (find_end r _ _ d); reflexivity.
  - cbn [show app find_end length].
    assert (E : forall x, bracket_pair b x -> (97 =? b) = false /\ (97 =? x) = false).
    { intros x [[-> ->]|[-> ->]]; split; reflexivity. }
    destruct (E e Hp) as [-> ->]. rewrite (IH r b e d Hp Hd).
    destruct (find_end r b e d); reflexivity.
  - rewrite show_struct. cbn [app length]. rewrite <- app_assoc. cbn [app].
    assert (Hl : forall r b e d, bracket_pair b e -> (1 <= d)%nat ->
               find_end (show_list ts ++ r) b e d =
               option_map (Nat.add (length (show_list ts))) (find_end r b e d)).
    { clear r b e d Hp Hd. induction IH as [|x l Hx Hl IHl]; intros r b e d Hp Hd.
      - cbn. destruct (find_end r b e d); reflexivity.
      - rewrite show_list_cons, <- app_assoc, (Hx _ b e d Hp Hd), (IHl r b e d Hp Hd).
        rewrite app_length. apply option_map_add. }
    cbn [find_end].
    destruct Hp as [[-> ->]|[-> ->]].
    + change (40 =? 40) with true. cbn iota.
      rewrite (Hl _ 40 41 (S d) (or_introl (conj eq_refl eq_refl)) ltac:(lia)).
      cbn [find_end]. change (41 =? 40) with false. change (41 =? 41) with true. cbn iota.
      destruct d as [|d']; [lia|]. cbn [pred].
      rewrite app_length. cbn [length].
      destruct (find_end r 40 41 (S d')); cbn; f_equal; lia.
    + change (40 =? 123) with false. change (40 =? 125) with false. cbn iota.
      rewrite (Hl _ 123 125 d (or_intror (conj eq_refl eq_refl)) Hd).
      cbn [find_end]. change (41 =? 123) with false. change (41 =? 125) with false. cbn iota.
      rewrite app_length. cbn [length].
      destruct (find_end r 123 125 d); cbn; f_equal; lia.
  - cbn [show app length]. rewrite <- !app_assoc. cbn [app find_end].
    destruct Hp as [[-> ->]|[-> ->]].
    + change (123 =? 40) with false. change (123 =? 41) with false. cbn iota.
      rewrite (IHk _ 40 41 d (or_introl (conj eq_refl eq_refl)) Hd).
      rewrite (IHv _ 40 41 d (or_introl (conj eq_refl eq_refl)) Hd).
      cbn [find_end]. change (125 =? 40) with false. change (125 =? 41) with false. cbn iota.
      rewrite !app_length. cbn [length].
      destruct (find_end r 40 41 d); cbn; f_equal; lia.
    + change (123 =? 123) with true. cbn iota.
      rewrite (IHk _ 123 125 (S d) (or_intror (conj eq_refl eq_refl)) ltac:(lia)).
      rewrite (IHv _ 123 125 (S d) (or_intror (conj eq_refl eq_refl)) ltac:(lia)).
      cbn [find_end]. change (125 =? 123) with false. change (125 =? 125) with true. cbn iota.
      destruct d as [|d']; [lia|]. cbn [pred].
      rewrite !app_length. cbn [length].
      destruct (find_end r 123 125 (S d')); cbn; f_equal; lia.
Qed.

Lemma find_end_show_list ts :
  forall r b e d, bracket_pair b e -> (1 <= d)%nat ->
    find_end (show_list ts ++ r) b e d =
    option_map (Nat.add (length (show_list ts))) (find_end r b e d).
Proof.
  induction ts as [|x l IHl]; intros r b e d Hp Hd.
  - cbn. destruct (find_end r b e d); reflexivity.
  - rewrite show_list_cons, <- app_assoc, (find_end_show x _ b e d Hp Hd), (IHl r b e d Hp Hd).
    rewrite app_length. apply option_map_add.
Qed.

(* --- one step of the splitter ----------------------------------------------------- *)

Lemma firstn_app_exact {A} (a b : list A) : firstn (length a) (a ++ b) = a.
Proof. rewrite firstn_app, Nat.sub_diag, firstn_all. cbn. apply app_nil_r. Qed.

Lemma skipn_app_exact {A} (a b : list A) : skipn (length a) (a ++ b) = b.
Proof. rewrite skipn_app, Nat.sub_diag, skipn_all. reflexivity. Qed.

Theorem gct_next_show t : forall r, gct_next (show t ++ r) = Ok (Some (show t, r)).
Proof.
  induction t as [t Hb| |t IH|ts IH|k v IHk IHv] using ty_ind'; intros r.
  - destruct (show_basic t (or_introl Hb)) as [c [-> (H1 & H2 & H3 & H4 & H5)]].
    cbn [app gct_next].
    destruct (N.eqb_spec c 40); [congruence|]. destruct (N.eqb_spec c 123); [congruence|].
    destruct (N.eqb_spec c 97); [congruence|]. reflexivity.
  - reflexivity.
  - cbn [show app gct_next]. change (97 =? 40) with false. change (97 =? 123) with false.
    change (97 =? 97) with true. cbn iota. rewrite IH. reflexivity.
  - rewrite show_struct. cbn [app gct_next]. change (40 =? 40) with true. cbn iota.
    rewrite <- app_assoc. cbn [app].
    rewrite (find_end_show_list ts _ 40 41 1 (or_introl (conj eq_refl eq_refl)) (le_n 1)).
    cbn [find_end]. change (41 =? 40) with false. change (41 =? 41) with true. cbn iota.
    cbn [option_map]. rewrite Nat.add_0_r.
    replace (S (length (show_list ts))) with (length (show_list ts ++ [41])) by (rewrite app_length; cbn; lia).
    replace (show_list ts ++ 41 :: r) with ((show_list ts ++ [41]) ++ r) by (rewrite <- app_assoc; reflexivity).
    rewrite firstn_app_exact, skipn_app_exact. reflexivity.
  - cbn [show app gct_next]. change (123 =? 40) with false. change (123 =? 123) with true. cbn iota.
    rewrite <- !app_assoc. cbn [app].
    rewrite (find_end_show k _ 123 125 1 (or_intror (conj eq_refl eq_refl)) (le_n 1)).
    rewrite (find_end_show v _ 123 125 1 (or_intror (conj eq_refl eq_refl)) (le_n 1)).
    cbn [find_end]. change (125 =? 123) with false. change (125 =? 125) with true. cbn iota.
    cbn [option_map]. rewrite Nat.add_0_r.
    replace (S (length (show k) + length (show v))) with (length (show k ++ show v ++ [125]))
      by (rewrite !app_length; cbn; lia).
    replace (show k ++ show v ++ 125 :: r) with ((show k ++ show v ++ [125]) ++ r)
      by (rewrite <- !app_assoc; reflexivity).
    rewrite firstn_app_exact, skipn_app_exact. reflexivity.
Qed.

(* --- the whole generator ------------------------------------------------------------ *)

Lemma gct_all_show_list ts : forall n, (length ts < n)%nat ->
  gct_all_fuel n (show_list ts) = Ok (map show ts).
Proof.
  induction ts as [|t l IH]; intros n Hn.
  - destruct n; [lia|]. reflexivity.
  - destruct n; [cbn in Hn; lia|]. cbn [gct_all_fuel]. rewrite show_list_cons, gct_next_show.
    rewrite IH by (cbn in Hn; lia). reflexivity.
Qed.

Lemma show_list_length ts : (length ts <= length (show_list ts))%nat.
Proof.
  induction ts as [|t l IH]; [cbn; lia|]. rewrite show_list_cons, app_length.
  pose proof (show_length_pos t). cbn [length]. lia.
Qed.

(* every signature the type grammar derives splits into exactly its complete types *)
Theorem gen_complete_types_show ts : gen_complete_types (show_list ts) = Ok (map show ts).
Proof.
  unfold gen_complete_types. apply gct_all_show_list.
  pose proof (show_list_length ts). lia.
Qed.

(* for ANY string: whatever the splitter returns concatenates to the input *)
Lemma gct_next_concat sig : forall ct rest, gct_next sig = Ok (Some (ct, rest)) -> sig = ct ++ rest /\ ct <> [].
Proof.
  induction sig as [|c r IH]; intros ct rest H; [discriminate|].
  cbn [gct_next] in H.
  destruct (c =? 40).
  { destruct (find_end r 40 41 1); [|discriminate]. assert (ct = c :: firstn (S n) r /\ rest = skipn (S n) r) as [-> ->] by (split; congruence).
    split; [|discriminate]. rewrite <- app_comm_cons. f_equal. symmetry. apply firstn_skipn. }
  destruct (c =? 123).
  { destruct (find_end r 123 125 1); [|discriminate]. assert (ct = c :: firstn (S n) r /\ rest = skipn (S n) r) as [-> ->] by (split; congruence).
    split; [|discriminate]. rewrite <- app_comm_cons. f_equal. symmetry. apply firstn_skipn. }
  destruct (c =? 97).
  { destruct (gct_next r) as [[[ct' rest']|]|] eqn:E; try discriminate.
    inversion H; subst. destruct (IH _ _ eq_refl) as [-> _]. split; [reflexivity|discriminate]. }
  inversion H; subst. split; [reflexivity|discriminate].
Qed.

Theorem gen_complete_types_concat sig ps : gen_complete_types sig = Ok ps -> concat ps = sig.
Proof.
  unfold gen_complete_types. generalize (S (length sig)) as n. intros n; revert sig ps.
  induction n as [|n IH]; intros sig ps H; [discriminate|].
  cbn [gct_all_fuel] in H.
  destruct (gct_next sig) as [[[ct rest]|]|] eqn:E; try discriminate.
  - destruct (gct_all_fuel n rest) as [l|] eqn:E2; [|discriminate].
    inversion H; subst. cbn [concat]. rewrite (IH _ _ E2).
    symmetry. apply (gct_next_concat _ _ _ E).
  - inversion H; subst. destruct sig; [reflexivity|].
    cbn [gct_next] in E. destruct (n0 =? 40); [destruct (find_end _ _ _ _); discriminate|].
    destruct (n0 =? 123); [destruct (find_end _ _ _ _); discriminate|].
    destruct (n0 =? 97); [destruct (gct_next sig) as [[[? ?]|]|]; discriminate|discriminate].
Qed.

(* the fuel of gen_complete_types never runs out *)
Lemma gct_next_shorter sig ct rest : gct_next sig = Ok (Some (ct, rest)) -> (length rest < length sig)%nat.
Proof.
  intros H. destruct (gct_next_concat _ _ _ H) as [-> Hne]. rewrite app_length.
  destruct ct; [congruence|cbn; lia].
Qed.

Lemma gct_next_no_fuel s : forall e, gct_next s = Err e -> e <> EFuel.
Proof.
  induction s as [|c r IH]; intros e E; [discriminate|].
  cbn [gct_next] in E.
  destruct (c =? 40); [destruct (find_end _ _ _ _); [discriminate|congruence]|].
  destruct (c =? 123); [destruct (find_end _ _ _ _); [discriminate|congruence]|].
  destruct (c =? 97); [|discriminate].
  destruct (gct_next r) as [[[? ?]|]|e'] eqn:E'; try discriminate; try congruence.
  assert (e = e') by congruence. subst. apply IH. reflexivity.
Qed.

Theorem gen_complete_types_total sig : gen_complete_types sig <> Err EFuel.
Proof.
  unfold gen_complete_types.
  assert (H : forall n sig, (length sig < n)%nat -> gct_all_fuel n sig <> Err EFuel).
  { induction n as [|n IH]; intros s Hs; [lia|]. cbn [gct_all_fuel].
    destruct (gct_next s) as [[[ct rest]|]|e] eqn:E; try discriminate.
    - pose proof (gct_next_shorter _ _ _ E).
      specialize (IH rest ltac:(lia)). destruct (gct_all_fuel n rest); [discriminate|congruence].
    - pose proof (gct_next_no_fuel _ _ E). congruence. }
  apply H. lia.
Qed.
