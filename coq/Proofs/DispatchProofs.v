(* Proofs for C10 (Model/Dispatch.v against Spec/DispatchSpec.v). *)
From Tx Require Import Lib.Base Lib.Sexp.
From Tx Require Import Model.PyVal Model.Validators Model.Marshal Spec.Grammar Proofs.ValidatorsProofs.
From Tx Require Import Model.Dispatch Spec.DispatchSpec Model.OpsC10.
From Tx Require Model.ObjTree.
From Tx Require Gen.Generated.
Local Open Scope N_scope.

(* ------------------------------------------------------------------------------
   constants                                                                      *)
Lemma names_agree :
  e_unknown_object = n_unknown_object /\ e_unknown_method = n_unknown_method /\
  e_invalid_args = n_invalid_args /\ e_python_exception = n_python_exception /\
  e_invalid_error_name = n_invalid_error_name.
Proof. repeat split; reflexivity. Qed.

Lemma dispatcher_names_valid :
  validate_iface n_unknown_object = true /\ validate_iface n_unknown_method = true /\
  validate_iface n_invalid_args = true /\ validate_iface n_invalid_error_name = true.
Proof. repeat split; vm_compute; reflexivity. Qed.

Lemma builtin_model (c : call) :
  builtin c = (opt_is (c_iface c) n_peer && str_eqb (c_member c) n_ping)
              || (opt_is (c_iface c) n_introspectable && str_eqb (c_member c) n_introspect)
              || (opt_is (c_iface c) n_object_manager && str_eqb (c_member c) n_get_managed).
Proof. reflexivity. Qed.

(* ------------------------------------------------------------------------------
   the text handed to ErrorMessage                                                *)
Lemma sanitize_ok (t : bytes) : text_ok (sanitize t) = true.
Proof.
  unfold text_ok. apply negb_true_iff.
  induction t as [|b t IH]; [reflexivity|].
  cbn [sanitize flat_map]. fold (sanitize t).
  destruct (b =? 0) eqn:Eb.
  - cbn [app existsb]. rewrite IH. reflexivity.
  - cbn [app existsb]. rewrite IH. rewrite N.eqb_sym, Eb. reflexivity.
Qed.

Lemma sanitize_id (t : bytes) : dbus_string t = true -> sanitize t = t.
Proof.
  unfold dbus_string. induction t as [|b t IH]; [reflexivity|].
  cbn [forallb sanitize flat_map]. fold (sanitize t). intros H.
  apply andb_true_iff in H as [Hb Ht]. apply negb_true_iff in Hb. rewrite Hb.
  cbn [app]. rewrite (IH Ht). reflexivity.
Qed.

Lemma sanitize_app (a b : bytes) : sanitize (a ++ b) = sanitize a ++ sanitize b.
Proof. unfold sanitize. apply flat_map_app. Qed.

(* ------------------------------------------------------------------------------
   reply constructors                                                             *)
Definition addressed_to (c : call) (r : reply) : Prop :=
  r_dest r = c_sender c /\ r_serial r = c_serial c.

Lemma mk_error_ok name c b :
  dest_ok (c_sender c) = true -> validate_iface name = true ->
  mk_error name c b = Ok (mkReply (KError name) (c_serial c) (c_sender c) s_sig b).
Proof. intros Hd Hn. unfold mk_error. rewrite Hd, Hn. reflexivity. Qed.

Lemma mk_error_inv name c b r :
  mk_error name c b = Ok r -> r = mkReply (KError name) (c_serial c) (c_sender c) s_sig b.
Proof.
  unfold mk_error. destruct (dest_ok (c_sender c)); [|discriminate].
  destruct (validate_iface name); [|discriminate]. cbn. congruence.
Qed.

(* the name and text send_error uses *)
Definition raw_name (e : exn) : str :=
  match x_dbus_name e with Some n => n | None => n_python_exception ++ x_class e end.

Definition err_text (e : exn) : bytes :=
  if validate_error (raw_name e) then x_text e
  else t_invalid_pre ++ raw_name e ++ t_invalid_post ++ x_text e.

Lemma error_name_model (e : exn) :
  error_name_of e = if validate_error (raw_name e) then raw_name e else n_invalid_error_name.
Proof.
  unfold error_name_of, raw_name, validate_error. rewrite validate_iface_grammar. reflexivity.
Qed.

Lemma error_name_valid (e : exn) : validate_iface (error_name_of e) = true.
Proof.
  rewrite error_name_model. unfold validate_error.
  destruct (validate_iface (raw_name e)) eqn:E; [exact E | vm_compute; reflexivity].
Qed.

Lemma send_error_current c e :
  dest_ok (c_sender c) = true ->
  send_error false c e =
    Ok (mkReply (KError (error_name_of e)) (c_serial c) (c_sender c) s_sig (BText (sanitize (err_text e)))).
Proof.
  intros Hd. unfold send_error. fold (raw_name e).
  rewrite error_name_model. unfold err_text.
  destruct (validate_error (raw_name e)) eqn:Ev.
  - rewrite sanitize_ok. cbn [negb]. apply mk_error_ok; [exact Hd | exact Ev].
  - rewrite sanitize_ok. cbn [negb]. apply mk_error_ok; [exact Hd | vm_compute; reflexivity].
Qed.

Lemma send_failure_current c e :
  dest_ok (c_sender c) = true ->
  send_failure false c e =
    [mkReply (KError (error_name_of e)) (c_serial c) (c_sender c) s_sig (BText (sanitize (err_text e)))].
Proof. intros Hd. unfold send_failure. rewrite (send_error_current c e Hd). reflexivity. Qed.

Lemma send_reply_cases c m v :
  dest_ok (c_sender c) = true ->
  (exists b, encode_out (m_out m) (wrap_result (m_nret m) v) = Ok b /\
             send_reply c m v = [mkReply KReturn (c_serial c) (c_sender c) (m_out m) (BBytes b)]) \/
  (exists e, encode_out (m_out m) (wrap_result (m_nret m) v) = Err e /\
             send_reply c m v = [mkReply KEncodeError (c_serial c) (c_sender c) s_sig BOther]).
Proof.
  intros Hd. unfold send_reply, mk_return. rewrite Hd. cbn [negb].
  destruct (encode_out (m_out m) (wrap_result (m_nret m) v)) as [b|e].
  - left. exists b. split; reflexivity.
  - right. exists e. split; reflexivity.
Qed.

Lemma send_reply_one c m v : dest_ok (c_sender c) = true -> length (send_reply c m v) = 1%nat.
Proof.
  intros Hd. destruct (send_reply_cases c m v Hd) as [[b [_ ->]]|[e [_ ->]]]; reflexivity.
Qed.

Lemma send_reply_addressed c m v r :
  dest_ok (c_sender c) = true -> In r (send_reply c m v) -> addressed_to c r.
Proof.
  intros Hd. destruct (send_reply_cases c m v Hd) as [[b [_ ->]]|[e [_ ->]]];
    intros [<-|[]]; split; reflexivity.
Qed.

Lemma send_failure_one c e : dest_ok (c_sender c) = true -> length (send_failure false c e) = 1%nat.
Proof. intros Hd. rewrite (send_failure_current c e Hd). reflexivity. Qed.

Lemma send_failure_addressed c e r :
  dest_ok (c_sender c) = true -> In r (send_failure false c e) -> addressed_to c r.
Proof. intros Hd. rewrite (send_failure_current c e Hd). intros [<-|[]]; split; reflexivity. Qed.

Lemma fire_one p l : dest_ok (c_sender (p_call p)) = true -> length (fire p l) = 1%nat.
Proof.
  intros Hd. unfold fire, fire_with. destruct l; [apply send_reply_one | apply send_failure_one]; exact Hd.
Qed.

Lemma fire_addressed p l r :
  dest_ok (c_sender (p_call p)) = true -> In r (fire p l) -> addressed_to (p_call p) r.
Proof.
  intros Hd. unfold fire, fire_with. destruct l;
    [apply send_reply_addressed | apply send_failure_addressed]; exact Hd.
Qed.

Lemma send_err_ok c name :
  dest_ok (c_sender c) = true -> validate_iface name = true ->
  one (send_err c name) = HDone [mkReply (KError name) (c_serial c) (c_sender c) s_sig BOther] [] None.
Proof. intros Hd Hn. unfold send_err. rewrite (mk_error_ok name c BOther Hd Hn). reflexivity. Qed.

(* ------------------------------------------------------------------------------
   lookups: model against specification                                           *)
Lemma exported_at_model p ex : exported_at p ex = alist_get str_eqb p ex.
Proof.
  induction ex as [|[k o] ex IH]; [reflexivity|].
  cbn [exported_at alist_get]. rewrite IH. reflexivity.
Qed.

Lemma declared_model o : declared o = interfaces o.
Proof. unfold declared, interfaces. symmetry. apply flat_map_concat_map. Qed.

Lemma member_of_model member i : member_of member i = find_meth member (i_methods i).
Proof.
  unfold member_of. induction (i_methods i) as [|m l IH]; [reflexivity|].
  cbn [filter find_meth]. destruct (str_eqb (m_name m) member); [reflexivity | exact IH].
Qed.

Lemma named_model c : named c = truthy_str (c_iface c).
Proof. unfold named, truthy_str. destruct (c_iface c) as [[|x r]|]; reflexivity. Qed.

(* what the handler's interface / member lookup yields *)
Definition model_target (ci : option str) (member : str) (l : list iface) : option (iface * meth) :=
  match pick_iface ci member l with
  | Some i => match find_meth member (i_methods i) with
              | Some m => Some (i, m)
              | None => None
              end
  | None => None
  end.

Definition spec_eligible (ci : option str) (member : str) (l : list iface) : list (iface * meth) :=
  flat_map (fun i =>
              match find_meth member (i_methods i) with
              | Some m => match ci with
                          | Some n => if str_eqb (i_name i) n then [(i, m)] else []
                          | None => [(i, m)]
                          end
              | None => []
              end) l.

Lemma eligible_model c o :
  eligible c o = spec_eligible (truthy_str (c_iface c)) (c_member c) (interfaces o).
Proof.
  unfold eligible, spec_eligible. rewrite declared_model, named_model.
  apply flat_map_ext. intros i. rewrite member_of_model. reflexivity.
Qed.

Lemma spec_eligible_no_name n member l :
  ~ In n (map i_name l) -> spec_eligible (Some n) member l = [].
Proof.
  induction l as [|i l IH]; [reflexivity|].
  cbn [map In]. intros H. cbn [spec_eligible flat_map].
  fold (spec_eligible (Some n) member l). rewrite IH by tauto.
  destruct (find_meth member (i_methods i)); [|reflexivity].
  destruct (str_eqb (i_name i) n) eqn:E; [|reflexivity].
  apply str_eqb_spec in E. tauto.
Qed.

Lemma target_model ci member l :
  NoDup (map i_name l) ->
  model_target ci member l = hd_error (spec_eligible ci member l).
Proof.
  unfold model_target. induction l as [|i l IH]; [reflexivity|].
  cbn [map]. intros Hnd. inversion Hnd as [|x xs Hnotin Hnd']; subst.
  cbn [pick_iface spec_eligible flat_map]. fold (spec_eligible ci member l).
  destruct ci as [n|].
  - destruct (str_eqb (i_name i) n) eqn:En.
    + apply str_eqb_spec in En. subst n.
      rewrite (spec_eligible_no_name (i_name i) member l Hnotin).
      destruct (find_meth member (i_methods i)); reflexivity.
    + destruct (find_meth member (i_methods i)); cbn [app]; apply IH; exact Hnd'.
  - destruct (find_meth member (i_methods i)) as [m|] eqn:Em.
    + rewrite Em. reflexivity.
    + cbn [app]. apply IH; exact Hnd'.
Qed.

(* attribute lookup *)
Lemma attr_get_model n l :
  attr_get n l = match filter (fun kf => str_eqb (fst kf) n) l with
                 | kf :: _ => Some (snd kf)
                 | [] => None
                 end.
Proof.
  induction l as [|[k f] l IH]; [reflexivity|].
  cbn [attr_get filter fst]. destruct (str_eqb k n); [reflexivity | exact IH].
Qed.

Lemma lookup_attr_model o n : lookup_attr o n = resolve o n.
Proof.
  unfold lookup_attr. induction o as [|c o IH]; [reflexivity|].
  cbn [flat_map resolve]. rewrite attr_get_model.
  destruct (filter (fun kf => str_eqb (fst kf) n) (c_attrs c)) as [|kf r]; [exact IH | reflexivity].
Qed.

Lemma decorated_for_model i m f : decorated_for i m f = deco_is i m f.
Proof. reflexivity. Qed.

Lemma attr_get_some n l : (exists f, In (n, f) l) -> attr_get n l <> None.
Proof.
  induction l as [|[k g] l IH]; intros [f Hin]; [destruct Hin|].
  cbn [attr_get]. destruct (str_eqb k n) eqn:E; [discriminate|].
  destruct Hin as [Heq|Hin].
  - inversion Heq; subst. rewrite str_eqb_refl in E. discriminate.
  - apply IH. exists f. exact Hin.
Qed.

Lemma resolve_some o n : (exists c f, In c o /\ In (n, f) (c_attrs c)) -> resolve o n <> None.
Proof.
  induction o as [|c o IH]; intros [c' [f [Hc Hin]]]; [destruct Hc|].
  cbn [resolve]. destruct (attr_get n (c_attrs c)) eqn:E; [discriminate|].
  destruct Hc as [->|Hc].
  - exfalso. apply (attr_get_some n (c_attrs c')); [exists f; exact Hin | exact E].
  - apply IH. exists c', f. split; assumption.
Qed.

Lemma cache_name_in i m l n :
  cache_name i m l = Some n -> exists f, In (n, f) l /\ deco_is i m f = true.
Proof.
  induction l as [|[k g] l IH]; [discriminate|].
  cbn [cache_name]. destruct (cache_name i m l) as [n'|] eqn:E.
  - intros H. inversion H; subst. destruct (IH eq_refl) as [f [Hin Hd]].
    exists f. split; [right; exact Hin | exact Hd].
  - destruct (deco_is i m g) eqn:Ed; [|discriminate].
    intros H. inversion H; subst. exists g. split; [left; reflexivity | exact Ed].
Qed.

Lemma cache_name_some i m l :
  (exists n f, In (n, f) l /\ deco_is i m f = true) -> cache_name i m l <> None.
Proof.
  induction l as [|[k g] l IH]; intros [n [f [Hin Hd]]]; [destruct Hin|].
  cbn [cache_name]. destruct (cache_name i m l) eqn:E; [discriminate|].
  destruct Hin as [Heq|Hin].
  - inversion Heq; subst. rewrite Hd. discriminate.
  - exfalso. apply IH; [exists n, f; split; assumption | reflexivity].
Qed.

Lemma search_cache_in o i m n :
  search_cache o i m = Some n ->
  exists c f, In c o /\ In (n, f) (c_attrs c) /\ deco_is i m f = true.
Proof.
  induction o as [|c o IH]; [discriminate|].
  cbn [search_cache]. destruct (cache_name i m (c_attrs c)) as [n'|] eqn:E.
  - intros H. inversion H; subst. destruct (cache_name_in i m _ _ E) as [f [Hin Hd]].
    exists c, f. split; [left; reflexivity | split; assumption].
  - intros H. destruct (IH H) as [c' [f [Hc [Hin Hd]]]].
    exists c', f. split; [right; exact Hc | split; assumption].
Qed.

Lemma search_cache_some o i m :
  (exists c n f, In c o /\ In (n, f) (c_attrs c) /\ deco_is i m f = true) -> search_cache o i m <> None.
Proof.
  induction o as [|c o IH]; intros [c' [n [f [Hc [Hin Hd]]]]]; [destruct Hc|].
  cbn [search_cache]. destruct (cache_name i m (c_attrs c)) eqn:E; [discriminate|].
  destruct Hc as [->|Hc].
  - exfalso. apply (cache_name_some i m (c_attrs c')); [exists n, f; split; assumption | exact E].
  - apply IH. exists c', n, f. split; [exact Hc | split; assumption].
Qed.

(* the decorated part of the specification's candidate list *)
Definition deco_candidates (o : object) (iname member : str) : list func :=
  flat_map (fun c =>
              flat_map (fun kf => if decorated_for iname member (snd kf)
                                  then opt_list (lookup_attr o (fst kf)) else [])
                       (c_attrs c)) o.

Lemma deco_candidates_in o i m c n g f :
  In c o -> In (n, g) (c_attrs c) -> deco_is i m g = true -> resolve o n = Some f ->
  In f (deco_candidates o i m).
Proof.
  intros Hc Hin Hd Hr. unfold deco_candidates.
  apply in_flat_map. exists c. split; [exact Hc|].
  apply in_flat_map. exists (n, g). split; [exact Hin|].
  cbn [snd fst]. rewrite decorated_for_model, Hd, lookup_attr_model, Hr. left; reflexivity.
Qed.

Lemma get_decorated_candidate o i m f :
  get_decorated o i m = Some f -> In f (deco_candidates o i m).
Proof.
  unfold get_decorated. destruct (search_cache o i m) as [n|] eqn:E; [|discriminate].
  intros Hr. destruct (search_cache_in o i m n E) as [c [g [Hc [Hin Hd]]]].
  exact (deco_candidates_in o i m c n g f Hc Hin Hd Hr).
Qed.

Lemma deco_candidates_nonempty o i m :
  deco_candidates o i m <> [] -> get_decorated o i m <> None.
Proof.
  intros Hne. destruct (deco_candidates o i m) as [|f r] eqn:E; [contradiction|].
  assert (Hf : In f (deco_candidates o i m)) by (rewrite E; left; reflexivity).
  unfold deco_candidates in Hf. apply in_flat_map in Hf as [c [Hc Hf]].
  apply in_flat_map in Hf as [[n g] [Hin Hf]]. cbn [snd fst] in Hf.
  rewrite decorated_for_model in Hf. destruct (deco_is i m g) eqn:Hd; [|destruct Hf].
  unfold get_decorated.
  destruct (search_cache o i m) as [n'|] eqn:Es.
  - destruct (search_cache_in o i m n' Es) as [c' [g' [Hc' [Hin' _]]]].
    apply resolve_some. exists c', g'. split; assumption.
  - exfalso. apply (search_cache_some o i m); [|exact Es].
    exists c, n, g. split; [exact Hc | split; assumption].
Qed.

Lemma candidates_split o i m :
  candidates o i m =
  deco_candidates o i m ++
  match resolve o (dbus_prefix ++ m) with
  | Some f => match f_deco f with
              | None => [f]
              | Some (i', _) => if str_eqb i' i then [f] else []
              end
  | None => []
  end.
Proof. unfold candidates. rewrite lookup_attr_model. reflexivity. Qed.

(* whatever executeMethod runs is a bound implementation *)
Lemma exec_lookup_candidate o i m f : exec_lookup o i m = Some f -> In f (candidates o i m).
Proof.
  rewrite candidates_split. unfold exec_lookup.
  destruct (resolve o (dbus_prefix ++ m)) as [g|].
  - destruct (f_deco g) as [[i' m']|] eqn:Eg.
    + destruct (str_eqb i' i).
      * intros H. inversion H; subst. apply in_or_app. right. left. reflexivity.
      * intros H. apply in_or_app. left. apply get_decorated_candidate. exact H.
    + intros H. inversion H; subst. apply in_or_app. right. left. reflexivity.
  - intros H. rewrite app_nil_r. apply get_decorated_candidate. exact H.
Qed.

(* and it runs one whenever there is one *)
Lemma exec_lookup_some o i m : candidates o i m <> [] -> exec_lookup o i m <> None.
Proof.
  rewrite candidates_split. unfold exec_lookup.
  destruct (resolve o (dbus_prefix ++ m)) as [g|].
  - destruct (f_deco g) as [[i' m']|] eqn:Eg.
    + destruct (str_eqb i' i); [discriminate|].
      rewrite app_nil_r. apply deco_candidates_nonempty.
    + discriminate.
  - rewrite app_nil_r. apply deco_candidates_nonempty.
Qed.

(* ------------------------------------------------------------------------------
   the handler, for a caller the replies can be addressed to                      *)
Definition rep (c : call) (k : rkind) (sig : str) (b : body) : reply :=
  mkReply k (c_serial c) (c_sender c) sig b.

Definition error_reply (c : call) (e : exn) : reply :=
  rep c (KError (error_name_of e)) s_sig (BText (sanitize (err_text e))).

Definition not_implemented : exn := mkExn n_not_implemented None [].

(* what runs and what is answered once the method is found *)
Definition dispatch_nf (beh : invocation -> outcome) (c : call) (o : object) (i : iface) (m : meth) : hres :=
  match exec_lookup o (i_name i) (c_member c) with
  | None => HDone (if c_expect c then [error_reply c not_implemented] else []) [] None
  | Some f =>
      let inv := mkInv f (c_args c) (if f_caller f then Some (c_sender c) else None) in
      match beh inv with
      | OValue v => HDone (if c_expect c then send_reply c m v else []) [inv] None
      | ORaise e => HDone (if c_expect c then [error_reply c e] else []) [inv] None
      | ODeferred => HDone [] [inv] (if c_expect c then Some (mkPend c m) else None)
      end
  end.

Definition is_ping (c : call) : bool := opt_is (c_iface c) n_peer && str_eqb (c_member c) n_ping.
Definition is_introspect (c : call) : bool :=
  opt_is (c_iface c) n_introspectable && str_eqb (c_member c) n_introspect.
Definition is_get_managed (c : call) : bool :=
  opt_is (c_iface c) n_object_manager && str_eqb (c_member c) n_get_managed.

Definition handle_nf (ex : exports) (beh : invocation -> outcome) (c : call) : hres :=
  if is_ping c then HDone [rep c KReturn [] (BBytes [])] [] None
  else
    match (if is_introspect c then ObjTree.introspect (c_path c) (to_tree ex) else None) with
    | Some _ => HDone [rep c KReturn s_sig BOther] [] None
    | None =>
        match alist_get str_eqb (c_path c) ex with
        | None => HDone [rep c (KError n_unknown_object) s_sig BOther] [] None
        | Some o =>
            if is_get_managed c then HDone [rep c KReturn sig_managed BOther] [] None
            else
              match model_target (truthy_str (c_iface c)) (c_member c) (interfaces o) with
              | None => HDone [rep c (KError n_unknown_method) s_sig BOther] [] None
              | Some (i, m) =>
                  if negb (str_eqb (m_in m) (sig_or_empty (c_sig c)))
                  then HDone [rep c (KError n_invalid_args) s_sig BOther] [] None
                  else dispatch_nf beh c o i m
              end
        end
    end.

Lemma handle_normal_form ex beh c :
  dest_ok (c_sender c) = true -> handle ex beh c = handle_nf ex beh c.
Proof.
  intros Hd. destruct dispatcher_names_valid as [Huo [Hum [Hia _]]].
  unfold handle, handle_with, handle_nf.
  fold (is_ping c). fold (is_introspect c). fold (is_get_managed c).
  destruct (is_ping c).
  { unfold mk_return. rewrite Hd. reflexivity. }
  destruct (if is_introspect c then ObjTree.introspect (c_path c) (to_tree ex) else None) as [x|].
  { rewrite Hd. reflexivity. }
  destruct (alist_get str_eqb (c_path c) ex) as [o|].
  2:{ apply send_err_ok; assumption. }
  destruct (is_get_managed c).
  { rewrite Hd. reflexivity. }
  unfold model_target.
  destruct (pick_iface (truthy_str (c_iface c)) (c_member c) (interfaces o)) as [i|].
  2:{ apply send_err_ok; assumption. }
  destruct (find_meth (c_member c) (i_methods i)) as [m|].
  2:{ apply send_err_ok; assumption. }
  destruct (negb (str_eqb (m_in m) (sig_or_empty (c_sig c)))).
  { apply send_err_ok; assumption. }
  unfold dispatch_nf.
  destruct (exec_lookup o (i_name i) (c_member c)) as [f|].
  - destruct (beh _) as [v|e|]; try reflexivity.
    rewrite (send_failure_current c e Hd). reflexivity.
  - fold not_implemented. rewrite (send_failure_current c not_implemented Hd). reflexivity.
Qed.

(* ------------------------------------------------------------------------------
   C10_reply_count, C10_addressed                                                  *)
Definition wf_call (c : call) : Prop := dest_ok (c_sender c) = true.

Lemma dispatch_nf_count beh c o i m :
  wf_call c ->
  exists rs invs p,
    dispatch_nf beh c o i m = HDone rs invs p /\
    (length invs <= 1)%nat /\
    match p with
    | None => (c_expect c = true -> length rs = 1%nat) /\ (c_expect c = false -> rs = [])
    | Some pd => rs = [] /\ c_expect c = true /\ length invs = 1%nat /\ pd = mkPend c m
    end /\
    (forall r, In r rs -> addressed_to c r).
Proof.
  intros Hd. unfold dispatch_nf.
  destruct (exec_lookup o (i_name i) (c_member c)) as [f|].
  - destruct (beh _) as [v|e|]; eexists; eexists; eexists; (split; [reflexivity|]).
    + split; [cbn; lia|]. split.
      * split; intros He; rewrite He; [apply send_reply_one; exact Hd | reflexivity].
      * intros r. destruct (c_expect c); [apply send_reply_addressed; exact Hd | intros []].
    + split; [cbn; lia|]. split.
      * split; intros He; rewrite He; reflexivity.
      * intros r. destruct (c_expect c); [intros [<-|[]]; split; reflexivity | intros []].
    + split; [cbn; lia|]. destruct (c_expect c) eqn:He.
      * split; [repeat split; reflexivity | intros r []].
      * split; [split; [discriminate | reflexivity] | intros r []].
  - eexists; eexists; eexists; (split; [reflexivity|]).
    split; [cbn; lia|]. split.
    + split; intros He; rewrite He; reflexivity.
    + intros r. destruct (c_expect c); [intros [<-|[]]; split; reflexivity | intros []].
Qed.

(* the shape of everything the handler can do for a well-addressed caller *)
Lemma handle_count ex beh c :
  wf_call c ->
  exists rs invs p,
    handle ex beh c = HDone rs invs p /\
    (length invs <= 1)%nat /\
    match p with
    | None => (length rs <= 1)%nat /\ (c_expect c = true -> length rs = 1%nat) /\
              (c_expect c = false -> invs <> [] -> rs = [])
    | Some pd => rs = [] /\ c_expect c = true /\ length invs = 1%nat /\ p_call pd = c
    end /\
    (forall r, In r rs -> addressed_to c r).
Proof.
  intros Hd. rewrite (handle_normal_form ex beh c Hd). unfold handle_nf.
  assert (Hone : forall k sg b,
             exists rs invs p, HDone [rep c k sg b] [] None = HDone rs invs p /\
               (length invs <= 1)%nat /\
               match p with
               | None => (length rs <= 1)%nat /\ (c_expect c = true -> length rs = 1%nat) /\
                         (c_expect c = false -> invs <> [] -> rs = [])
               | Some pd => rs = [] /\ c_expect c = true /\ length invs = 1%nat /\ p_call pd = c
               end /\
               (forall r, In r rs -> addressed_to c r)).
  { intros k sg b. eexists; eexists; eexists. split; [reflexivity|].
    split; [cbn; lia|]. split.
    - split; [cbn; lia|]. split; [reflexivity|]. intros _ H. exfalso. apply H. reflexivity.
    - intros r [<-|[]]. split; reflexivity. }
  destruct (is_ping c); [apply Hone|].
  destruct (if is_introspect c then _ else None); [apply Hone|].
  destruct (alist_get str_eqb (c_path c) ex) as [o|]; [|apply Hone].
  destruct (is_get_managed c); [apply Hone|].
  destruct (model_target _ _ _) as [[i m]|]; [|apply Hone].
  destruct (negb _); [apply Hone|].
  destruct (dispatch_nf_count beh c o i m Hd) as [rs [invs [p [-> [Hi [Hp Ha]]]]]].
  exists rs, invs, p. split; [reflexivity|]. split; [exact Hi|]. split; [|exact Ha].
  destruct p as [pd|].
  - destruct Hp as [-> [He [Hl ->]]]. repeat split; assumption.
  - destruct Hp as [H1 H0]. split; [|split].
    + destruct (c_expect c); [rewrite (H1 eq_refl); lia | rewrite (H0 eq_refl); cbn; lia].
    + exact H1.
    + intros He _. exact (H0 He).
Qed.

Theorem reply_count ex beh c l :
  wf_call c ->
  let h := handle ex beh c in
  (length (all_replies h l) <= 1)%nat /\
  (c_expect c = true -> length (all_replies h l) = 1%nat) /\
  (c_expect c = false -> invocations h <> [] -> all_replies h l = []) /\
  (length (invocations h) <= 1)%nat.
Proof.
  intros Hd h. subst h.
  destruct (handle_count ex beh c Hd) as [rs [invs [p [-> [Hi [Hp _]]]]]].
  cbn [all_replies invocations]. destruct p as [pd|].
  - destruct Hp as [-> [He [_ Hpc]]]. cbn [app].
    assert (H1 : length (fire pd l) = 1%nat) by (apply fire_one; rewrite Hpc; exact Hd).
    rewrite H1. repeat split; try lia. intros Hf. rewrite He in Hf. discriminate.
  - destruct Hp as [Hle [H1 H0]]. repeat split; assumption.
Qed.

Theorem replies_addressed ex beh c l r :
  wf_call c -> In r (all_replies (handle ex beh c) l) ->
  r_dest r = c_sender c /\ r_serial r = c_serial c.
Proof.
  intros Hd. destruct (handle_count ex beh c Hd) as [rs [invs [p [-> [_ [Hp Ha]]]]]].
  cbn [all_replies]. destruct p as [pd|].
  - destruct Hp as [-> [_ [_ Hpc]]]. cbn [app]. intros Hin.
    rewrite <- Hpc. apply (fire_addressed pd l r); [rewrite Hpc; exact Hd | exact Hin].
  - apply Ha.
Qed.

(* no exception escapes the dispatcher *)
Theorem no_escape ex beh c : wf_call c -> exists rs invs p, handle ex beh c = HDone rs invs p.
Proof.
  intros Hd. destruct (handle_count ex beh c Hd) as [rs [invs [p [H _]]]]. exists rs, invs, p. exact H.
Qed.

(* ------------------------------------------------------------------------------
   C10_invoked_iff                                                                 *)
Definition wf_exports (ex : exports) : Prop :=
  forall p o, In (p, o) ex -> NoDup (map i_name (interfaces o)).

Lemma alist_get_in p (ex : exports) o : alist_get str_eqb p ex = Some o -> In (p, o) ex.
Proof.
  induction ex as [|[k o'] ex IH]; [discriminate|].
  cbn [alist_get]. destruct (str_eqb p k) eqn:E.
  - intros H. inversion H; subst. apply str_eqb_spec in E. subst. left. reflexivity.
  - intros H. right. apply IH. exact H.
Qed.

Lemma not_builtin c :
  builtin c = false -> is_ping c = false /\ is_introspect c = false /\ is_get_managed c = false.
Proof.
  rewrite builtin_model. fold (is_ping c). fold (is_introspect c). fold (is_get_managed c).
  destruct (is_ping c), (is_introspect c), (is_get_managed c); cbn; intros H;
    try discriminate; repeat split; reflexivity.
Qed.

(* the handler's lookup is the specification's `addressed` *)
Lemma handle_by_target ex beh c :
  wf_call c -> wf_exports ex -> builtin c = false ->
  handle ex beh c =
  match addressed ex c with
  | TNoObject => HDone [rep c (KError e_unknown_object) s_sig BOther] [] None
  | TNoMethod => HDone [rep c (KError e_unknown_method) s_sig BOther] [] None
  | TBadArgs => HDone [rep c (KError e_invalid_args) s_sig BOther] [] None
  | TMethod o i m => dispatch_nf beh c o i m
  end.
Proof.
  intros Hd Hwf Hb. rewrite (handle_normal_form ex beh c Hd). unfold handle_nf.
  destruct (not_builtin c Hb) as [-> [-> ->]].
  unfold addressed. rewrite exported_at_model.
  destruct (alist_get str_eqb (c_path c) ex) as [o|] eqn:Eo; [|reflexivity].
  rewrite eligible_model.
  rewrite (target_model _ _ _ (Hwf _ _ (alist_get_in _ _ _ Eo))).
  destruct (spec_eligible (truthy_str (c_iface c)) (c_member c) (interfaces o)) as [|[i m] r];
    [reflexivity|].
  cbn [hd_error]. unfold arg_signature. fold (sig_or_empty (c_sig c)).
  destruct (str_eqb (m_in m) (sig_or_empty (c_sig c))); reflexivity.
Qed.

Lemma dispatch_nf_invocations beh c o i m :
  let h := dispatch_nf beh c o i m in
  (candidates o (i_name i) (c_member c) = [] -> invocations h = []) /\
  (candidates o (i_name i) (c_member c) <> [] ->
   exists f, In f (candidates o (i_name i) (c_member c)) /\ invocations h = [expected_invocation c f]).
Proof.
  cbn zeta. unfold dispatch_nf.
  destruct (exec_lookup o (i_name i) (c_member c)) as [f|] eqn:E.
  - pose proof (exec_lookup_candidate _ _ _ _ E) as Hin. split.
    + intros Hnil. rewrite Hnil in Hin. destruct Hin.
    + intros _. exists f. split; [exact Hin|].
      unfold expected_invocation. destruct (beh _); reflexivity.
  - split; [reflexivity|]. intros Hne. exfalso. exact (exec_lookup_some _ _ _ Hne E).
Qed.

Theorem invoked_iff ex beh c :
  wf_call c -> wf_exports ex -> builtin c = false ->
  let h := handle ex beh c in
  match addressed ex c with
  | TNoObject =>
      h = HDone [mkReply (KError e_unknown_object) (c_serial c) (c_sender c) s_sig BOther] [] None
  | TNoMethod =>
      h = HDone [mkReply (KError e_unknown_method) (c_serial c) (c_sender c) s_sig BOther] [] None
  | TBadArgs =>
      h = HDone [mkReply (KError e_invalid_args) (c_serial c) (c_sender c) s_sig BOther] [] None
  | TMethod o i m =>
      (candidates o (i_name i) (c_member c) = [] -> invocations h = []) /\
      (candidates o (i_name i) (c_member c) <> [] ->
       exists f, In f (candidates o (i_name i) (c_member c)) /\
                 invocations h = [expected_invocation c f])
  end.
Proof.
  intros Hd Hwf Hb h. subst h. rewrite (handle_by_target ex beh c Hd Hwf Hb).
  destruct (addressed ex c) as [| | |o i m]; try reflexivity.
  apply dispatch_nf_invocations.
Qed.

(* user code runs iff the call addresses a method that has an implementation *)
Corollary invoked_exactly_when ex beh c :
  wf_call c -> wf_exports ex -> builtin c = false ->
  (invocations (handle ex beh c) <> [] <->
   exists o i m, addressed ex c = TMethod o i m /\ candidates o (i_name i) (c_member c) <> []).
Proof.
  intros Hd Hwf Hb. pose proof (invoked_iff ex beh c Hd Hwf Hb) as H. cbn zeta in H.
  destruct (addressed ex c) as [| | |o i m].
  1-3: rewrite H; cbn [invocations]; split;
       [intros X; exfalso; apply X; reflexivity | intros [o [i [m [X _]]]]; discriminate].
  destruct H as [H0 H1]. split.
  - intros Hne. exists o, i, m. split; [reflexivity|]. intros Hnil. apply Hne. apply H0. exact Hnil.
  - intros [o' [i' [m' [Heq Hne]]]]. inversion Heq; subst.
    destruct (H1 Hne) as [f [_ ->]]. discriminate.
Qed.

(* ------------------------------------------------------------------------------
   C10_result_mapping                                                              *)
Definition value_replies (c : call) (m : meth) (v : pyval) : list reply :=
  match encode_out (m_out m) (wrap_result (m_nret m) v) with
  | Ok b => [mkReply KReturn (c_serial c) (c_sender c) (m_out m) (BBytes b)]
  | Err _ => [mkReply KEncodeError (c_serial c) (c_sender c) s_sig BOther]
  end.

Lemma send_reply_value c m v : wf_call c -> send_reply c m v = value_replies c m v.
Proof.
  intros Hd. unfold value_replies.
  destruct (send_reply_cases c m v Hd) as [[b [-> ->]]|[e [-> ->]]]; reflexivity.
Qed.

Theorem result_mapping ex beh c o i m inv l :
  wf_call c -> wf_exports ex -> builtin c = false ->
  addressed ex c = TMethod o i m ->
  invocations (handle ex beh c) = [inv] ->
  c_expect c = true ->
  all_replies (handle ex beh c) l =
  match final_of (beh inv) (Some l) with
  | FValue v => value_replies c m v
  | FRaise e => [mkReply (KError (error_name_of e)) (c_serial c) (c_sender c) s_sig
                         (BText (sanitize (err_text e)))]
  | FOpen => []
  end.
Proof.
  intros Hd Hwf Hb Ht. rewrite (handle_by_target ex beh c Hd Hwf Hb), Ht.
  unfold dispatch_nf.
  destruct (exec_lookup o (i_name i) (c_member c)) as [f|]; [|discriminate].
  intros Hinv He. rewrite He.
  destruct (beh (mkInv f (c_args c) (if f_caller f then Some (c_sender c) else None))) as [v|e|] eqn:Eb;
    cbn [invocations] in Hinv; inversion Hinv; subst inv; rewrite Eb; cbn [final_of all_replies].
  - apply send_reply_value. exact Hd.
  - reflexivity.
  - cbn [app]. unfold fire, fire_with. destruct l as [v|e]; cbn [p_call p_meth].
    + apply send_reply_value. exact Hd.
    + rewrite (send_failure_current c e Hd). reflexivity.
Qed.

(* what the text of the error reply is *)
Lemma ends_with_refl s : ends_with s s = true.
Proof.
  destruct s; cbn [ends_with].
  - reflexivity.
  - rewrite (proj2 (list_eqb_spec N.eqb N.eqb_eq _ _) eq_refl). reflexivity.
Qed.

Lemma ends_with_app a s : ends_with s (a ++ s) = true.
Proof.
  induction a as [|x a IH]; [apply ends_with_refl|].
  cbn [app ends_with]. rewrite IH. apply orb_true_r.
Qed.

Lemma error_text_mapping (e : exn) :
  (name_is_valid e = true -> err_text e = x_text e) /\
  ends_with (x_text e) (err_text e) = true /\
  (dbus_string (err_text e) = true -> sanitize (err_text e) = err_text e).
Proof.
  split; [|split].
  - intros H. unfold err_text.
    replace (validate_error (raw_name e)) with true; [reflexivity|].
    symmetry. unfold validate_error. rewrite validate_iface_grammar. exact H.
  - unfold err_text. destruct (validate_error (raw_name e)); [apply ends_with_refl|].
    rewrite !app_assoc. apply ends_with_app.
  - apply sanitize_id.
Qed.

Lemma returned_values_wrap n v vals : returned_values n v = Some vals -> wrap_result n v = vals.
Proof.
  unfold returned_values, wrap_result. destruct (Nat.eqb n 1) eqn:E.
  - intros H. inversion H. destruct v; reflexivity.
  - destruct v; try discriminate; destruct (Nat.eqb (length l) n); try discriminate;
      intros H; inversion H; reflexivity.
Qed.

(* ------------------------------------------------------------------------------
   the executable oracle accepts every observation of the model                    *)
Lemma opt_str_eqb_refl a : opt_str_eqb a a = true.
Proof. destruct a; [apply str_eqb_refl | reflexivity]. Qed.

Lemma bytes_eqb_refl (b : bytes) : list_eqb N.eqb b b = true.
Proof. apply (proj2 (list_eqb_spec N.eqb N.eqb_eq _ _)). reflexivity. Qed.

Lemma args_eqb_refl a : args_eqb a a = true.
Proof. unfold args_eqb. apply bytes_eqb_refl. Qed.

Lemma caller_eqb_refl a : caller_eqb a a = true.
Proof. destruct a as [x|]; [apply opt_str_eqb_refl | reflexivity]. Qed.

Lemma encode_out_empty v : encode_out [] v = Ok [].
Proof. reflexivity. Qed.

Lemma judge_result_value c m v r :
  value_replies c m v = [r] -> judge_result m (FValue v) r = VOk.
Proof.
  unfold value_replies, judge_result.
  destruct (m_out m) as [|x sig] eqn:Es.
  - rewrite encode_out_empty. intros H. inversion H; subst r. reflexivity.
  - destruct (returned_values (m_nret m) v) as [vals|] eqn:Er; [|reflexivity].
    rewrite (returned_values_wrap _ _ _ Er).
    destruct (encode_out (x :: sig) vals) as [b|e]; intros H; inversion H; subst r;
      cbn [r_kind r_body r_sig is_error].
    + rewrite bytes_eqb_refl, str_eqb_refl. reflexivity.
    + reflexivity.
Qed.

Lemma judge_result_raise c m e : judge_result m (FRaise e) (error_reply c e) = VOk.
Proof.
  unfold judge_result, error_reply, rep, is_error_named. cbn [r_kind r_body].
  rewrite str_eqb_refl. cbn [negb].
  destruct (dbus_string (x_text e)) eqn:Ed; [|reflexivity]. cbn [negb].
  destruct (error_text_mapping e) as [Hv [_ _]].
  destruct (name_is_valid e) eqn:En.
  - rewrite (Hv eq_refl), (sanitize_id _ Ed), bytes_eqb_refl. reflexivity.
  - unfold err_text. destruct (validate_error (raw_name e)).
    + rewrite (sanitize_id _ Ed), ends_with_refl. reflexivity.
    + rewrite !sanitize_app, (sanitize_id _ Ed), !app_assoc, ends_with_app. reflexivity.
Qed.

Lemma introspect_exported p (ex : exports) o :
  alist_get str_eqb p ex = Some o -> ObjTree.introspect p (to_tree ex) <> None.
Proof.
  intros H. unfold ObjTree.introspect, ObjTree.introspect_with.
  assert (Hg : alist_get str_eqb p (to_tree ex) <> None).
  { clear -H. induction ex as [|[k o'] ex IH]; [discriminate|].
    cbn [to_tree map fst alist_get] in *. destruct (str_eqb p k); [discriminate | apply IH; exact H]. }
  destruct (alist_get str_eqb p (to_tree ex)); [|contradiction].
  destruct (ObjTree.intro_children_with _ _ _); discriminate.
Qed.

(* the calls the handler answers itself get one reply and run no user code *)
Lemma builtin_answered ex beh c :
  wf_call c -> builtin c = true -> exists r, handle ex beh c = HDone [r] [] None.
Proof.
  intros Hd Hb. rewrite (handle_normal_form ex beh c Hd). unfold handle_nf.
  rewrite builtin_model in Hb. fold (is_ping c) in Hb. fold (is_introspect c) in Hb.
  fold (is_get_managed c) in Hb.
  destruct (is_ping c); [eexists; reflexivity|].
  destruct (is_introspect c) eqn:Ei.
  - destruct (ObjTree.introspect (c_path c) (to_tree ex)) eqn:En; [eexists; reflexivity|].
    destruct (alist_get str_eqb (c_path c) ex) as [o|] eqn:Eo; [|eexists; reflexivity].
    exfalso. exact (introspect_exported _ _ _ Eo En).
  - destruct (is_get_managed c); [|discriminate].
    destruct (alist_get str_eqb (c_path c) ex); eexists; reflexivity.
Qed.

Lemma existsb_fid f cands : In f cands -> existsb (fun g => f_id g =? f_id f) cands = true.
Proof.
  intros H. apply existsb_exists. exists f. split; [exact H | apply N.eqb_refl].
Qed.

Lemma judge_content_model ex c out l :
  wf_call c -> wf_exports ex ->
  let o := observe ex c out l in
  judge_content ex c (final_of out l) (ob_now o ++ ob_later o) (ob_invs o) = VOk.
Proof.
  intros Hd Hwf. cbn zeta. unfold observe, observe_with, judge_content.
  fold (handle ex (fun _ => out) c).
  destruct (builtin c) eqn:Hb.
  { destruct (builtin_answered ex (fun _ => out) c Hd Hb) as [r ->].
    cbn [ob_now ob_later ob_invs app length Nat.eqb]. rewrite andb_false_r. reflexivity. }
  rewrite (handle_by_target ex (fun _ => out) c Hd Hwf Hb).
  destruct (addressed ex c) as [| | |ob i m].
  1-3: cbn [ob_now ob_later ob_invs app length Nat.eqb negb forallb];
       unfold is_error_named, rep; cbn [r_kind]; rewrite str_eqb_refl; cbn [andb negb];
       rewrite andb_false_r; reflexivity.
  unfold dispatch_nf.
  destruct (exec_lookup ob (i_name i) (c_member c)) as [f|] eqn:El.
  2:{ destruct (candidates ob (i_name i) (c_member c)) as [|f0 cs] eqn:Ec.
      - destruct (c_expect c); reflexivity.
      - exfalso. apply (exec_lookup_some ob (i_name i) (c_member c)); [rewrite Ec; discriminate | exact El]. }
  pose proof (exec_lookup_candidate _ _ _ _ El) as Hin.
  destruct (candidates ob (i_name i) (c_member c)) as [|f0 cs] eqn:Ec; [destruct Hin|].
  set (inv := mkInv f (c_args c) (if f_caller f then Some (c_sender c) else None)).
  assert (Hchk : forall rs p,
            ob_invs (mkObs false rs [inv] p) = [inv] /\
            negb (existsb (fun g => f_id g =? f_id (v_func inv)) (f0 :: cs)) = false /\
            negb (args_eqb (v_args inv) (c_args c)
                  && caller_eqb (v_caller inv) (if f_caller (v_func inv) then Some (c_sender c) else None)) = false).
  { intros rs p. split; [reflexivity|]. split.
    - subst inv. cbn [v_func]. rewrite (existsb_fid f (f0 :: cs) Hin). reflexivity.
    - subst inv. cbn [v_func v_args v_caller]. rewrite args_eqb_refl, caller_eqb_refl. reflexivity. }
  destruct out as [v|e|].
  - cbn [ob_now ob_later ob_invs final_of].
    destruct (Hchk [] []) as [_ [-> ->]].
    destruct (c_expect c) eqn:He; cbn [negb].
    + rewrite app_nil_r, (send_reply_value c m v Hd).
      destruct (value_replies c m v) as [|r rs] eqn:Ev.
      * unfold value_replies in Ev. destruct (encode_out _ _); discriminate.
      * assert (rs = []) as ->.
        { unfold value_replies in Ev. destruct (encode_out _ _); inversion Ev; reflexivity. }
        apply (judge_result_value c m v r Ev).
    + reflexivity.
  - cbn [ob_now ob_later ob_invs final_of].
    destruct (Hchk [] []) as [_ [-> ->]].
    destruct (c_expect c) eqn:He; cbn [negb].
    + cbn [app]. apply judge_result_raise.
    + reflexivity.
  - cbn [ob_now ob_invs].
    destruct (Hchk [] []) as [_ [-> ->]].
    destruct (c_expect c) eqn:He; cbn [negb app ob_later].
    + destruct l as [[v|e]|]; cbn [final_of].
      * unfold fire_with. cbn [p_call p_meth]. rewrite (send_reply_value c m v Hd).
        destruct (value_replies c m v) as [|r rs] eqn:Ev.
        -- unfold value_replies in Ev. destruct (encode_out _ _); discriminate.
        -- apply (judge_result_value c m v r).
           unfold value_replies in *. destruct (encode_out _ _); inversion Ev; reflexivity.
      * unfold fire_with. cbn [p_call p_meth]. rewrite (send_failure_current c e Hd).
        apply judge_result_raise.
      * reflexivity.
    + destruct l; reflexivity.
Qed.

Theorem oracle_sound ex c out l :
  wf_call c -> wf_exports ex -> judge ex c out l (observe ex c out l) = VOk.
Proof.
  intros Hd Hwf. unfold judge.
  pose proof (judge_content_model ex c out l Hd Hwf) as Hc. cbn zeta in Hc. rewrite Hc.
  clear Hc. unfold observe, observe_with. fold (handle ex (fun _ => out) c).
  destruct (handle_count ex (fun _ => out) c Hd) as [rs [invs [p [-> [_ [Hp Ha]]]]]].
  cbn [ob_escaped ob_now ob_later].
  assert (Haddr : forall total, (forall r, In r total -> addressed_to c r) ->
            negb (forallb (fun r => opt_str_eqb (r_dest r) (c_sender c) && Z.eqb (r_serial r) (c_serial c)) total) = false).
  { intros total H. apply negb_false_iff. apply forallb_forall. intros r Hr.
    destruct (H r Hr) as [-> ->]. rewrite opt_str_eqb_refl, Z.eqb_refl. reflexivity. }
  destruct p as [pd|].
  - destruct Hp as [-> [_ [_ Hpc]]]. cbn [app].
    destruct l as [l|].
    + assert (H1 : length (fire_with false pd l) = 1%nat) by (apply fire_one; rewrite Hpc; exact Hd).
      rewrite H1. cbn. rewrite Haddr; [reflexivity|].
      intros r Hr. rewrite <- Hpc. apply (fire_addressed pd l r); [rewrite Hpc; exact Hd | exact Hr].
    + reflexivity.
  - destruct Hp as [Hle _]. rewrite app_nil_r.
    replace (1 <? length rs)%nat with false by (symmetry; apply Nat.ltb_ge; exact Hle).
    rewrite (Haddr rs Ha). reflexivity.
Qed.

(* ------------------------------------------------------------------------------
   witnesses                                                                       *)
Definition w_iface_a : str := [111; 114; 103; 46; 101; 120; 46; 65].       (* org.ex.A *)
Definition w_iface_b : str := [111; 114; 103; 46; 101; 120; 46; 66].       (* org.ex.B *)
Definition w_foo : str := [70; 111; 111].
Definition w_bar : str := [66; 97; 114].
Definition w_path : str := [47; 97].                                        (* /a *)
Definition w_sender : str := [58; 49; 46; 52; 50].                          (* :1.42 *)
Definition w_sig_i : str := [105].
Definition w_sig_s : str := [115].

(* class C(DBusObject): dbusInterfaces = [A(Foo i->i, Bar), B(Foo s->s)];
   @dbusMethod(A, Foo) impl_a(self, x); @dbusMethod(B, Foo) impl_b(self, x, dbusCaller);
   dbus_Bar(self) *)
Definition w_f1 : func := mkFunc 1 (Some (w_iface_a, w_foo)) false.
Definition w_f2 : func := mkFunc 2 (Some (w_iface_b, w_foo)) true.
Definition w_f3 : func := mkFunc 3 None false.
Definition w_class : class :=
  mkClass (Some [mkIface w_iface_a [mkMeth w_foo w_sig_i w_sig_i; mkMeth w_bar [] []];
                 mkIface w_iface_b [mkMeth w_foo w_sig_s w_sig_s]])
          [([105; 109; 112; 108; 95; 97], w_f1); ([105; 109; 112; 108; 95; 98], w_f2);
           (dbus_prefix ++ w_bar, w_f3)].
Definition w_exports : exports := [(w_path, [w_class])].

Definition w_call (iface : option str) (member : str) (sig : option str) (args : list pyval) (expect : bool) : call :=
  mkCall w_path iface member sig args (Some w_sender) 7 expect.

(* the raw bytes of MethodCallMessage('/a', 'Bar', interface='org.ex.A', expectReply=False)
   with sender ':1.42' and serial 7 *)
Definition w_raw_noreply : bytes :=
  [108; 1; 1; 1; 0; 0; 0; 0; 7; 0; 0; 0; 70; 0; 0; 0; 1; 1; 111; 0; 2; 0; 0; 0; 47; 97; 0; 0; 0; 0; 0; 0;
   2; 1; 115; 0; 8; 0; 0; 0; 111; 114; 103; 46; 101; 120; 46; 65; 0; 0; 0; 0; 0; 0; 0; 0; 3; 1; 115; 0;
   3; 0; 0; 0; 66; 97; 114; 0; 0; 0; 0; 0; 7; 1; 115; 0; 5; 0; 0; 0; 58; 49; 46; 52; 50; 0; 0; 0].

Definition w_exn_nul : exn := mkExn [69] None [97; 0; 98].        (* class E: raise E('a\0b') *)

Lemma wf_witness : wf_exports w_exports /\ wf_call (w_call None w_bar None [] true).
Proof.
  split; [|vm_compute; reflexivity].
  intros p o [H|[]]. inversion H; subst. cbn.
  repeat constructor; cbn; intuition discriminate.
Qed.

(* D30: a raised exception whose text holds a NUL - the pinned commit sends nothing *)
Lemma reply_count_legacy_refuted_w :
  let c := w_call None w_bar None [] true in
  let beh := fun _ : invocation => ORaise w_exn_nul in
  wf_call c /\ wf_exports w_exports /\ c_expect c = true /\
  handle_legacy w_exports beh c = HDone [] [mkInv w_f3 [] None] None /\
  handle w_exports beh c =
    HDone [mkReply (KError (n_python_exception ++ [69])) 7 (Some w_sender) s_sig (BText [97; 92; 48; 98])]
          [mkInv w_f3 [] None] None.
Proof.
  cbn zeta. destruct wf_witness as [H1 H2]. split; [exact H2|]. split; [exact H1|].
  split; [reflexivity|]. split; vm_compute; reflexivity.
Qed.

(* D04: the same call flagged no-reply, as wire bytes: parsed by the pinned
   commit it is answered; parsed by the current code it is not *)
Lemma noreply_legacy_refuted_w :
  let beh := fun _ : invocation => OValue PNone in
  (exists c, parse_call false w_raw_noreply = Ok (Some c) /\ wf_call c /\ c_expect c = false /\
             handle w_exports beh c = HDone [] [mkInv w_f3 [] None] None) /\
  (exists c, parse_call true w_raw_noreply = Ok (Some c) /\
             handle w_exports beh c =
               HDone [mkReply KReturn 7 (Some w_sender) [] (BBytes [])] [mkInv w_f3 [] None] None).
Proof.
  cbn zeta. split; eexists; (split; [vm_compute; reflexivity|]); repeat split; vm_compute; reflexivity.
Qed.

(* non-vacuity: one object, Foo on two interfaces with both binding styles *)
Lemma nonvacuous_w :
  let ex := w_exports in
  let val := fun _ : invocation => OValue (PInt 5) in
  wf_exports ex /\
  (* with interface header: the decorated function of that interface, the caller name when asked for *)
  handle ex val (w_call (Some w_iface_a) w_foo (Some w_sig_i) [PInt 7] true) =
    HDone [mkReply KReturn 7 (Some w_sender) w_sig_i (BBytes [5; 0; 0; 0])] [mkInv w_f1 [PInt 7] None] None /\
  invocations (handle ex val (w_call (Some w_iface_b) w_foo (Some w_sig_s) [PStr [113]] true)) =
    [mkInv w_f2 [PStr [113]] (Some (Some w_sender))] /\
  (* without: the first interface having the member; its signature decides *)
  invocations (handle ex val (w_call None w_foo (Some w_sig_i) [PInt 7] true)) = [mkInv w_f1 [PInt 7] None] /\
  handle ex val (w_call None w_foo (Some w_sig_s) [PStr [113]] true) =
    HDone [mkReply (KError n_invalid_args) 7 (Some w_sender) s_sig BOther] [] None /\
  handle ex val (w_call (Some w_iface_b) w_bar None [] true) =
    HDone [mkReply (KError n_unknown_method) 7 (Some w_sender) s_sig BOther] [] None /\
  handle ex val (mkCall [47; 98] None w_bar None [] (Some w_sender) 7 false) =
    HDone [mkReply (KError n_unknown_object) 7 (Some w_sender) s_sig BOther] [] None /\
  (* no-reply: runs, nothing sent; unencodable value: one error reply; Deferred: one reply when it fires *)
  handle ex val (w_call None w_bar None [] false) = HDone [] [mkInv w_f3 [] None] None /\
  handle ex (fun _ => OValue (PStr [120])) (w_call (Some w_iface_a) w_foo (Some w_sig_i) [PInt 7] true) =
    HDone [mkReply KEncodeError 7 (Some w_sender) s_sig BOther] [mkInv w_f1 [PInt 7] None] None /\
  (let h := handle ex (fun _ => ODeferred) (w_call (Some w_iface_a) w_foo (Some w_sig_i) [PInt 7] true) in
   all_replies h (LValue (PInt 5)) = [mkReply KReturn 7 (Some w_sender) w_sig_i (BBytes [5; 0; 0; 0])] /\
   all_replies h (LFail (mkExn [69] (Some [98; 97; 100]) [119; 104; 121])) =
     [mkReply (KError n_invalid_error_name) 7 (Some w_sender) s_sig
              (BText (t_invalid_pre ++ [98; 97; 100] ++ t_invalid_post ++ [119; 104; 121]))]).
Proof.
  cbn zeta. split; [exact (proj1 wf_witness)|].
  repeat split; vm_compute; reflexivity.
Qed.

(* ------------------------------------------------------------------------------
   the statements of Props/C10.v, over the specification's hypotheses              *)
Lemma caller_known_wf c : caller_known c -> wf_call c.
Proof.
  unfold caller_known, wf_call, dest_ok. destruct (c_sender c) as [s|]; [|reflexivity].
  rewrite validate_bus_grammar. exact (fun H => H).
Qed.

Lemma distinct_interfaces_wf ex : distinct_interfaces ex -> wf_exports ex.
Proof. intros H p o Hin. rewrite <- declared_model. exact (H p o Hin). Qed.

Lemma reply_count_s ex beh c l :
  caller_known c ->
  let h := handle ex beh c in
  (length (all_replies h l) <= 1)%nat /\
  (c_expect c = true -> length (all_replies h l) = 1%nat) /\
  (c_expect c = false -> invocations h <> [] -> all_replies h l = []) /\
  (length (invocations h) <= 1)%nat.
Proof. intros H. apply reply_count. apply caller_known_wf. exact H. Qed.

Lemma replies_addressed_s ex beh c l r :
  caller_known c -> In r (all_replies (handle ex beh c) l) ->
  r_dest r = c_sender c /\ r_serial r = c_serial c.
Proof. intros H. apply replies_addressed. apply caller_known_wf. exact H. Qed.

Lemma no_escape_s ex beh c : caller_known c -> exists rs invs p, handle ex beh c = HDone rs invs p.
Proof. intros H. apply no_escape. apply caller_known_wf. exact H. Qed.

Lemma builtin_answered_s ex beh c :
  caller_known c -> builtin c = true ->
  exists r, handle ex beh c = HDone [r] [] None /\ r_dest r = c_sender c /\ r_serial r = c_serial c.
Proof.
  intros H Hb. destruct (builtin_answered ex beh c (caller_known_wf c H) Hb) as [r Hr].
  exists r. split; [exact Hr|].
  apply (replies_addressed_s ex beh c (LValue PNone) r H). rewrite Hr. left. reflexivity.
Qed.

Lemma invoked_iff_s ex beh c :
  caller_known c -> distinct_interfaces ex -> builtin c = false ->
  let h := handle ex beh c in
  match addressed ex c with
  | TNoObject =>
      h = HDone [mkReply (KError e_unknown_object) (c_serial c) (c_sender c) s_sig BOther] [] None
  | TNoMethod =>
      h = HDone [mkReply (KError e_unknown_method) (c_serial c) (c_sender c) s_sig BOther] [] None
  | TBadArgs =>
      h = HDone [mkReply (KError e_invalid_args) (c_serial c) (c_sender c) s_sig BOther] [] None
  | TMethod o i m =>
      (candidates o (i_name i) (c_member c) = [] -> invocations h = []) /\
      (candidates o (i_name i) (c_member c) <> [] ->
       exists f, In f (candidates o (i_name i) (c_member c)) /\
                 invocations h = [expected_invocation c f])
  end.
Proof.
  intros H1 H2. apply invoked_iff; [apply caller_known_wf | apply distinct_interfaces_wf]; assumption.
Qed.

Lemma invoked_exactly_when_s ex beh c :
  caller_known c -> distinct_interfaces ex -> builtin c = false ->
  (invocations (handle ex beh c) <> [] <->
   exists o i m, addressed ex c = TMethod o i m /\ candidates o (i_name i) (c_member c) <> []).
Proof.
  intros H1 H2. apply invoked_exactly_when; [apply caller_known_wf | apply distinct_interfaces_wf]; assumption.
Qed.

Lemma result_mapping_s ex beh c o i m inv l :
  caller_known c -> distinct_interfaces ex -> builtin c = false ->
  addressed ex c = TMethod o i m ->
  invocations (handle ex beh c) = [inv] ->
  c_expect c = true ->
  exists r, all_replies (handle ex beh c) l = [r] /\
    match final_of (beh inv) (Some l) with
    | FValue v =>
        (forall vals b, returned_values (m_nret m) v = Some vals -> encode_out (m_out m) vals = Ok b ->
                        r = mkReply KReturn (c_serial c) (c_sender c) (m_out m) (BBytes b)) /\
        (forall vals e, returned_values (m_nret m) v = Some vals -> encode_out (m_out m) vals = Err e ->
                        is_error r = true)
    | FRaise e =>
        r_kind r = KError (error_name_of e) /\
        exists t, r_body r = BText t /\ r_sig r = [115] /\
                  (dbus_string (x_text e) = true ->
                   if name_is_valid e then t = x_text e else ends_with (x_text e) t = true)
    | FOpen => False
    end.
Proof.
  intros H1 H2 Hb Ht Hinv He.
  pose proof (caller_known_wf c H1) as Hd. pose proof (distinct_interfaces_wf ex H2) as Hwf.
  rewrite (result_mapping ex beh c o i m inv l Hd Hwf Hb Ht Hinv He).
  assert (Hnotopen : final_of (beh inv) (Some l) <> FOpen).
  { destruct (beh inv); [discriminate | discriminate | destruct l; discriminate]. }
  destruct (final_of (beh inv) (Some l)) as [v|e|]; [| |contradiction].
  - unfold value_replies.
    destruct (encode_out (m_out m) (wrap_result (m_nret m) v)) as [b|e] eqn:Ee;
      eexists; (split; [reflexivity|]); split; intros vals x Hr Hx;
      rewrite (returned_values_wrap _ _ _ Hr) in Ee; rewrite Ee in Hx; inversion Hx; subst; reflexivity.
  - eexists. split; [reflexivity|]. cbn [r_kind r_body r_sig]. split; [reflexivity|].
    exists (sanitize (err_text e)). split; [reflexivity|]. split; [reflexivity|].
    intros Hs. destruct (error_text_mapping e) as [Hv [Hends _]].
    destruct (name_is_valid e) eqn:En.
    + rewrite (Hv eq_refl). apply sanitize_id. exact Hs.
    + unfold err_text. destruct (validate_error (raw_name e)).
      * rewrite (sanitize_id _ Hs). apply ends_with_refl.
      * rewrite !sanitize_app, (sanitize_id _ Hs), !app_assoc. apply ends_with_app.
Qed.

Lemma oracle_sound_s ex c out l :
  caller_known c -> distinct_interfaces ex -> judge ex c out l (observe ex c out l) = VOk.
Proof.
  intros H1 H2. apply oracle_sound; [apply caller_known_wf | apply distinct_interfaces_wf]; assumption.
Qed.

Lemma witness_hyps :
  distinct_interfaces w_exports /\ caller_known (w_call None w_bar None [] true).
Proof.
  split; [|vm_compute; reflexivity].
  intros p o [H|[]]. inversion H; subst. cbn.
  repeat constructor; cbn; intuition discriminate.
Qed.

(* the names the dispatcher of the tree under test puts on its error replies
   (probed by tools/gen_tables_C10.py on every run) are the model's, which are
   the specification's *)
Lemma names_generated :
  Generated.dispatch_error_names =
  Some [e_unknown_object; e_unknown_method; e_invalid_args; e_python_exception; e_invalid_error_name] /\
  [e_unknown_object; e_unknown_method; e_invalid_args; e_python_exception; e_invalid_error_name] =
  [n_unknown_object; n_unknown_method; n_invalid_args; n_python_exception; n_invalid_error_name].
Proof. split; reflexivity. Qed.

(* ------------------------------------------------------------------------------
   calls are handled independently of the calls before them                       *)
Lemma calls_independent ex before c beh after :
  nth_error (handle_all ex (before ++ (c, beh) :: after)) (length before) = Some (handle ex beh c).
Proof.
  induction before as [|[c0 b0] before IH]; [reflexivity|].
  cbn [app handle_all length nth_error]. exact IH.
Qed.
