(* Bridge between the two models of BasicDBusProtocol.dataReceived's line mode:

     Model/AuthServer.v  recv / process / feed   (C06: server side, BusAuthenticator
                                                  built in, outputs = what is written,
                                                  mechanism verdicts, Close, Authenticated)
     Model/Framing.v     recv / line_loop        (C04: any authenticator [astep], either
                                                  side, events = Line l (handleAuthMessage(l)
                                                  was called), AuthOk, Msg, Close, Crash)

   (1) [bus_astep] is the instance of Framing's authenticator parameter that is the
       BusAuthenticator model: state = the [auth M] record, one step = [handle] on one
       complete line, result = AContinue / ADone (authenticationSucceeded() is now
       true) / AFail (DBusAuthenticationFailed) / ACrash (another exception).
   (2) Framing's events do not contain what the authenticator writes (it is a function
       of the lines handed to it).  [replay] reconstructs it: it runs [handle] again
       over the [Line] events and maps AuthOk -> OAuthd, Close -> OClose,
       Crash -> OCrash, Msg/Fuel -> nothing (after authentication C06 observes nothing).
       Refinement [bridge]: for EVERY sequence of reads,
         AuthServer.run_reads reads = replay (events of Framing.run bus_astep MAX_AUTH false reads).
       No side condition: an empty first read is OCrash in one model and Crash in the
       other; Framing's transport stops delivering after Close/Crash where
       AuthServer keeps delivering to a connection that ignores everything.
       Needed of the repair flags: only fx32 (the D32 bound on the unfinished line),
       which Framing's current model has built in.
   (3) [cut_independent]: with C04's partition theorem (FramingProofs.any_two_partitions,
       stated as Props/C04.v C04_any_two_partitions), two partitions of the same byte
       stream give the same outputs. *)
From Tx Require Import Lib.Base Model.AuthText Model.AuthServer.
From Tx Require Model.Marshal Model.Framing Spec.FramingSpec Proofs.FramingProofs.
Local Open Scope N_scope.

(* the two files define s.split(b'\r\n') separately *)
Lemma cons_head_same x l : AuthText.cons_head x l = Framing.cons_head x l.
Proof. destruct l; reflexivity. Qed.

Lemma split_crlf_same_aux s :
  AuthText.split_crlf s = Framing.split_crlf s /\
  forall x, AuthText.split_crlf (x :: s) = Framing.split_crlf (x :: s).
Proof.
  induction s as [|y t [IH1 IH2]].
  - split; [reflexivity|intros x; reflexivity].
  - split; [apply IH2|].
    intros x.
    change (AuthText.split_crlf (x :: y :: t)) with
      (if (x =? 13) && (y =? 10) then [] :: AuthText.split_crlf t
       else AuthText.cons_head x (AuthText.split_crlf (y :: t))).
    change (Framing.split_crlf (x :: y :: t)) with
      (if (x =? 13) && (y =? 10) then [] :: Framing.split_crlf t
       else Framing.cons_head x (Framing.split_crlf (y :: t))).
    destruct ((x =? 13) && (y =? 10)).
    + rewrite IH1. reflexivity.
    + rewrite (IH2 y), cons_head_same. reflexivity.
Qed.

Lemma split_crlf_same s : AuthText.split_crlf s = Framing.split_crlf s.
Proof. apply split_crlf_same_aux. Qed.

Definition quiet (e : Framing.event) : Prop :=
  match e with Framing.Msg _ | Framing.Fuel => True | _ => False end.

Lemma bin_loop_quiet : forall fuel buf next big,
  Forall quiet (snd (Framing.bin_loop fuel buf next big)).
Proof.
  induction fuel as [|f IH]; intros buf next big; cbn [Framing.bin_loop].
  - repeat constructor.
  - destruct ((next =? 0) && Framing.has_bytes buf 16).
    + destruct (Framing.next_msg_len buf =? 0); [constructor|].
      destruct (Framing.take_N buf (Framing.next_msg_len buf)) as [[raw rest]|]; [|constructor].
      specialize (IH rest 0 (Framing.is_big buf)).
      destruct (Framing.bin_loop f rest 0 (Framing.is_big buf)) as [r evs]. cbn in *.
      constructor; [exact I|exact IH].
    + destruct (next =? 0); [constructor|].
      destruct (Framing.take_N buf next) as [[raw rest]|]; [|constructor].
      specialize (IH rest 0 big).
      destruct (Framing.bin_loop f rest 0 big) as [r evs]. cbn in *.
      constructor; [exact I|exact IH].
Qed.

Section Bridge.
  Context {M : Type}.
  Variable F : fixes.
  Variable I : mech_if M.
  Variable mechs : list bytes.
  Variable guid : bytes.
  Hypothesis HF : fx32 F = true.

  Notation handle := (AuthServer.handle F I mechs guid).
  Notation feed := (AuthServer.feed F I mechs guid).
  Notation feed_all := (AuthServer.feed_all F I mechs guid).
  Notation process := (AuthServer.process F I mechs guid).
  Notation recv := (AuthServer.recv F I mechs guid).
  Notation recv_all := (AuthServer.recv_all F I mechs guid).

  (* (1) the BusAuthenticator model as Framing's authenticator *)
  Definition bus_astep (a : auth M) (line : bytes) : auth M * Framing.ares :=
    let '(a', _, x) := handle a line in
    (a', match x with
         | XNormal => if a_authd a' then Framing.ADone else Framing.AContinue
         | XFailed => Framing.AFail
         | XCrashed => Framing.ACrash
         end).

  Notation fst_ := (Framing.st (auth M)).
  Notation line_loop := (Framing.line_loop bus_astep MAX_AUTH).
  Notation frecv := (Framing.recv bus_astep MAX_AUTH).
  Notation run_st := (Framing.run_st bus_astep MAX_AUTH).

  (* (2) what the bus wrote and did, recovered from Framing's events *)
  Fixpoint replay (a : auth M) (evs : list Framing.event) : auth M * list out :=
    match evs with
    | [] => (a, [])
    | Framing.Line l :: r =>
        let '(a', es, _) := handle a l in
        let (a2, o) := replay a' r in (a2, map ev_out es ++ o)
    | Framing.AuthOk :: r => let (a2, o) := replay a r in (a2, OAuthd :: o)
    | Framing.Close :: r => let (a2, o) := replay a r in (a2, OClose :: o)
    | Framing.Crash :: r => let (a2, o) := replay a r in (a2, OCrash :: o)
    | Framing.Msg _ :: r => replay a r
    | Framing.Fuel :: r => replay a r
    end.

  Lemma replay_quiet a evs : Forall quiet evs -> replay a evs = (a, []).
  Proof.
    induction 1 as [|e r He Hr IH]; [reflexivity|].
    destruct e; try destruct He; cbn [replay]; exact IH.
  Qed.

  Lemma replay_app a e1 e2 :
    replay a (e1 ++ e2) =
    let (a1, o1) := replay a e1 in let (a2, o2) := replay a1 e2 in (a2, o1 ++ o2).
  Proof.
    revert a. induction e1 as [|e r IH]; intros a; cbn [app replay].
    - destruct (replay a e2); reflexivity.
    - destruct e; cbn [replay].
      + destruct (handle a l) as [[a' es] x]. rewrite IH.
        destruct (replay a' r) as [a1 o1]. destruct (replay a1 e2) as [a2 o2].
        rewrite app_assoc. reflexivity.
      + rewrite IH. destruct (replay a r) as [a1 o1]. destruct (replay a1 e2); reflexivity.
      + apply IH.
      + rewrite IH. destruct (replay a r) as [a1 o1]. destruct (replay a1 e2); reflexivity.
      + rewrite IH. destruct (replay a r) as [a1 o1]. destruct (replay a1 e2); reflexivity.
      + apply IH.
  Qed.

  (* ----- state correspondence ------------------------------------------------ *)
  Definition live_rel (c : conn) (s : fst_) : Prop :=
    Framing.s_authed s = false /\ Framing.s_closed s = false /\
    Framing.s_client s = false /\ Framing.s_first s = c_first c /\
    Framing.s_buf s = c_buf c /\ Framing.s_auth s = c_auth c.

  Definition rel (c : conn) (s : fst_) : Prop :=
    match c_mode c with
    | Live => live_rel c s
    | Closed | Dead => Framing.s_closed s = true
    | Authd => Framing.s_authed s = true /\ Framing.s_closed s = false
    end.

  (* the check after the loop ("for ... else") *)
  Definition tail_check (c : conn (M:=M)) : conn * list out :=
    match c_mode c with
    | Live =>
        if buf_limit F <? N.of_nat (length (c_buf c))
        then (with_mode c Closed (c_auth c), [OClose])
        else (c, [])
    | _ => (c, [])
    end.

  Lemma process_tail c d :
    process c d =
    let ls := AuthText.split_crlf (c_buf c ++ d) in
    let c1 := {| c_mode := c_mode c; c_first := c_first c; c_buf := last ls []; c_auth := c_auth c |} in
    let (c2, outs) := feed_all c1 (removelast ls) in
    let (c3, o3) := tail_check c2 in (c3, outs ++ o3).
  Proof.
    unfold AuthServer.process, tail_check. cbn zeta.
    destruct (feed_all _ _) as [c2 outs].
    destruct (c_mode c2); try (rewrite app_nil_r; reflexivity).
    destruct (buf_limit F <? _); [reflexivity|rewrite app_nil_r; reflexivity].
  Qed.

  Lemma feed_keeps c l :
    c_buf (fst (feed c l)) = c_buf c /\ c_first (fst (feed c l)) = c_first c.
  Proof.
    unfold AuthServer.feed. destruct (c_mode c); try (split; reflexivity).
    destruct (MAX_AUTH <? _); [split; reflexivity|].
    destruct (handle (c_auth c) l) as [[a evs] x].
    destruct x; [destruct (a_authd a)| |]; split; reflexivity.
  Qed.

  Lemma feed_all_not_live lines : forall c, c_mode c <> Live -> feed_all c lines = (c, []).
  Proof.
    induction lines as [|l r IH]; intros c Hc; [reflexivity|]. cbn.
    assert (E : feed c l = (c, [])) by (unfold AuthServer.feed; destruct (c_mode c); congruence).
    rewrite E, (IH c Hc). reflexivity.
  Qed.

  Lemma recv_all_not_live reads : forall c, c_mode c <> Live -> recv_all c reads = (c, []).
  Proof.
    induction reads as [|d r IH]; intros c Hc; [reflexivity|]. cbn.
    assert (E : recv c d = (c, [])) by (unfold AuthServer.recv; destruct (c_mode c); congruence).
    rewrite E, (IH c Hc). reflexivity.
  Qed.

  Lemma closed_loop lines : forall s : fst_,
    Framing.s_closed s = true ->
    snd (line_loop s lines) = [] /\ Framing.s_closed (fst (line_loop s lines)) = true.
  Proof.
    destruct lines as [|l r]; intros s Hs; cbn [Framing.line_loop].
    - destruct (MAX_AUTH + 1 <? _).
      + unfold Framing.lose. rewrite Hs. split; reflexivity.
      + split; [reflexivity|exact Hs].
    - rewrite Hs. split; [reflexivity|exact Hs].
  Qed.

  Lemma len_is l : Marshal.len l = N.of_nat (length l).
  Proof. reflexivity. Qed.

  (* the loop over the complete lines of one read, and the check after it *)
  Lemma loop_sim lines : forall c (s : fst_),
    c_mode c = Live -> live_rel c s ->
    let c2 := fst (feed_all c lines) in
    let c3 := fst (tail_check c2) in
    rel c3 (fst (line_loop s lines)) /\
    snd (replay (c_auth c) (snd (line_loop s lines))) = snd (feed_all c lines) ++ snd (tail_check c2) /\
    (c_mode c3 = Live -> fst (replay (c_auth c) (snd (line_loop s lines))) = c_auth c3).
  Proof.
    induction lines as [|l r IH]; intros c s Hl Hr; pose proof Hr as (Ha & Hc & Hcl & Hf & Hb & Hau).
    - cbn [AuthServer.feed_all fst snd Framing.line_loop app]. unfold tail_check. rewrite Hl.
      unfold buf_limit. rewrite HF. rewrite Hb, len_is.
      destruct (MAX_AUTH + 1 <? N.of_nat (length (c_buf c))).
      + unfold Framing.lose. rewrite Hc. cbn. unfold rel; cbn. split; [reflexivity|].
        split; [reflexivity|intros X; discriminate].
      + cbn. unfold rel. rewrite Hl. split; [exact Hr|]. split; reflexivity.
    - cbn [AuthServer.feed_all Framing.line_loop]. rewrite Hc, len_is.
      destruct (feed c l) as [c1 o1] eqn:Ef. unfold AuthServer.feed in Ef. rewrite Hl in Ef.
      destruct (MAX_AUTH <? N.of_nat (length l)).
      { (* line too long *)
        inversion Ef; subst c1 o1.
        rewrite feed_all_not_live by (cbn; congruence).
        unfold Framing.lose. rewrite Hc. cbn. unfold rel; cbn.
        split; [reflexivity|]. split; [reflexivity|intros X; discriminate]. }
      destruct (handle (c_auth c) l) as [[a' evs] x] eqn:Eh.
      assert (Hstep : bus_astep (Framing.s_auth s) l =
                      (a', match x with
                           | XNormal => if a_authd a' then Framing.ADone else Framing.AContinue
                           | XFailed => Framing.AFail
                           | XCrashed => Framing.ACrash
                           end))
        by (unfold bus_astep; rewrite Hau, Eh; reflexivity).
      rewrite Hstep. clear Hstep.
      destruct x.
      + destruct (a_authd a') eqn:Ead.
        * (* authenticated now *)
          inversion Ef; subst c1 o1.
          rewrite feed_all_not_live by (cbn; congruence).
          unfold Framing.bin_process.
          match goal with |- context [Framing.bin_loop ?f ?b ?n ?g] =>
            pose proof (bin_loop_quiet f b n g) as Hq;
            destruct (Framing.bin_loop f b n g) as [[[b3 n3] big3] evs3] end.
          cbn [snd] in Hq. cbn [fst snd replay]. rewrite Eh.
          rewrite (replay_quiet a' evs3 Hq). cbn [fst snd].
          unfold tail_check, rel. cbn. rewrite ?Hc.
          repeat split; rewrite ?app_nil_r; try reflexivity; try assumption; try (intros X; discriminate X).
        * (* the loop goes on *)
          inversion Ef; subst c1 o1.
          set (c1 := with_mode c Live a').
          set (s1 := Framing.set_auth s a').
          assert (Hr1 : live_rel c1 s1) by (unfold live_rel, c1, s1; cbn; repeat split; assumption).
          destruct (IH c1 s1 eq_refl Hr1) as (R1 & R2 & R3).
          destruct (line_loop s1 r) as [s2 e2]. destruct (feed_all c1 r) as [c2 o2].
          cbn [fst snd] in *. cbn [replay]. rewrite Eh.
          change (c_auth c1) with a' in R2, R3.
          destruct (replay a' e2) as [a2 oo]. cbn [fst snd] in *.
          split; [exact R1|]. split; [rewrite R2, app_assoc; reflexivity|exact R3].
      + (* DBusAuthenticationFailed: loseConnection, the rest of the read is skipped *)
        inversion Ef; subst c1 o1.
        rewrite feed_all_not_live by (cbn; congruence).
        unfold Framing.lose. cbn [Framing.s_closed Framing.set_auth]. rewrite Hc.
        match goal with |- context [line_loop ?s2 r] =>
          destruct (closed_loop r s2 eq_refl) as [E1 E2]; destruct (line_loop s2 r) as [s3 e3] end.
        cbn [fst snd] in *. subst e3. cbn [replay app]. rewrite Eh. cbn [fst snd].
        unfold tail_check, rel. cbn.
        repeat split; rewrite ?app_nil_r; try reflexivity; try assumption; try (intros X; discriminate X).
      + (* another exception *)
        inversion Ef; subst c1 o1.
        rewrite feed_all_not_live by (cbn; congruence).
        cbn [fst snd replay]. rewrite Eh. cbn [fst snd].
        unfold tail_check, rel. cbn.
        repeat split; rewrite ?app_nil_r; try reflexivity; try assumption; try (intros X; discriminate X).
  Qed.

  Lemma feed_all_keeps lines : forall c,
    c_buf (fst (feed_all c lines)) = c_buf c /\ c_first (fst (feed_all c lines)) = c_first c.
  Proof.
    induction lines as [|l r IH]; intros c; [split; reflexivity|]. cbn.
    destruct (feed_keeps c l) as [K1 K2]. destruct (feed c l) as [c1 o1]. cbn in K1, K2.
    destruct (IH c1) as [J1 J2]. destruct (feed_all c1 r) as [c2 o2]. cbn in *.
    split; congruence.
  Qed.

  (* one read on a connection that is still in line mode *)
  Lemma line_process_sim c (s : fst_) d :
    c_mode c = Live -> live_rel c s ->
    rel (fst (process c d)) (fst (Framing.line_process bus_astep MAX_AUTH s d)) /\
    snd (replay (c_auth c) (snd (Framing.line_process bus_astep MAX_AUTH s d))) = snd (process c d) /\
    (c_mode (fst (process c d)) = Live ->
     fst (replay (c_auth c) (snd (Framing.line_process bus_astep MAX_AUTH s d))) = c_auth (fst (process c d))).
  Proof.
    intros Hl Hr. pose proof Hr as (Ha & Hc & Hcl & Hf & Hb & Hau).
    rewrite process_tail. unfold Framing.line_process. cbn zeta.
    rewrite Hb. rewrite <- (split_crlf_same (c_buf c ++ d)).
    set (ls := AuthText.split_crlf (c_buf c ++ d)).
    set (c1 := {| c_mode := c_mode c; c_first := c_first c; c_buf := last ls []; c_auth := c_auth c |}).
    set (s1 := Framing.set_buf s (last ls [])).
    assert (Hl1 : c_mode c1 = Live) by exact Hl.
    assert (Hr1 : live_rel c1 s1) by (unfold live_rel, c1, s1; cbn; repeat split; assumption).
    destruct (loop_sim (removelast ls) c1 s1 Hl1 Hr1) as (R1 & R2 & R3).
    destruct (feed_all c1 (removelast ls)) as [c2 outs]. cbn [fst snd] in *.
    destruct (tail_check c2) as [c3 o3]. cbn [fst snd] in *.
    change (c_auth c1) with (c_auth c) in R2, R3.
    split; [exact R1|]. split; [exact R2|exact R3].
  Qed.

  Lemma recv_sim c (s : fst_) d :
    c_mode c = Live -> live_rel c s ->
    rel (fst (recv c d)) (fst (frecv s d)) /\
    snd (replay (c_auth c) (snd (frecv s d))) = snd (recv c d) /\
    (c_mode (fst (recv c d)) = Live ->
     fst (replay (c_auth c) (snd (frecv s d))) = c_auth (fst (recv c d))).
  Proof.
    intros Hl Hr. pose proof Hr as (Ha & Hc & Hcl & Hf & Hb & Hau).
    unfold AuthServer.recv, Framing.recv. rewrite Hl, Ha, Hcl, Hf. cbn [negb andb].
    destruct (c_first c) eqn:Efirst.
    - destruct d as [|b d'].
      + cbn. unfold rel; cbn. split; [reflexivity|]. split; [reflexivity|intros X; discriminate].
      + destruct (b =? 0); cbn [negb].
        * set (c0 := {| c_mode := Live; c_first := false; c_buf := c_buf c; c_auth := c_auth c |}).
          apply (line_process_sim c0 (Framing.set_first_done s) d' eq_refl).
          unfold live_rel, c0; cbn. repeat split; assumption.
        * unfold Framing.lose. rewrite Hc. cbn. unfold rel; cbn.
          split; [reflexivity|]. split; [reflexivity|intros X; discriminate].
    - apply line_process_sim; assumption.
  Qed.

  Lemma bin_process_keeps (s : fst_) :
    Framing.s_authed (fst (Framing.bin_process s)) = Framing.s_authed s /\
    Framing.s_closed (fst (Framing.bin_process s)) = Framing.s_closed s /\
    Forall quiet (snd (Framing.bin_process s)).
  Proof.
    unfold Framing.bin_process.
    match goal with |- context [Framing.bin_loop ?f ?b ?n ?g] =>
      pose proof (bin_loop_quiet f b n g) as Hq;
      destruct (Framing.bin_loop f b n g) as [[[b3 n3] big3] evs3] end.
    cbn in *. repeat split; try reflexivity. exact Hq.
  Qed.

  Lemma run_sim reads : forall c (s : fst_) a0,
    rel c s -> (c_mode c = Live -> a0 = c_auth c) ->
    snd (replay a0 (snd (run_st s reads))) = snd (recv_all c reads).
  Proof.
    induction reads as [|d r IH]; intros c s a0 Hr Ha0; [reflexivity|].
    cbn [Framing.run_st AuthServer.recv_all].
    unfold rel in Hr. destruct (c_mode c) eqn:Em.
    - (* line mode *)
      pose proof Hr as (_ & Hc & _). rewrite Hc. rewrite (Ha0 eq_refl).
      destruct (recv_sim c s d Em Hr) as (R1 & R2 & R3).
      destruct (frecv s d) as [s1 e1]. destruct (recv c d) as [c1 o1]. cbn [fst snd] in *.
      specialize (IH c1 s1).
      destruct (run_st s1 r) as [s2 e2]. destruct (recv_all c1 r) as [c2 o2]. cbn [fst snd] in *.
      rewrite replay_app. destruct (replay (c_auth c) e1) as [a1 oo1]. cbn [fst snd] in *.
      specialize (IH a1 R1 R3). destruct (replay a1 e2) as [a2 oo2]. cbn [fst snd] in *.
      congruence.
    - rewrite Hr.
      assert (E : recv c d = (c, [])) by (unfold AuthServer.recv; rewrite Em; reflexivity).
      rewrite E. rewrite recv_all_not_live by congruence. reflexivity.
    - (* binary mode: messages only *)
      destruct Hr as [Hau Hcl]. rewrite Hcl.
      assert (E : recv c d = (c, [])) by (unfold AuthServer.recv; rewrite Em; reflexivity).
      rewrite E. rewrite recv_all_not_live by congruence. cbn [snd app].
      unfold Framing.recv. rewrite Hau.
      destruct (bin_process_keeps (Framing.set_buf s (Framing.s_buf s ++ d))) as (K1 & K2 & K3).
      destruct (Framing.bin_process (Framing.set_buf s (Framing.s_buf s ++ d))) as [s1 e1].
      cbn [fst snd] in *.
      assert (Hr1 : rel c s1) by (unfold rel; rewrite Em; split; [rewrite K1; exact Hau|rewrite K2; exact Hcl]).
      assert (Ha0' : c_mode c = Live -> a0 = c_auth c) by (intros X; congruence).
      specialize (IH c s1 a0 Hr1 Ha0'). rewrite recv_all_not_live in IH by congruence.
      destruct (run_st s1 r) as [s2 e2]. cbn [fst snd] in *.
      rewrite replay_app, (replay_quiet a0 e1 K3).
      destruct (replay a0 e2) as [a2 oo2]. cbn [fst snd] in *. exact IH.
    - rewrite Hr.
      assert (E : recv c d = (c, [])) by (unfold AuthServer.recv; rewrite Em; reflexivity).
      rewrite E. rewrite recv_all_not_live by congruence. reflexivity.
  Qed.

  (* the events of Framing's run, as C06's outputs *)
  Definition replay_run (w : M) (r : list Framing.event * option bytes) : list out :=
    snd (replay (init_auth w) (fst r)).

  Theorem bridge (w : M) (reads : list bytes) :
    run_reads F I mechs guid w reads =
    replay_run w (Framing.run bus_astep MAX_AUTH false (init_auth w) reads).
  Proof.
    unfold run_reads, replay_run, Framing.run.
    pose proof (run_sim reads (init_conn w) (Framing.init false (init_auth w)) (init_auth w)) as H.
    destruct (run_st (Framing.init false (init_auth w)) reads) as [s evs]. cbn [fst snd] in *.
    symmetry. apply H.
    - unfold rel, live_rel; cbn. repeat split; reflexivity.
    - intros _; reflexivity.
  Qed.

  (* (3) *)
  Theorem cut_independent (w : M) (reads1 reads2 : list bytes) :
    FramingSpec.first_read_nonempty reads1 -> FramingSpec.first_read_nonempty reads2 ->
    concat reads1 = concat reads2 ->
    run_reads F I mechs guid w reads1 = run_reads F I mechs guid w reads2.
  Proof.
    intros H1 H2 E. rewrite !bridge.
    rewrite (FramingProofs.any_two_partitions bus_astep MAX_AUTH false (init_auth w) reads1 reads2);
      [reflexivity|right; split; assumption|exact E].
  Qed.

  (* in particular: any partition behaves as the whole stream in one read *)
  Corollary as_one_read (w : M) (reads : list bytes) :
    FramingSpec.first_read_nonempty reads -> concat reads <> [] ->
    run_reads F I mechs guid w reads = run_reads F I mechs guid w [concat reads].
  Proof.
    intros H1 Hne. apply cut_independent; [exact H1|exact Hne|].
    cbn. rewrite app_nil_r. reflexivity.
  Qed.
End Bridge.

(* ----- an instance: a handshake with a line of exactly MAX_AUTH_LENGTH bytes ------ *)
Definition ex_long : bytes := [70; 79; 79; 32] ++ repeat_n 120 (N.to_nat 16380).   (* "FOO xxx...": 16384 bytes *)
Definition ex_head : bytes := 0 :: sp w_AUTH n_ANONYMOUS ++ [13; 10].
Definition ex_stream : bytes := ex_head ++ ex_long ++ [13; 10] ++ w_BEGIN ++ [13; 10].
(* the first line one byte per read, then a cut between the long line's \r and \n *)
Definition ex_cut : list bytes :=
  map (fun b => [b]) ex_head ++ [ex_long ++ [13]; 10 :: w_BEGIN ++ [13; 10]].
Definition before_D32 : fixes :=
  {| fx09 := true; fx10a := true; fx10b := true; fx11 := true; fx32 := false |}.

Lemma ex_cut_facts :
  FramingSpec.first_read_nonempty ex_cut /\ concat ex_cut = ex_stream /\
  N.of_nat (length ex_long) = MAX_AUTH /\ length ex_cut = 19%nat /\
  let want := [OMech n_ANONYMOUS VOk; OLine (sp w_OK [103]); OLine l_ERROR_unknown; OAuthd] in
  run_reads current oracle_if [n_ANONYMOUS] [103] [VOk] [ex_stream] = want /\
  run_reads current oracle_if [n_ANONYMOUS] [103] [VOk] ex_cut = want /\
  run_reads before_D32 oracle_if [n_ANONYMOUS] [103] [VOk] [ex_stream] = want /\
  run_reads before_D32 oracle_if [n_ANONYMOUS] [103] [VOk] ex_cut =
    [OMech n_ANONYMOUS VOk; OLine (sp w_OK [103]); OClose].
Proof.
  split; [discriminate|]. vm_compute. repeat split; reflexivity.
Qed.

(* ----- with Part B of AuthProofs: conformance for every partition ------------------ *)
From Tx Require Import Spec.AuthSpec Proofs.AuthProofs.

Theorem follows_spec_any_partition (mechs : list bytes) (guid : bytes) (sc : list verdict)
        (reads : list bytes) :
  FramingSpec.first_read_nonempty reads -> concat reads <> [] ->
  Forall well_typed sc ->
  Forall ascii_command (removelast (AuthText.split_crlf (tl (concat reads)))) ->
  map abs_out (run_reads current oracle_if mechs guid sc reads) =
  spec_stream mechs guid false 5%nat 16384 sc (concat reads).
Proof.
  intros H1 Hne Hw Ha.
  rewrite (as_one_read current oracle_if mechs guid eq_refl sc reads H1 Hne).
  apply follows_spec_stream; assumption.
Qed.
