(* Proofs for C11 (Model/System.v, Model/ProxyCall.v, Spec/SystemSpec.v).

   Plan.  Every request and reply in flight, and every open Deferred of an
   exported method, is a TOKEN of the call it belongs to; the call is named by
   (unique name of the caller, serial of the request) - a function [tok_item] /
   [tok_open] of what is in flight, no ghost state.  Each step consumes at most
   one token and produces tokens of the same call only (the bus keeps the
   serial and stamps the true sender: C14; the dispatcher answers to the sender
   with the call's serial: C10), or a token of a NEW call, whose serial is
   beyond everything the process has handed out.  Hence (global invariant
   [Inv]) the tokens in the system are pairwise distinct, and each is below
   the counter of its caller's process.

   For one fixed call the invariant [Track] says where its token is (request on
   the caller's link / on the exporter's link / open Deferred / reply on the
   exporter's link / on the caller's link) or that it has completed, with the
   exporter's invocation and result records and the caller's completion
   record as they must be at that stage.  A quiescent state holds no token, so
   the call has completed. *)
From Tx Require Import Lib.Base Model.PyVal Model.Validators Model.Marshal Model.BusNames Model.ProxyCall Model.System.
From Tx Require Import Spec.WireSpec Spec.Readback Spec.Conforms Spec.WireTyped Spec.SystemSpec.
From Tx Require Model.Calls Model.BusRoute Model.Dispatch Model.Introspect Model.Router Model.Message.
From Tx Require Spec.DispatchSpec Spec.CallSpec Spec.BusRouteSpec Spec.NameSpec.
From Tx Require Proofs.BusNamesProofs Proofs.BusRouteProofs Proofs.DispatchProofs Proofs.SigProofs
  Proofs.MarshalProofs Proofs.UnmarshalProofs Proofs.CallsProofs.
From Coq Require Import Permutation.
Local Open Scope N_scope.

(* ======================================================================== *)
(* 1. lists                                                                  *)

Lemma take_spec lk l w r :
  take lk l = Some (w, r) -> exists l1 l2, l = l1 ++ (lk, w) :: l2 /\ r = l1 ++ l2.
Proof.
  revert w r. induction l as [|[k x] l IH]; intros w r H; cbn [take] in H; [discriminate|].
  destruct (link_eqb lk k) eqn:E.
  - injection H as <- <-. exists [], l. split; [|reflexivity]. cbn [app].
    assert (lk = k) as ->; [|reflexivity].
    destruct lk, k; cbn [link_eqb] in E; try discriminate; apply N.eqb_eq in E; subst; reflexivity.
  - destruct (take lk l) as [[y r']|] eqn:T; [|discriminate]. injection H as <- <-.
    destruct (IH y r' eq_refl) as (l1 & l2 & -> & ->). exists ((k, x) :: l1), l2. split; reflexivity.
Qed.

Lemma take_open_spec c key l p r :
  take_open c key l = Some (p, r) -> exists l1 l2, l = l1 ++ (c, key, p) :: l2 /\ r = l1 ++ l2.
Proof.
  revert p r. induction l as [|[[c' k] x] l IH]; intros p r H; cbn [take_open] in H; [discriminate|].
  destruct ((c' =? c) && Nat.eqb k key) eqn:E.
  - injection H as <- <-. apply andb_true_iff in E as [E1 E2]. apply N.eqb_eq in E1. apply Nat.eqb_eq in E2.
    subst. exists [], l. split; reflexivity.
  - destruct (take_open c key l) as [[y r']|] eqn:T; [|discriminate]. injection H as <- <-.
    destruct (IH y r' eq_refl) as (l1 & l2 & -> & ->). exists ((c', k, x) :: l1), l2. split; reflexivity.
Qed.

Lemma filter_app_nil {A} (p : A -> bool) l x : p x = false -> filter p (l ++ [x]) = filter p l.
Proof. intro H. rewrite filter_app. cbn [filter]. rewrite H. apply app_nil_r. Qed.

Lemma filter_app_one {A} (p : A -> bool) l x : p x = true -> filter p (l ++ [x]) = filter p l ++ [x].
Proof. intro H. rewrite filter_app. cbn [filter]. rewrite H. reflexivity. Qed.

Lemma filter_none_map {A B} (p : B -> bool) (f : A -> B) l :
  (forall a, In a l -> p (f a) = false) -> filter p (map f l) = [].
Proof.
  induction l as [|a l IH]; intro H; [reflexivity|]. cbn [map filter]. rewrite (H a (or_introl eq_refl)).
  apply IH. intros b Hb. apply H. right. exact Hb.
Qed.

(* association lists keyed by N / nat *)
Lemma aget_set_same {V} k (v : V) l : alist_get N.eqb k (alist_set N.eqb k v l) = Some v.
Proof. apply BusNamesProofs.aget_set_eq. intros; apply N.eqb_eq. Qed.

Lemma aget_set_other {V} k k' (v : V) l : k <> k' -> alist_get N.eqb k' (alist_set N.eqb k v l) = alist_get N.eqb k' l.
Proof. apply BusNamesProofs.aget_set_neq. intros; apply N.eqb_eq. Qed.

Lemma aget_del_other {V} k k' (l : list (N * V)) : k <> k' -> alist_get N.eqb k' (alist_del N.eqb k l) = alist_get N.eqb k' l.
Proof. apply BusNamesProofs.aget_del_neq. intros; apply N.eqb_eq. Qed.

Lemma aget_in {V} k (v : V) l : alist_get N.eqb k l = Some v -> In (k, v) l.
Proof. apply BusNamesProofs.aget_some_in. intros; apply N.eqb_eq. Qed.

Lemma aget_del_same {V} k (l : list (N * V)) : NoDup (map fst l) -> alist_get N.eqb k (alist_del N.eqb k l) = None.
Proof. apply BusNamesProofs.aget_del_eq. intros; apply N.eqb_eq. Qed.

Lemma nat_aget_app {V} k (l : list (nat * V)) x :
  alist_get Nat.eqb k l <> None -> alist_get Nat.eqb k (l ++ [x]) = alist_get Nat.eqb k l.
Proof.
  induction l as [|[k' v] l IH]; cbn [alist_get app]; [congruence|].
  destruct (Nat.eqb k k'); [reflexivity | exact IH].
Qed.

Lemma nat_aget_app_new {V} k (v : V) (l : list (nat * V)) :
  ~ In k (map fst l) -> alist_get Nat.eqb k (l ++ [(k, v)]) = Some v.
Proof.
  induction l as [|[k' v'] l IH]; cbn [alist_get app map fst In]; intro H.
  - rewrite Nat.eqb_refl. reflexivity.
  - destruct (Nat.eqb k k') eqn:E; [apply Nat.eqb_eq in E; subst; exfalso; apply H; left; reflexivity|].
    apply IH. intro X. apply H. right. exact X.
Qed.

Lemma nat_aget_app_other {V} k k' (v : V) (l : list (nat * V)) :
  k <> k' -> alist_get Nat.eqb k (l ++ [(k', v)]) = alist_get Nat.eqb k l.
Proof.
  intro H. induction l as [|[k2 v2] l IH]; cbn [alist_get app].
  - destruct (Nat.eqb k k') eqn:E; [apply Nat.eqb_eq in E; congruence | reflexivity].
  - destruct (Nat.eqb k k2); [reflexivity | exact IH].
Qed.

(* ======================================================================== *)
(* 2. the bus                                                                *)

Definition attached (B : BusRoute.state) (c : client) : Prop :=
  mem c (b_clients (BusRoute.r_bus B)) = true /\ mem c (BusRoute.r_hello B) = true.

(* a message for a peer: one of the four types, addressed, not to the bus *)
Definition routable (m : BusRoute.bmsg) (d : str) : Prop :=
  BusRoute.valid_type m = true /\ BusRoute.g_destination m = Some d /\ d <> [] /\ d <> BusRoute.bus_name.

Definition route (B : BusRoute.state) (d : str) : option client := BusRoute.resolve (BusRoute.r_bus B) d.

Definition forwarded (c : client) (m : BusRoute.bmsg) : BusRoute.bmsg :=
  BusRoute.written (BusRoute.with_sender (unique_name c) m).

Lemma str_eqb_false a b : a <> b -> str_eqb a b = false.
Proof. intro H. destruct (str_eqb a b) eqn:E; [apply str_eqb_spec in E; contradiction | reflexivity]. Qed.

(* an attached client's message for a peer leaves the bus as it is and is written
   once, to the connection the destination denotes (nobody: dropped) *)
Lemma bus_step_unicast B c m d :
  attached B c -> routable m d ->
  BusRoute.step B (BusRoute.ESend c m) =
    (B, BusRoute.mkROut None
          (match route B d with Some o => [(o, BusRoute.DFwd (forwarded c m))] | None => [] end) false).
Proof.
  intros [Hc Hh] (Hv & Hd & Hne & Hnb).
  unfold BusRoute.step, BusRoute.step_with. rewrite Hc, Hv. cbn [negb].
  unfold BusRoute.recv. rewrite Hh. cbn [negb andb].
  unfold BusRoute.remarshal. unfold BusRoute.message_received.
  change (BusRoute.g_destination (BusRoute.with_sender (unique_name c) m)) with (BusRoute.g_destination m).
  change (BusRoute.g_type (BusRoute.with_sender (unique_name c) m)) with (BusRoute.g_type m).
  rewrite Hd. cbn [BusRoute.opt_is]. rewrite (str_eqb_false d BusRoute.bus_name Hnb).
  rewrite andb_false_r. cbn [negb andb orb].
  assert (BusRoute.truthy_s (Some d) = true) as ->. { destruct d; [congruence | reflexivity]. }
  cbn [negb andb orb app]. unfold route, forwarded.
  destruct (BusRoute.resolve (BusRoute.r_bus B) d); cbn [app]; reflexivity.
Qed.

(* what forwarding keeps *)
Lemma forwarded_fields c m :
  BusRoute.valid_type m = true ->
  let m' := forwarded c m in
  BusRoute.g_le m' = BusRoute.g_le m /\ BusRoute.g_type m' = BusRoute.g_type m /\
  BusRoute.g_flags m' = BusRoute.g_flags m /\ BusRoute.g_serial m' = BusRoute.g_serial m /\
  BusRoute.g_destination m' = BusRoute.g_destination m /\ BusRoute.g_signature m' = BusRoute.g_signature m /\
  BusRoute.g_body m' = BusRoute.g_body m /\ BusRoute.g_sender m' = Some (unique_name c).
Proof.
  intro Hv. apply BusRouteProofs.valid_cases in Hv.
  unfold forwarded, BusRoute.written, BusRoute.with_sender, BusRoute.keep, BusRoute.has. cbn.
  destruct Hv as [E|[E|[E|E]]]; rewrite E; cbn; repeat split; reflexivity.
Qed.

Lemma forwarded_call c m :
  BusRoute.g_type m = 1 ->
  let m' := forwarded c m in
  BusRoute.g_path m' = BusRoute.g_path m /\ BusRoute.g_interface m' = BusRoute.g_interface m /\
  BusRoute.g_member m' = BusRoute.g_member m.
Proof.
  intro E. unfold forwarded, BusRoute.written, BusRoute.with_sender, BusRoute.keep, BusRoute.has. cbn.
  rewrite E. cbn. repeat split; reflexivity.
Qed.

Lemma forwarded_reply c m :
  BusRoute.g_type m = 2 \/ BusRoute.g_type m = 3 ->
  let m' := forwarded c m in
  BusRoute.g_reply_serial m' = BusRoute.g_reply_serial m /\
  (BusRoute.g_type m = 3 -> BusRoute.g_error_name m' = BusRoute.g_error_name m).
Proof.
  intro E. unfold forwarded, BusRoute.written, BusRoute.with_sender, BusRoute.keep, BusRoute.has. cbn.
  destruct E as [E|E]; rewrite E; cbn; split; try reflexivity; intro; try discriminate; reflexivity.
Qed.

(* a unique name denotes its connection *)
Lemma route_unique B c : mem c (b_clients (BusRoute.r_bus B)) = true -> route B (unique_name c) = Some c.
Proof.
  intro Hc. unfold route, BusRoute.resolve.
  assert (exists r, unique_name c = 58 :: r) as [r Er] by (unfold unique_name; cbn [app]; eexists; reflexivity).
  rewrite Er. change (58 =? c_colon) with true. cbv iota. rewrite <- Er. clear r Er.
  induction (b_clients (BusRoute.r_bus B)) as [|x l IH]; cbn [mem existsb] in Hc; [discriminate|].
  cbn [find]. destruct (str_eqb (unique_name x) (unique_name c)) eqn:E.
  - apply str_eqb_spec in E. apply BusNamesProofs.unique_name_inj in E. subst. reflexivity.
  - apply orb_true_iff in Hc as [Hc|Hc].
    + apply N.eqb_eq in Hc. subst. rewrite str_eqb_refl in E. discriminate.
    + apply IH. exact Hc.
Qed.

Lemma unique_name_not_bus c : unique_name c <> BusRoute.bus_name.
Proof. unfold unique_name. cbn [app]. discriminate. Qed.

Lemma unique_name_not_nil c : unique_name c <> [].
Proof. unfold unique_name. cbn [app]. discriminate. Qed.

(* ======================================================================== *)
(* 3. what each piece of glue touches                                        *)

(* s' differs from s at most in the completion records, the proxies handed out
   and the interface worlds of the processes *)
Record same_core (s s' : sys) : Prop := mkSame {
  sc_bus : s_bus s' = s_bus s;
  sc_closed : s_closed s' = s_closed s;
  sc_net : s_net s' = s_net s;
  sc_calls : s_calls s' = s_calls s;
  sc_conts : s_conts s' = s_conts s;
  sc_dead : s_dead s' = s_dead s;
  sc_open : s_open s' = s_open s;
  sc_invs : s_invs s' = s_invs s;
  sc_results : s_results s' = s_results s;
  sc_serial : forall p, p_serial (s_procs s' p) = p_serial (s_procs s p)
}.

Lemma same_core_refl s : same_core s s.
Proof. constructor; reflexivity. Qed.

Lemma updn_serial (P : nat -> pstate) k p h kn x :
  p_serial (updn P k (set_world p h kn) x) = p_serial (updn P k p x).
Proof. unfold updn. destruct (Nat.eqb x k); reflexivity. Qed.

Lemma updn_self_serial (P : nat -> pstate) k x : p_serial (updn P k (P k) x) = p_serial (P x).
Proof. unfold updn. destruct (Nat.eqb x k) eqn:E; [apply Nat.eqb_eq in E; subst|]; reflexivity. Qed.

Lemma finish_spec g s c id x xml :
  same_core s (finish g s c id x xml) /\
  (exists x', s_done (finish g s c id x xml) = s_done s ++ [(c, id, x')] /\
              (cont_of s c id = KUser -> x' = x)) /\
  (forall c' px, In px (s_proxies (finish g s c id x xml) c') ->
     In px (s_proxies s c') \/ exists r req path, cont_of s c id = KIntro r req (px_bus px) path).
Proof.
  unfold finish. destruct (cont_of s c id) as [|replace required bus path].
  - split; [constructor; reflexivity|]. split; [|intros c' px H; left; exact H].
    exists x. split; [reflexivity | intros _; reflexivity].
  - assert (D : forall y, same_core s (add_done s c id y) /\
                          (exists x', s_done (add_done s c id y) = s_done s ++ [(c, id, x')] /\ (KIntro replace required bus path = KUser -> x' = x)) /\
                          (forall c' px, In px (s_proxies (add_done s c id y) c') ->
                             In px (s_proxies s c') \/ exists r req path0, KIntro replace required bus path = KIntro r req (px_bus px) path0)).
    { intro y. split; [constructor; reflexivity|]. split; [|intros c' px H; left; exact H].
      exists y. split; [reflexivity | discriminate]. }
    destruct x as [[v|]| | | | |]; try apply D.
    destruct v; try apply D. destruct xml as [evs|]; try apply D.
    unfold introspected.
    destruct (Introspect.parse replace (p_heap (proc_of g s c)) (p_known (proc_of g s c)) evs) as [[[ids h] k]|e].
    2:{ split; [|split].
        - constructor; try reflexivity. intro p. cbn. unfold proc_of. rewrite updn_serial. apply updn_self_serial.
        - eexists. split; [reflexivity | discriminate].
        - intros c' px H. left. exact H. }
    destruct (missing h required ids).
    + split; [|split].
      * constructor; try reflexivity. intro p. cbn. unfold proc_of. rewrite updn_serial. apply updn_self_serial.
      * eexists. split; [reflexivity | discriminate].
      * intros c' px H. cbn in H. unfold upd in H. destruct (c' =? c) eqn:E.
        -- apply in_app_or in H as [H|[<-|[]]]; [left; apply N.eqb_eq in E; subst; exact H|].
           right. exists replace, required, path. reflexivity.
        -- left. exact H.
    + split; [|split].
      * constructor; try reflexivity. intro p. cbn. unfold proc_of. rewrite updn_serial. apply updn_self_serial.
      * eexists. split; [reflexivity | discriminate].
      * intros c' px H. left. exact H.
Qed.

Lemma finish_none g s c id x :
  exists x', finish g s c id x None = add_done s c id x' /\ (cont_of s c id = KUser -> x' = x).
Proof.
  unfold finish. destruct (cont_of s c id) as [|replace required bus path].
  - exists x. split; [reflexivity | intros _; reflexivity].
  - destruct x as [[v|]| | | | |]; try (eexists; split; [reflexivity | discriminate]).
    destruct v; eexists; (split; [reflexivity | discriminate]).
Qed.

(* --- Calls.call_remote ----------------------------------------------------- *)
Lemma call_remote_invalid st t rs :
  let st' := Calls.call_remote st Calls.CkInvalid t rs in
  Calls.st_pending st' = Calls.st_pending st /\ Calls.st_next_id st' = S (Calls.st_next_id st) /\
  Calls.st_next_serial st' = Calls.st_next_serial st.
Proof. cbn. repeat split; reflexivity. Qed.

Lemma call_remote_normal st t rs :
  let n := Calls.st_next_serial st in
  let st' := Calls.call_remote st Calls.CkNormal t rs in
  Calls.st_next_id st' = S (Calls.st_next_id st) /\ Calls.st_next_serial st' = n + 1 /\
  Calls.st_pending st' =
    if Calls.max_serial <? n then Calls.st_pending st
    else alist_set N.eqb n (Calls.PCall (Calls.st_next_id st) (Calls.truthy_timeout t) rs) (Calls.st_pending st).
Proof.
  cbn zeta. unfold Calls.call_remote. cbn [Calls.st_next_serial Calls.st_next_id Calls.st_pending].
  destruct (Calls.max_serial <? Calls.st_next_serial st).
  - cbn. repeat split; reflexivity.
  - destruct (Calls.truthy_timeout t); cbn; repeat split; reflexivity.
Qed.

Lemma call_remote_noreply st t rs :
  let n := Calls.st_next_serial st in
  let st' := Calls.call_remote st Calls.CkNoReply t rs in
  Calls.st_next_id st' = S (Calls.st_next_id st) /\ Calls.st_next_serial st' = n + 1 /\
  Calls.st_pending st' = Calls.st_pending st.
Proof.
  cbn zeta. unfold Calls.call_remote. cbn [Calls.st_next_serial Calls.st_next_id Calls.st_pending].
  destruct (Calls.max_serial <? Calls.st_next_serial st); cbn; repeat split; reflexivity.
Qed.

(* --- conn_call --------------------------------------------------------------- *)
(* the three ways DBusClientConnection.callRemote ends *)
Inductive call_outcome (g : config) (s : sys) (c : client) (q : creq) (k : cont) (s' : sys) : Prop :=
| CoFailed (x : completion)
    (Hnet : s_net s' = s_net s)
    (Hpend : Calls.st_pending (s_calls s' c) = Calls.st_pending (s_calls s c))
    (Hdone : s_done s' = s_done s ++ [(c, Calls.st_next_id (s_calls s c), x)])
| CoSent (body : bytes)
    (Hexp : q_expect q = true)
    (Hbody : encode_body (g_fuel g) (q_sig q) (PTuple (q_args q)) (Some []) = Ok body)
    (Hvalid : Message.validate_args false 1
                [(Message.APath, PStr (q_path q)); (Message.AInterface, ostr (q_iface q));
                 (Message.AMember, PStr (q_member q)); (Message.ADestination, ostr (q_dest q));
                 (Message.ASignature, ostr (q_sig q))] = Ok tt)
    (Hser : p_serial (proc_of g s c) <= Calls.max_serial)
    (Hhdr : header_ok q = true)
    (Hfit : too_big (g_limit g) (g_fuel g) (call_msg q (p_serial (proc_of g s c)) body) = false)
    (Hnet : s_net s' = s_net s ++ [(Up c, mkW (call_msg q (p_serial (proc_of g s c)) body) None)])
    (Hpend : Calls.st_pending (s_calls s' c) =
             alist_set N.eqb (p_serial (proc_of g s c))
                       (Calls.PCall (Calls.st_next_id (s_calls s c)) (Calls.truthy_timeout (q_timeout q)) (q_rs q))
                       (Calls.st_pending (s_calls s c)))
    (Hdone : s_done s' = s_done s)
    (Hnew : p_serial (proc_of g s' c) = p_serial (proc_of g s c) + 1)
| CoNoReply (body : bytes) (x : completion)
    (Hexp : q_expect q = false)
    (Hser : p_serial (proc_of g s c) <= Calls.max_serial)
    (Hhdr : header_ok q = true)
    (Hfit : too_big (g_limit g) (g_fuel g) (call_msg q (p_serial (proc_of g s c)) body) = false)
    (Hvalid : Message.validate_args false 1
                [(Message.APath, PStr (q_path q)); (Message.AInterface, ostr (q_iface q));
                 (Message.AMember, PStr (q_member q)); (Message.ADestination, ostr (q_dest q));
                 (Message.ASignature, ostr (q_sig q))] = Ok tt)
    (Hnet : s_net s' = s_net s ++ [(Up c, mkW (call_msg q (p_serial (proc_of g s c)) body) None)])
    (Hpend : Calls.st_pending (s_calls s' c) = Calls.st_pending (s_calls s c))
    (Hdone : s_done s' = s_done s ++ [(c, Calls.st_next_id (s_calls s c), x)])
    (Hnew : p_serial (proc_of g s' c) = p_serial (proc_of g s c) + 1).

Record call_frame (g : config) (s : sys) (c : client) (k : cont) (s' : sys) : Prop := mkCF {
  cf_bus : s_bus s' = s_bus s;
  cf_closed : s_closed s' = s_closed s;
  cf_dead : s_dead s' = s_dead s;
  cf_open : s_open s' = s_open s;
  cf_invs : s_invs s' = s_invs s;
  cf_results : s_results s' = s_results s;
  cf_calls_other : forall c', c' <> c -> s_calls s' c' = s_calls s c';
  cf_next_id : Calls.st_next_id (s_calls s' c) = S (Calls.st_next_id (s_calls s c));
  cf_conts : s_conts s' = upd (s_conts s) c (s_conts s c ++ [(Calls.st_next_id (s_calls s c), k)]);
  cf_serial_other : forall p, p <> g_proc g c -> p_serial (s_procs s' p) = p_serial (s_procs s p);
  cf_serial_mono : p_serial (proc_of g s c) <= p_serial (proc_of g s' c) <= p_serial (proc_of g s c) + 1;
  cf_prox : s_proxies s' = s_proxies s
}.

Lemma upd_same {A} (f : client -> A) c v : upd f c v c = v.
Proof. unfold upd. rewrite N.eqb_refl. reflexivity. Qed.

Lemma upd_other {A} (f : client -> A) c v c' : c' <> c -> upd f c v c' = f c'.
Proof. intro H. unfold upd. destruct (c' =? c) eqn:E; [apply N.eqb_eq in E; contradiction | reflexivity]. Qed.

Lemma updn_same {A} (f : nat -> A) c v : updn f c v c = v.
Proof. unfold updn. rewrite Nat.eqb_refl. reflexivity. Qed.

Lemma updn_other {A} (f : nat -> A) c v c' : c' <> c -> updn f c v c' = f c'.
Proof. intro H. unfold updn. destruct (Nat.eqb c' c) eqn:E; [apply Nat.eqb_eq in E; contradiction | reflexivity]. Qed.

Lemma conn_call_spec g s c q k :
  call_frame g s c k (conn_call g s c q k) /\ call_outcome g s c q k (conn_call g s c q k).
Proof.
  unfold conn_call.
  set (p := proc_of g s c). set (n := p_serial p).
  set (st := with_serial (s_calls s c) n). set (id := Calls.st_next_id st).
  assert (Eid : id = Calls.st_next_id (s_calls s c)) by reflexivity.
  set (attrs := [(Message.APath, PStr (q_path q)); (Message.AInterface, ostr (q_iface q));
                 (Message.AMember, PStr (q_member q)); (Message.ADestination, ostr (q_dest q));
                 (Message.ASignature, ostr (q_sig q))]).
  (* the failing branches share their shape *)
  assert (FAIL : forall s1 st1 (n1 : N),
            s1 = set_calls (set_procs (add_cont s c id k) (updn (s_procs s) (g_proc g c) (set_serial p n1))) c st1 ->
            Calls.st_pending st1 = Calls.st_pending (s_calls s c) ->
            Calls.st_next_id st1 = S id -> n <= n1 <= n + 1 ->
            call_frame g s c k (finish g s1 c id CFailed None) /\
            call_outcome g s c q k (finish g s1 c id CFailed None)).
  { intros s1 st1 n1 -> Hp Hi Hn.
    destruct (finish_none g (set_calls (set_procs (add_cont s c id k) (updn (s_procs s) (g_proc g c) (set_serial p n1))) c st1)
                          c id CFailed) as (x' & -> & _).
    split.
    - constructor; try reflexivity.
      + intros c' Hc. cbn. apply upd_other. exact Hc.
      + cbn. rewrite upd_same. exact Hi.
      + intros p0 Hp0. cbn. rewrite updn_other by exact Hp0. reflexivity.
      + unfold proc_of. cbn. rewrite updn_same. cbn. change (p_serial (s_procs s (g_proc g c))) with n. exact Hn.
    - apply (CoFailed g s c q k _ x').
      + reflexivity.
      + cbn. rewrite upd_same. exact Hp.
      + reflexivity. }
  destruct (Message.validate_args false 1 attrs) as [[]|e] eqn:EV.
  2:{ apply (FAIL _ (Calls.call_remote st Calls.CkInvalid (q_timeout q) (q_rs q)) n).
      - reflexivity. - reflexivity. - reflexivity. - lia. }
  destruct (encode_body (g_fuel g) (q_sig q) (PTuple (q_args q)) (Some [])) as [body|e] eqn:EB.
  2:{ apply (FAIL _ (Calls.call_remote st Calls.CkInvalid (q_timeout q) (q_rs q)) n).
      - reflexivity. - reflexivity. - reflexivity. - lia. }
  destruct (header_ok q) eqn:EH; cbn [negb orb].
  2:{ apply (FAIL _ (Calls.call_remote (with_serial st (n + 1)) Calls.CkInvalid (q_timeout q) (q_rs q)) (n + 1)).
      - reflexivity. - reflexivity. - reflexivity. - lia. }
  destruct (negb (Calls.max_serial <? n) && too_big (g_limit g) (g_fuel g) (call_msg q n body)) eqn:ET.
  { apply (FAIL _ (Calls.call_remote (with_serial st (n + 1)) Calls.CkInvalid (q_timeout q) (q_rs q)) (n + 1)).
    - reflexivity. - reflexivity. - reflexivity. - lia. }
  set (kind := if q_expect q then Calls.CkNormal else Calls.CkNoReply).
  set (st1 := Calls.call_remote st kind (q_timeout q) (q_rs q)).
  assert (K : Calls.st_next_id st1 = S id /\ Calls.st_next_serial st1 = n + 1 /\
              Calls.st_pending st1 =
                if q_expect q
                then (if Calls.max_serial <? n then Calls.st_pending (s_calls s c)
                      else alist_set N.eqb n (Calls.PCall id (Calls.truthy_timeout (q_timeout q)) (q_rs q))
                                     (Calls.st_pending (s_calls s c)))
                else Calls.st_pending (s_calls s c)).
  { unfold st1, kind. destruct (q_expect q).
    - destruct (call_remote_normal st (q_timeout q) (q_rs q)) as (A1 & A2 & A3). repeat split; assumption.
    - destruct (call_remote_noreply st (q_timeout q) (q_rs q)) as (A1 & A2 & A3). repeat split; assumption. }
  destruct K as (K1 & K2 & K3). clearbody st1. clear kind.
  destruct (Calls.max_serial <? n) eqn:EM.
  { apply (FAIL _ st1 (Calls.st_next_serial st1)).
    - reflexivity.
    - rewrite K3. destruct (q_expect q); reflexivity.
    - exact K1.
    - rewrite K2. lia. }
  cbn [negb andb] in ET.
  apply N.ltb_ge in EM.
  destruct (q_expect q) eqn:EX.
  - (* sent, a reply is awaited *)
    split.
    + constructor; try reflexivity.
      * intros c' Hc. cbn. apply upd_other. exact Hc.
      * cbn. rewrite upd_same. exact K1.
      * intros p0 Hp0. cbn. rewrite updn_other by exact Hp0. reflexivity.
      * unfold proc_of. cbn. rewrite updn_same. cbn. change (p_serial (s_procs s (g_proc g c))) with n. rewrite K2. lia.
    + refine (CoSent g s c q k _ body _ _ _ _ _ _ _ _ _ _).
      * exact EX.
      * exact EB.
      * exact EV.
      * exact EM.
      * exact EH.
      * exact ET.
      * reflexivity.
      * cbn. rewrite upd_same. exact K3.
      * reflexivity.
      * unfold proc_of. cbn. rewrite updn_same. cbn. exact K2.
  - (* sent, no reply awaited: the Deferred fires at once *)
    match goal with |- context [finish g ?S1 c id (CValue None) None] => set (s3 := S1) end.
    destruct (finish_none g s3 c id (CValue None)) as (x' & -> & _). subst s3.
    split.
    + constructor; try reflexivity.
      * intros c' Hc. cbn. apply upd_other. exact Hc.
      * cbn. rewrite upd_same. exact K1.
      * intros p0 Hp0. cbn. rewrite updn_other by exact Hp0. reflexivity.
      * unfold proc_of. cbn. rewrite updn_same. cbn. change (p_serial (s_procs s (g_proc g c))) with n. rewrite K2. lia.
    + refine (CoNoReply g s c q k _ body x' _ _ _ _ _ _ _ _ _).
      * exact EX.
      * exact EM.
      * exact EH.
      * exact ET.
      * exact EV.
      * reflexivity.
      * cbn. rewrite upd_same. exact K3.
      * reflexivity.
      * unfold proc_of. cbn. rewrite updn_same. cbn. exact K2.
Qed.

(* ======================================================================== *)
(* 4. the dispatcher: shape of what it leaves behind (direct from Model/Dispatch.v;
      C10_reply_count and C10_addressed state the same under caller_known) *)

Lemma mk_error_addr name c b r : Dispatch.mk_error name c b = Ok r ->
  Dispatch.r_dest r = Dispatch.c_sender c /\ Dispatch.r_serial r = Dispatch.c_serial c.
Proof.
  unfold Dispatch.mk_error. destruct (negb (Dispatch.dest_ok (Dispatch.c_sender c))); [discriminate|].
  destruct (negb (validate_iface name)); [discriminate|]. intro H. injection H as <-. split; reflexivity.
Qed.

Lemma mk_return_addr c sg v r : Dispatch.mk_return c sg v = Ok r ->
  Dispatch.r_dest r = Dispatch.c_sender c /\ Dispatch.r_serial r = Dispatch.c_serial c.
Proof.
  unfold Dispatch.mk_return. destruct (negb (Dispatch.dest_ok (Dispatch.c_sender c))); [discriminate|].
  destruct (Dispatch.encode_out sg v); [|discriminate]. intro H. injection H as <-. split; reflexivity.
Qed.

Definition addressed_to (c : Dispatch.call) (rs : list Dispatch.reply) : Prop :=
  forall r, In r rs -> Dispatch.r_dest r = Dispatch.c_sender c /\ Dispatch.r_serial r = Dispatch.c_serial c.

Lemma send_reply_shape c m v :
  (length (Dispatch.send_reply c m v) <= 1)%nat /\ addressed_to c (Dispatch.send_reply c m v).
Proof.
  unfold Dispatch.send_reply.
  destruct (Dispatch.mk_return c (Dispatch.m_out m) (Dispatch.wrap_result (Dispatch.m_nret m) v)) as [r|e] eqn:E.
  - split; [cbn; lia|]. intros r' [<-|[]]. exact (mk_return_addr _ _ _ _ E).
  - destruct (negb (Dispatch.dest_ok (Dispatch.c_sender c))); split; try (cbn; lia).
    + intros r' [].
    + intros r' [<-|[]]. split; reflexivity.
Qed.

Lemma send_failure_shape lt c e :
  (length (Dispatch.send_failure lt c e) <= 1)%nat /\ addressed_to c (Dispatch.send_failure lt c e).
Proof.
  unfold Dispatch.send_failure. destruct (Dispatch.send_error lt c e) as [r|x] eqn:E.
  - split; [cbn; lia|]. intros r' [<-|[]]. unfold Dispatch.send_error in E.
    destruct (if validate_error _ then _ else _) as [name text] in E.
    destruct (negb (Dispatch.text_ok _)) in E; [discriminate|]. exact (mk_error_addr _ _ _ _ E).
  - split; [cbn; lia | intros r' []].
Qed.

Lemma fire_shape p l :
  (length (Dispatch.fire p l) <= 1)%nat /\ addressed_to (Dispatch.p_call p) (Dispatch.fire p l).
Proof. destruct l; [apply send_reply_shape | apply send_failure_shape]. Qed.

Definition shape (c : Dispatch.call) (rs : list Dispatch.reply) (invs : list Dispatch.invocation)
           (p : option Dispatch.pend) : Prop :=
  (length rs <= 1)%nat /\ addressed_to c rs /\ (length invs <= 1)%nat /\
  match p with Some pd => rs = [] /\ Dispatch.p_call pd = c | None => True end.

Lemma shape_nil c invs : (length invs <= 1)%nat -> shape c [] invs None.
Proof. intro H. split; [cbn; lia|]. split; [intros r []|]. split; [exact H | exact I]. Qed.

Lemma shape_list c rs invs :
  (length rs <= 1)%nat /\ addressed_to c rs -> (length invs <= 1)%nat -> shape c rs invs None.
Proof. intros [A B] H. split; [exact A|]. split; [exact B|]. split; [exact H | exact I]. Qed.

Lemma one_shape c x rs invs p :
  Dispatch.one x = Dispatch.HDone rs invs p ->
  (forall r, x = Ok r -> Dispatch.r_dest r = Dispatch.c_sender c /\ Dispatch.r_serial r = Dispatch.c_serial c) ->
  shape c rs invs p.
Proof.
  unfold Dispatch.one. destruct x as [r|e]; [|discriminate]. intros H A. injection H as <- <- <-.
  apply shape_list; [|cbn; lia]. split; [cbn; lia|]. intros r' [<-|[]]. apply A. reflexivity.
Qed.

Lemma handle_shape ex beh c rs invs p :
  Dispatch.handle ex beh c = Dispatch.HDone rs invs p -> shape c rs invs p.
Proof.
  unfold Dispatch.handle, Dispatch.handle_with.
  destruct (Dispatch.opt_is (Dispatch.c_iface c) Dispatch.n_peer && str_eqb (Dispatch.c_member c) Dispatch.n_ping).
  { intro H. exact (one_shape c _ _ _ _ H (fun r E => mk_return_addr _ _ _ _ E)). }
  destruct (if Dispatch.opt_is (Dispatch.c_iface c) Dispatch.n_introspectable && str_eqb (Dispatch.c_member c) Dispatch.n_introspect
            then ObjTree.introspect (Dispatch.c_path c) (Dispatch.to_tree ex) else None).
  { destruct (Dispatch.dest_ok (Dispatch.c_sender c)); [|discriminate]. intro H. injection H as <- <- <-.
    apply shape_list; [|cbn; lia]. split; [cbn; lia|]. intros r [<-|[]]. split; reflexivity. }
  destruct (alist_get str_eqb (Dispatch.c_path c) ex) as [o|].
  2:{ intro H. exact (one_shape c _ _ _ _ H (fun r E => mk_error_addr _ _ _ _ E)). }
  destruct (Dispatch.opt_is (Dispatch.c_iface c) Dispatch.n_object_manager && str_eqb (Dispatch.c_member c) Dispatch.n_get_managed).
  { destruct (Dispatch.dest_ok (Dispatch.c_sender c)); [|discriminate]. intro H. injection H as <- <- <-.
    apply shape_list; [|cbn; lia]. split; [cbn; lia|]. intros r [<-|[]]. split; reflexivity. }
  destruct (match Dispatch.pick_iface (Dispatch.truthy_str (Dispatch.c_iface c)) (Dispatch.c_member c) (Dispatch.interfaces o) with
            | Some i => match Dispatch.find_meth (Dispatch.c_member c) (Dispatch.i_methods i) with
                        | Some m => Some (i, m) | None => None end
            | None => None end) as [[i m]|].
  2:{ intro H. exact (one_shape c _ _ _ _ H (fun r E => mk_error_addr _ _ _ _ E)). }
  destruct (negb (str_eqb (Dispatch.m_in m) (Dispatch.sig_or_empty (Dispatch.c_sig c)))).
  { intro H. exact (one_shape c _ _ _ _ H (fun r E => mk_error_addr _ _ _ _ E)). }
  destruct (Dispatch.exec_lookup o (Dispatch.i_name i) (Dispatch.c_member c)) as [f|].
  2:{ intro H. injection H as <- <- <-. destruct (Dispatch.c_expect c).
      - apply shape_list; [apply send_failure_shape | cbn; lia].
      - apply shape_nil. cbn; lia. }
  destruct (beh _) as [v|e|].
  - intro H. injection H as <- <- <-. destruct (Dispatch.c_expect c).
    + apply shape_list; [apply send_reply_shape | cbn; lia].
    + apply shape_nil. cbn; lia.
  - intro H. injection H as <- <- <-. destruct (Dispatch.c_expect c).
    + apply shape_list; [apply send_failure_shape | cbn; lia].
    + apply shape_nil. cbn; lia.
  - intro H. injection H as <- <- <-. split; [cbn; lia|]. split; [intros r []|]. split; [cbn; lia|].
    destruct (Dispatch.c_expect c); [split; reflexivity | exact I].
Qed.

(* ======================================================================== *)
(* 5. tokens                                                                 *)

Notation token := (str * N)%type.

Definition token_eq_dec (a b : token) : {a = b} + {a <> b}.
Proof. decide equality; [apply N.eq_dec | apply (list_eq_dec N.eq_dec)]. Defined.

Definition cnt (t : token) (l : list token) : nat := count_occ token_eq_dec l t.

Lemma cnt_app t a b : cnt t (a ++ b) = (cnt t a + cnt t b)%nat.
Proof. apply count_occ_app. Qed.

Lemma cnt_nil t : cnt t [] = 0%nat.
Proof. reflexivity. Qed.

Lemma cnt_one_same t : cnt t [t] = 1%nat.
Proof. unfold cnt. cbn. destruct (token_eq_dec t t); [reflexivity | contradiction]. Qed.

Lemma cnt_one_other t t' : t' <> t -> cnt t [t'] = 0%nat.
Proof. intro H. unfold cnt. cbn. destruct (token_eq_dec t' t); [contradiction | reflexivity]. Qed.

Lemma cnt_pos_in t l : (0 < cnt t l)%nat <-> In t l.
Proof. unfold cnt. split; intro H; apply (count_occ_In token_eq_dec); exact H. Qed.

Lemma cnt_zero_notin t l : cnt t l = 0%nat <-> ~ In t l.
Proof. unfold cnt. symmetry. apply count_occ_not_In. Qed.

Definition tok_item (x : link * wire) : list token :=
  let m := w_msg (snd x) in
  if BusRoute.g_type m =? 1 then
    match fst x with
    | Up c => [(unique_name c, BusRoute.g_serial m)]
    | Down _ => match BusRoute.g_sender m with Some s => [(s, BusRoute.g_serial m)] | None => [] end
    end
  else if (BusRoute.g_type m =? 2) || (BusRoute.g_type m =? 3) then
    match BusRoute.g_destination m, BusRoute.g_reply_serial m with
    | Some d, Some n => [(d, n)]
    | _, _ => []
    end
  else [].

Definition tok_call (dc : Dispatch.call) : list token :=
  match Dispatch.c_sender dc with Some s => [(s, Z.to_N (Dispatch.c_serial dc))] | None => [] end.

Definition tok_open (x : client * nat * Dispatch.pend) : list token := tok_call (Dispatch.p_call (snd x)).

Definition net_tokens (l : list (link * wire)) : list token := flat_map tok_item l.
Definition open_tokens (l : list (client * nat * Dispatch.pend)) : list token := flat_map tok_open l.

Definition tokens (s : sys) : list token := net_tokens (s_net s) ++ open_tokens (s_open s).

Lemma net_tokens_app a b : net_tokens (a ++ b) = net_tokens a ++ net_tokens b.
Proof. apply flat_map_app. Qed.

Lemma open_tokens_app a b : open_tokens (a ++ b) = open_tokens a ++ open_tokens b.
Proof. apply flat_map_app. Qed.

Lemma net_tokens_cons x l : net_tokens (x :: l) = tok_item x ++ net_tokens l.
Proof. reflexivity. Qed.

Lemma open_tokens_cons x l : open_tokens (x :: l) = tok_open x ++ open_tokens l.
Proof. reflexivity. Qed.

Lemma tok_item_le1 x t : (cnt t (tok_item x) <= 1)%nat.
Proof.
  unfold tok_item. destruct (BusRoute.g_type (w_msg (snd x)) =? 1).
  - destruct (fst x).
    + destruct (token_eq_dec (unique_name c, BusRoute.g_serial (w_msg (snd x))) t) as [->|H];
        [rewrite cnt_one_same | rewrite cnt_one_other by exact H]; lia.
    + destruct (BusRoute.g_sender (w_msg (snd x))) as [s|]; [|cbn; lia].
      destruct (token_eq_dec (s, BusRoute.g_serial (w_msg (snd x))) t) as [->|H];
        [rewrite cnt_one_same | rewrite cnt_one_other by exact H]; lia.
  - destruct ((BusRoute.g_type (w_msg (snd x)) =? 2) || (BusRoute.g_type (w_msg (snd x)) =? 3)); [|cbn; lia].
    destruct (BusRoute.g_destination (w_msg (snd x))) as [d|]; [|cbn; lia].
    destruct (BusRoute.g_reply_serial (w_msg (snd x))) as [n|]; [|cbn; lia].
    destruct (token_eq_dec (d, n) t) as [->|H]; [rewrite cnt_one_same | rewrite cnt_one_other by exact H]; lia.
Qed.

(* forwarding keeps the token *)
Lemma tok_item_forwarded c w o xml :
  BusRoute.valid_type (w_msg w) = true ->
  tok_item (Down o, mkW (forwarded c (w_msg w)) xml) = tok_item (Up c, w).
Proof.
  intro Hv. pose proof (forwarded_fields c (w_msg w) Hv) as F. cbn zeta in F.
  destruct F as (_ & Ft & _ & Fs & Fd & _ & _ & Fsn).
  unfold tok_item. cbn [fst snd w_msg]. rewrite Ft.
  destruct (BusRoute.g_type (w_msg w) =? 1) eqn:E1.
  - rewrite Fsn, Fs. reflexivity.
  - destruct ((BusRoute.g_type (w_msg w) =? 2) || (BusRoute.g_type (w_msg w) =? 3)) eqn:E2; [|reflexivity].
    rewrite Fd. assert (T : BusRoute.g_type (w_msg w) = 2 \/ BusRoute.g_type (w_msg w) = 3).
    { apply orb_true_iff in E2 as [E|E]; apply N.eqb_eq in E; [left | right]; exact E. }
    rewrite (proj1 (forwarded_reply c (w_msg w) T)). reflexivity.
Qed.

(* ======================================================================== *)
(* 6. the global invariant                                                    *)

Definition calls_wf (st : Calls.state) : Prop :=
  NoDup (map fst (Calls.st_pending st)) /\
  NoDup (map (fun e => Calls.pc_id (snd e)) (Calls.st_pending st)) /\
  (forall n pc, In (n, pc) (Calls.st_pending st) -> (Calls.pc_id pc < Calls.st_next_id st)%nat).

Definition item_ok (B : BusRoute.state) (lk : link) (m : BusRoute.bmsg) : Prop :=
  match lk with
  | Up _ => exists d, routable m d
  | Down c =>
      BusRoute.valid_type m = true /\
      (BusRoute.g_type m = 1 -> exists c', BusRoute.g_sender m = Some (unique_name c')) /\
      (exists d, BusRoute.g_destination m = Some d /\ route B d = Some c)
  end.

Definition all_hello (B : BusRoute.state) : Prop :=
  forall c, mem c (b_clients (BusRoute.r_bus B)) = true -> mem c (BusRoute.r_hello B) = true.

Record Inv (g : config) (B : BusRoute.state) (s : sys) : Prop := mkInv {
  iv_bus : s_bus s = B;
  iv_closed : s_closed s = [];
  iv_net : forall lk w, In (lk, w) (s_net s) -> item_ok B lk (w_msg w);
  iv_open : forall c k p, In (c, k, p) (s_open s) -> exists c', Dispatch.c_sender (Dispatch.p_call p) = Some (unique_name c');
  iv_once : forall t, (cnt t (tokens s) <= 1)%nat;
  iv_fresh : forall t, In t (tokens s) -> exists c, fst t = unique_name c /\ snd t < p_serial (proc_of g s c);
  iv_pend : forall c n pc, In (n, pc) (Calls.st_pending (s_calls s c)) -> n < p_serial (proc_of g s c);
  iv_calls : forall c, calls_wf (s_calls s c);
  iv_done : forall c id x, In (c, id, x) (s_done s) -> (id < Calls.st_next_id (s_calls s c))%nat;
  iv_conts : forall c id k, In (id, k) (s_conts s c) -> (id < Calls.st_next_id (s_calls s c))%nat;
  iv_kintro : forall c id r req b path, In (id, KIntro r req b path) (s_conts s c) -> b <> BusRoute.bus_name;
  iv_prox : forall c px, In px (s_proxies s c) -> px_bus px <> BusRoute.bus_name
}.

(* --- helpers ----------------------------------------------------------------- *)
Lemma in_alist_set {V} k (v : V) l k' v' :
  In (k', v') (alist_set N.eqb k v l) -> (k' = k /\ v' = v) \/ In (k', v') l.
Proof.
  induction l as [|[k2 v2] l IH]; cbn [alist_set].
  - intros [H|[]]. injection H as <- <-. left. split; reflexivity.
  - destruct (k =? k2) eqn:E.
    + apply N.eqb_eq in E. subst. intros [H|H]; [injection H as <- <-; left; split; reflexivity | right; right; exact H].
    + intros [H|H]; [right; left; exact H|]. destruct (IH H) as [X|X]; [left; exact X | right; right; exact X].
Qed.

Lemma alist_set_fresh_N {V} k (v : V) l : ~ In k (map fst l) -> alist_set N.eqb k v l = l ++ [(k, v)].
Proof.
  induction l as [|[k2 v2] l IH]; cbn [alist_set map fst In app]; intro H; [reflexivity|].
  destruct (k =? k2) eqn:E; [apply N.eqb_eq in E; subst; exfalso; apply H; left; reflexivity|].
  rewrite IH; [reflexivity|]. intro X. apply H. right. exact X.
Qed.

Lemma nat_aget_in {V} k (v : V) l : alist_get Nat.eqb k l = Some v -> In (k, v) l.
Proof.
  induction l as [|[k2 v2] l IH]; cbn [alist_get]; [discriminate|].
  destruct (Nat.eqb k k2) eqn:E; [apply Nat.eqb_eq in E; subst; intro H; injection H as <-; left; reflexivity|].
  intro H. right. apply IH. exact H.
Qed.

Lemma validate_bus_nil : validate_bus [] = false.
Proof. reflexivity. Qed.

Lemma validate_args_dest q d :
  q_dest q = Some d ->
  Message.validate_args false 1
    [(Message.APath, PStr (q_path q)); (Message.AInterface, ostr (q_iface q));
     (Message.AMember, PStr (q_member q)); (Message.ADestination, ostr (q_dest q));
     (Message.ASignature, ostr (q_sig q))] = Ok tt ->
  validate_bus d = true.
Proof.
  intros Hd. rewrite Hd. unfold Message.validate_args. cbn [ostr].
  set (attrs := [(Message.APath, PStr (q_path q)); (Message.AInterface, ostr (q_iface q));
                 (Message.AMember, PStr (q_member q)); (Message.ADestination, PStr d);
                 (Message.ASignature, ostr (q_sig q))]).
  assert (G : Message.geta attrs Message.ADestination = PStr d) by reflexivity.
  destruct (Message.opt_valid validate_member false (Message.geta attrs Message.AMember)); [|discriminate].
  cbn [bind].
  destruct (match Message.geta attrs Message.AInterface with PNone => Ok tt | v => Message.opt_valid validate_iface false v end);
    [|discriminate].
  cbn [bind]. rewrite G. unfold Message.opt_valid at 1. cbn [str_of unwrap andb].
  destruct (validate_bus d); [reflexivity | discriminate].
Qed.

Lemma tok_item_call c q n body xml :
  tok_item (Up c, mkW (call_msg q n body) xml) = [(unique_name c, n)].
Proof. reflexivity. Qed.

Lemma serial_mono_frame g s c k s' c' :
  call_frame g s c k s' -> p_serial (proc_of g s c') <= p_serial (proc_of g s' c').
Proof.
  intro F. unfold proc_of. destruct (Nat.eq_dec (g_proc g c') (g_proc g c)) as [E|E].
  - rewrite E. exact (proj1 (cf_serial_mono g s c k s' F)).
  - rewrite (cf_serial_other g s c k s' F _ E). lia.
Qed.

Lemma calls_wf_next st st' :
  Calls.st_pending st' = Calls.st_pending st -> (Calls.st_next_id st <= Calls.st_next_id st')%nat ->
  calls_wf st -> calls_wf st'.
Proof.
  intros Hp Hn (A & B & C). unfold calls_wf. rewrite Hp. split; [exact A|]. split; [exact B|].
  intros n pc H. specialize (C n pc H). lia.
Qed.

Lemma NoDup_app_one {A} (l : list A) x : NoDup l -> ~ In x l -> NoDup (l ++ [x]).
Proof.
  intros H Hx. induction H as [|y l Hy H IH]; cbn [app].
  - constructor; [intros [] | constructor].
  - constructor.
    + intro X. apply in_app_or in X as [X|[X|[]]]; [contradiction|]. subst. apply Hx. left. reflexivity.
    + apply IH. intro X. apply Hx. right. exact X.
Qed.

Lemma calls_wf_add st st' n v :
  Calls.st_pending st' = alist_set N.eqb n v (Calls.st_pending st) ->
  Calls.st_next_id st' = S (Calls.st_next_id st) -> Calls.pc_id v = Calls.st_next_id st ->
  ~ In n (map fst (Calls.st_pending st)) ->
  calls_wf st -> calls_wf st'.
Proof.
  intros Hp Hn Hv Hf (A & B & C). unfold calls_wf. rewrite Hp, Hn, (alist_set_fresh_N n v _ Hf).
  rewrite !map_app. cbn [map fst snd]. split; [|split].
  - apply NoDup_app_one; assumption.
  - apply NoDup_app_one; [exact B|]. rewrite Hv. intro X. apply in_map_iff in X as ([n' pc] & E & X).
    cbn [snd] in E. specialize (C n' pc X). lia.
  - intros n' pc H. apply in_app_or in H as [H|[H|[]]].
    + specialize (C n' pc H). lia.
    + injection H as <- <-. lia.
Qed.

(* --- conn_call keeps the invariant -------------------------------------------- *)
Lemma fresh_token_absent g s c :
  (forall t, In t (tokens s) -> exists c', fst t = unique_name c' /\ snd t < p_serial (proc_of g s c')) ->
  cnt (unique_name c, p_serial (proc_of g s c)) (tokens s) = 0%nat.
Proof.
  intro F. apply cnt_zero_notin. intro H. destruct (F _ H) as (c' & E & L). cbn [fst snd] in *.
  apply BusNamesProofs.unique_name_inj in E. subst c'. lia.
Qed.

Lemma inv_conn_call g B s c q k d :
  Inv g B s -> q_dest q = Some d -> d <> BusRoute.bus_name ->
  (forall r req b path, k = KIntro r req b path -> b <> BusRoute.bus_name) ->
  Inv g B (conn_call g s c q k).
Proof.
  intros I Hd Hnb Hk. destruct (conn_call_spec g s c q k) as [F O].
  set (s' := conn_call g s c q k) in *. clearbody s'.
  pose proof (serial_mono_frame g s c k s') as MONO.
  assert (NID : forall c', (Calls.st_next_id (s_calls s c') <= Calls.st_next_id (s_calls s' c'))%nat).
  { intro c'. destruct (N.eq_dec c' c) as [->|E]; [rewrite (cf_next_id _ _ _ _ _ F); lia|].
    rewrite (cf_calls_other _ _ _ _ _ F _ E). lia. }
  (* tokens and net *)
  assert (NET : (s_net s' = s_net s /\ tokens s' = tokens s) \/
                (exists body, s_net s' = s_net s ++ [(Up c, mkW (call_msg q (p_serial (proc_of g s c)) body) None)] /\
                              Message.validate_args false 1
                                [(Message.APath, PStr (q_path q)); (Message.AInterface, ostr (q_iface q));
                                 (Message.AMember, PStr (q_member q)); (Message.ADestination, ostr (q_dest q));
                                 (Message.ASignature, ostr (q_sig q))] = Ok tt /\
                              p_serial (proc_of g s' c) = p_serial (proc_of g s c) + 1)).
  { destruct O.
    - left. split; [exact Hnet|]. unfold tokens. rewrite Hnet, (cf_open _ _ _ _ _ F). reflexivity.
    - right. exists body. repeat split; assumption.
    - right. exists body. repeat split; assumption. }
  assert (PEND : forall n pc, In (n, pc) (Calls.st_pending (s_calls s' c)) ->
                 In (n, pc) (Calls.st_pending (s_calls s c)) \/
                 (n = p_serial (proc_of g s c) /\ Calls.pc_id pc = Calls.st_next_id (s_calls s c) /\
                  p_serial (proc_of g s' c) = p_serial (proc_of g s c) + 1)).
  { intros n pc H. destruct O; try (left; rewrite Hpend in H; exact H).
    rewrite Hpend in H. apply in_alist_set in H as [[-> ->]|H]; [right; split; [reflexivity | split; [reflexivity | exact Hnew]] | left; exact H]. }
  constructor.
  - rewrite (cf_bus _ _ _ _ _ F). apply (iv_bus g B s I).
  - rewrite (cf_closed _ _ _ _ _ F). apply (iv_closed g B s I).
  - intros lk w H. destruct NET as [[E _]|(body & E & V & _)]; rewrite E in H; [apply (iv_net g B s I); exact H|].
    apply in_app_or in H as [H|[H|[]]]; [apply (iv_net g B s I); exact H|]. injection H as <- <-.
    cbn [item_ok w_msg]. exists d. split; [reflexivity|]. split; [exact Hd|]. split; [|exact Hnb].
    pose proof (validate_args_dest q d Hd V) as VB. intros ->. discriminate.
  - intros c0 k0 p0 H. rewrite (cf_open _ _ _ _ _ F) in H. exact (iv_open g B s I c0 k0 p0 H).
  - intro t. destruct NET as [[_ E]|(body & E & _ & _)]; [rewrite E; apply (iv_once g B s I)|].
    unfold tokens. rewrite E, (cf_open _ _ _ _ _ F), net_tokens_app. cbn [net_tokens flat_map]. rewrite tok_item_call.
    rewrite app_nil_r, <- app_assoc, cnt_app, cnt_app.
    pose proof (iv_once g B s I t) as L. unfold tokens in L. rewrite cnt_app in L.
    destruct (token_eq_dec (unique_name c, p_serial (proc_of g s c)) t) as [<-|NE].
    + pose proof (fresh_token_absent g s c (iv_fresh g B s I)) as Z. unfold tokens in Z. rewrite cnt_app in Z.
      rewrite cnt_one_same. lia.
    + rewrite (cnt_one_other _ _ NE). lia.
  - intros t H. destruct NET as [[_ E]|(body & E & _ & N1)].
    + rewrite E in H. destruct (iv_fresh g B s I t H) as (c' & E1 & L). exists c'. split; [exact E1|].
      specialize (MONO c' F). lia.
    + unfold tokens in H. rewrite E, (cf_open _ _ _ _ _ F), net_tokens_app in H. cbn [net_tokens flat_map] in H.
      rewrite tok_item_call, app_nil_r in H.
      apply in_app_or in H as [H|H]; [apply in_app_or in H as [H|[<-|[]]]|].
      * destruct (iv_fresh g B s I t (in_or_app _ _ _ (or_introl H))) as (c' & E1 & L). exists c'. split; [exact E1|].
        specialize (MONO c' F). lia.
      * exists c. split; [reflexivity|]. cbn [snd]. rewrite N1. lia.
      * destruct (iv_fresh g B s I t (in_or_app _ _ _ (or_intror H))) as (c' & E1 & L). exists c'. split; [exact E1|].
        specialize (MONO c' F). lia.
  - intros c' n pc H. destruct (N.eq_dec c' c) as [->|E].
    + destruct (PEND n pc H) as [H'|(-> & _ & N1)].
      * pose proof (iv_pend g B s I c n pc H') as L. specialize (MONO c F). lia.
      * rewrite N1. lia.
    + rewrite (cf_calls_other _ _ _ _ _ F _ E) in H. pose proof (iv_pend g B s I c' n pc H) as L.
      specialize (MONO c' F). lia.
  - intro c'. destruct (N.eq_dec c' c) as [->|E]; [|rewrite (cf_calls_other _ _ _ _ _ F _ E); apply (iv_calls g B s I)].
    pose proof (iv_calls g B s I c) as W.
    destruct O; try (apply (calls_wf_next (s_calls s c)); [exact Hpend | rewrite (cf_next_id _ _ _ _ _ F); lia | exact W]).
    apply (calls_wf_add (s_calls s c) _ _ _ Hpend (cf_next_id _ _ _ _ _ F)); [reflexivity | | exact W].
    intro X. apply in_map_iff in X as ([n pc] & E1 & X). cbn [fst] in E1. subst n.
    pose proof (iv_pend g B s I c _ pc X). lia.
  - intros c' id x H. specialize (NID c').
    assert (D : In (c', id, x) (s_done s) \/ (c' = c /\ id = Calls.st_next_id (s_calls s c))).
    { destruct O; rewrite Hdone in H; try (left; exact H);
        (apply in_app_or in H as [H|[H|[]]]; [left; exact H | right; injection H as <- <- _; split; reflexivity]). }
    destruct D as [D|[-> ->]]; [pose proof (iv_done g B s I c' id x D); lia|].
    rewrite (cf_next_id _ _ _ _ _ F). lia.
  - intros c' id k' H. specialize (NID c'). rewrite (cf_conts _ _ _ _ _ F) in H. unfold upd in H.
    destruct (c' =? c) eqn:E.
    + apply N.eqb_eq in E. subst c'. apply in_app_or in H as [H|[H|[]]].
      * pose proof (iv_conts g B s I c id k' H). lia.
      * injection H as <- _. rewrite (cf_next_id _ _ _ _ _ F). lia.
    + pose proof (iv_conts g B s I c' id k' H). lia.
  - intros c' id r req b path H. rewrite (cf_conts _ _ _ _ _ F) in H. unfold upd in H.
    destruct (c' =? c) eqn:E.
    + apply N.eqb_eq in E. subst c'.
      apply in_app_or in H as [H|[H|[]]]; [exact (iv_kintro g B s I c id r req b path H)|].
      injection H as _ H. exact (Hk r req b path H).
    + exact (iv_kintro g B s I c' id r req b path H).
  - intros c' px H. rewrite (cf_prox _ _ _ _ _ F) in H. exact (iv_prox g B s I c' px H).
Qed.

(* --- states that agree on what the invariant reads -------------------------------- *)
Lemma inv_transfer g B s s' :
  Inv g B s -> same_core s s' ->
  (forall c id x, In (c, id, x) (s_done s') -> (id < Calls.st_next_id (s_calls s c))%nat) ->
  (forall c px, In px (s_proxies s' c) -> px_bus px <> BusRoute.bus_name) ->
  Inv g B s'.
Proof.
  intros I [B1 B2 B3 B4 B5 B6 B7 B8 B9 B10] HD HP.
  assert (T : tokens s' = tokens s) by (unfold tokens; rewrite B3, B7; reflexivity).
  assert (PS : forall c, p_serial (proc_of g s' c) = p_serial (proc_of g s c)) by (intro c; apply B10).
  constructor.
  - rewrite B1. apply (iv_bus g B s I).
  - rewrite B2. apply (iv_closed g B s I).
  - rewrite B3. apply (iv_net g B s I).
  - rewrite B7. apply (iv_open g B s I).
  - rewrite T. apply (iv_once g B s I).
  - rewrite T. intros t H. destruct (iv_fresh g B s I t H) as (c & E & L). exists c. rewrite PS. split; assumption.
  - rewrite B4. intros c n pc H. rewrite PS. exact (iv_pend g B s I c n pc H).
  - rewrite B4. apply (iv_calls g B s I).
  - rewrite B4. exact HD.
  - rewrite B4, B5. apply (iv_conts g B s I).
  - rewrite B5. apply (iv_kintro g B s I).
  - exact HP.
Qed.

Lemma cont_of_in s c id k : cont_of s c id = k -> k <> KUser -> In (id, k) (s_conts s c).
Proof.
  unfold cont_of. destruct (alist_get Nat.eqb id (s_conts s c)) as [k'|] eqn:E; [|congruence].
  intros <- _. exact (nat_aget_in _ _ _ E).
Qed.

Lemma inv_finish g B s c id x xml :
  Inv g B s -> (id < Calls.st_next_id (s_calls s c))%nat -> Inv g B (finish g s c id x xml).
Proof.
  intros I Hid. destruct (finish_spec g s c id x xml) as (SC & (x' & Hd & _) & HP).
  apply (inv_transfer g B s _ I SC).
  - intros c' id' y H. rewrite Hd in H. apply in_app_or in H as [H|[H|[]]]; [exact (iv_done g B s I c' id' y H)|].
    injection H as <- <- _. exact Hid.
  - intros c' px H. destruct (HP c' px H) as [H'|(r & req & path & E)]; [exact (iv_prox g B s I c' px H')|].
    apply (iv_kintro g B s I c id r req (px_bus px) path). apply cont_of_in; [exact E | discriminate].
Qed.

(* ======================================================================== *)
(* 7. the steps                                                               *)

Record same_but_net (s s' : sys) : Prop := mkSBN {
  sn_bus : s_bus s' = s_bus s;
  sn_closed : s_closed s' = s_closed s;
  sn_calls : s_calls s' = s_calls s;
  sn_conts : s_conts s' = s_conts s;
  sn_proxies : s_proxies s' = s_proxies s;
  sn_dead : s_dead s' = s_dead s;
  sn_procs : s_procs s' = s_procs s;
  sn_open : s_open s' = s_open s;
  sn_invs : s_invs s' = s_invs s;
  sn_results : s_results s' = s_results s;
  sn_done : s_done s' = s_done s
}.

(* --- AUp ------------------------------------------------------------------------ *)
Lemma valid_type_forwarded c m : BusRoute.valid_type (forwarded c m) = BusRoute.valid_type m.
Proof.
  unfold BusRoute.valid_type, forwarded, BusRoute.written, BusRoute.with_sender. reflexivity.
Qed.

Lemma step_up_spec g B s c :
  s_bus s = B -> s_closed s = [] -> all_hello B ->
  (forall lk w, In (lk, w) (s_net s) -> item_ok B lk (w_msg w)) ->
  step g s (AUp c) = s \/
  exists w l1 l2 new,
    s_net s = l1 ++ (Up c, w) :: l2 /\
    same_but_net s (step g s (AUp c)) /\
    s_net (step g s (AUp c)) = l1 ++ l2 ++ new /\
    ((mem c (b_clients (BusRoute.r_bus B)) = false /\ new = []) \/
     (exists d, routable (w_msg w) d /\ route B d = None /\ new = []) \/
     exists o d, routable (w_msg w) d /\ route B d = Some o /\
                 new = [(Down o, mkW (forwarded c (w_msg w)) (w_xml w))]).
Proof.
  intros HB HC AH NET. cbn [step]. destruct (take (Up c) (s_net s)) as [[w rest]|] eqn:T; [|left; reflexivity].
  right. destruct (take_spec _ _ _ _ T) as (l1 & l2 & E & ->).
  assert (OK : item_ok B (Up c) (w_msg w)). { apply NET. rewrite E. apply in_or_app. right. left. reflexivity. }
  destruct OK as (d & R).
  unfold bus_deliver. cbn [s_closed s_bus set_net]. rewrite HC. cbn [mem existsb]. rewrite HB.
  destruct (mem c (b_clients (BusRoute.r_bus B))) eqn:M.
  - assert (A : attached B c) by (split; [exact M | apply AH; exact M]).
    rewrite (bus_step_unicast B c (w_msg w) d A R). cbn [BusRoute.d_close].
    exists w, l1, l2.
    exists (fwd_items (w_xml w) (BusRoute.mkROut None
              (match route B d with Some o => [(o, BusRoute.DFwd (forwarded c (w_msg w)))] | None => [] end) false)).
    split; [exact E|]. split; [constructor; try reflexivity; cbn; symmetry; assumption|].
    split; [cbn; rewrite app_assoc; reflexivity|].
    destruct (route B d) as [o|] eqn:RT; right; [right | left].
    + exists o, d. split; [exact R|]. split; [exact RT | reflexivity].
    + exists d. split; [exact R|]. split; [exact RT | reflexivity].
  - assert (Q : BusRoute.step B (BusRoute.ESend c (w_msg w)) = (B, BusRoute.quiet_out)).
    { unfold BusRoute.step, BusRoute.step_with. rewrite M. reflexivity. }
    rewrite Q. cbn [BusRoute.d_close BusRoute.quiet_out].
    exists w, l1, l2, []. split; [exact E|]. split; [constructor; try reflexivity; cbn; symmetry; assumption|].
    split; [cbn; rewrite !app_nil_r; reflexivity | left; split; reflexivity].
Qed.

Lemma inv_net_change g B s s' :
  Inv g B s -> same_but_net s s' ->
  (forall lk w, In (lk, w) (s_net s') -> item_ok B lk (w_msg w)) ->
  (forall t, (cnt t (net_tokens (s_net s')) <= cnt t (net_tokens (s_net s)))%nat) ->
  Inv g B s'.
Proof.
  intros I [B1 B2 B3 B4 B5 B6 B7 B8 B9 B10 B11] NET CNT.
  assert (TK : forall t, (cnt t (tokens s') <= cnt t (tokens s))%nat).
  { intro t. unfold tokens. rewrite B8, !cnt_app. specialize (CNT t). lia. }
  assert (PS : forall c, proc_of g s' c = proc_of g s c) by (intro c; unfold proc_of; rewrite B7; reflexivity).
  constructor.
  - rewrite B1. apply (iv_bus g B s I).
  - rewrite B2. apply (iv_closed g B s I).
  - exact NET.
  - rewrite B8. apply (iv_open g B s I).
  - intro t. specialize (TK t). pose proof (iv_once g B s I t). lia.
  - intros t H. apply cnt_pos_in in H. specialize (TK t).
    assert (H' : In t (tokens s)) by (apply cnt_pos_in; lia).
    destruct (iv_fresh g B s I t H') as (c & E & L). exists c. rewrite PS. split; assumption.
  - rewrite B3. intros c n pc H. rewrite PS. exact (iv_pend g B s I c n pc H).
  - rewrite B3. apply (iv_calls g B s I).
  - rewrite B3, B11. apply (iv_done g B s I).
  - rewrite B3, B4. apply (iv_conts g B s I).
  - rewrite B4. apply (iv_kintro g B s I).
  - rewrite B5. apply (iv_prox g B s I).
Qed.

Lemma inv_up g B s c : Inv g B s -> all_hello B -> Inv g B (step g s (AUp c)).
Proof.
  intros I AH.
  destruct (step_up_spec g B s c (iv_bus g B s I) (iv_closed g B s I) AH (iv_net g B s I))
    as [->|(w & l1 & l2 & new & E & SB & EN & NEW)]; [exact I|].
  assert (OKW : item_ok B (Up c) (w_msg w)).
  { apply (iv_net g B s I). rewrite E. apply in_or_app. right. left. reflexivity. }
  apply (inv_net_change g B s _ I SB).
  - intros lk x H. rewrite EN in H.
    assert (OLD : In (lk, x) (l1 ++ l2) -> item_ok B lk (w_msg x)).
    { intro H'. apply (iv_net g B s I). rewrite E. apply in_app_or in H' as [H'|H']; apply in_or_app;
        [left; exact H' | right; right; exact H']. }
    rewrite app_assoc in H. apply in_app_or in H as [H|H]; [exact (OLD H)|].
    destruct NEW as [[_ ->]|[(d & _ & _ & ->)|(o & d & R & RT & ->)]]; [destruct H | destruct H|]. destruct H as [H|[]]. injection H as <- <-.
    cbn [item_ok w_msg]. destruct R as (Hv & Hd & _ & _).
    pose proof (forwarded_fields c (w_msg w) Hv) as F. cbn zeta in F. destruct F as (_ & _ & _ & _ & Fd & _ & _ & Fs).
    split; [rewrite valid_type_forwarded; exact Hv|]. split.
    + intros _. exists c. exact Fs.
    + exists d. split; [rewrite Fd; exact Hd | exact RT].
  - intro t. rewrite EN, E, !net_tokens_app, net_tokens_cons, !cnt_app.
    destruct NEW as [[_ ->]|[(d & _ & _ & ->)|(o & d & R & RT & ->)]].
    + cbn [net_tokens flat_map]. rewrite cnt_nil. lia.
    + cbn [net_tokens flat_map]. rewrite cnt_nil. lia.
    + cbn [net_tokens flat_map]. rewrite app_nil_r.
      rewrite (tok_item_forwarded c w o (w_xml w) (proj1 R)). lia.
Qed.

(* --- taking a message off a link ---------------------------------------------------- *)
Lemma same_but_net_set s n : same_but_net s (set_net s n).
Proof. constructor; reflexivity. Qed.

Lemma inv_take g B s l1 x l2 :
  Inv g B s -> s_net s = l1 ++ x :: l2 -> Inv g B (set_net s (l1 ++ l2)).
Proof.
  intros I E. apply (inv_net_change g B s _ I (same_but_net_set s _)).
  - intros lk w H. cbn [s_net set_net] in H. apply (iv_net g B s I). rewrite E.
    apply in_app_or in H as [H|H]; apply in_or_app; [left; exact H | right; right; exact H].
  - intro t. cbn [s_net set_net]. rewrite E, !net_tokens_app, net_tokens_cons, !cnt_app. lia.
Qed.

(* the token of the message taken is no longer in the system, and is below its
   caller's counter *)
Definition spent (g : config) (s : sys) (tk : list token) : Prop :=
  forall t, In t tk -> cnt t (tokens s) = 0%nat /\ exists c, fst t = unique_name c /\ snd t < p_serial (proc_of g s c).

Lemma spent_take g B s l1 x l2 :
  Inv g B s -> s_net s = l1 ++ x :: l2 -> spent g (set_net s (l1 ++ l2)) (tok_item x).
Proof.
  intros I E t H. split.
  - pose proof (iv_once g B s I t) as L. unfold tokens in *. cbn [s_net s_open set_net].
    rewrite E, !net_tokens_app, net_tokens_cons, !cnt_app in L. rewrite net_tokens_app, !cnt_app.
    assert (0 < cnt t (tok_item x))%nat by (apply cnt_pos_in; exact H). lia.
  - apply (iv_fresh g B s I t). unfold tokens. rewrite E, net_tokens_app, net_tokens_cons.
    apply in_or_app. left. apply in_or_app. right. apply in_or_app. left. exact H.
Qed.

Lemma inv_set_dead g B s c : Inv g B s -> Inv g B (set_dead s c).
Proof. intro I. destruct I. constructor; assumption. Qed.

(* --- Calls: a reply arrives for a pending call --------------------------------------- *)
Lemma reply_received_spec st n pc o :
  alist_get N.eqb n (Calls.st_pending st) = Some pc ->
  let st' := Calls.reply_received st n o in
  Calls.st_pending st' = alist_del N.eqb n (Calls.st_pending st) /\
  Calls.st_next_id st' = Calls.st_next_id st /\ Calls.st_next_serial st' = Calls.st_next_serial st.
Proof.
  intro H. cbn zeta. unfold Calls.reply_received. rewrite H.
  destruct (Calls.pc_timer pc).
  - unfold Calls.cancel_timer. destruct (Calls.find_timer n (Calls.st_timers st)); cbn; repeat split; reflexivity.
  - cbn. repeat split; reflexivity.
Qed.

Lemma in_alist_del {V} k (l : list (N * V)) x : In x (alist_del N.eqb k l) -> In x l.
Proof.
  induction l as [|[k2 v2] l IH]; cbn [alist_del]; [intros []|].
  destruct (k =? k2); intro H; [right; exact H|]. destruct H as [H|H]; [left; exact H | right; exact (IH H)].
Qed.

Lemma calls_wf_del st st' n :
  Calls.st_pending st' = alist_del N.eqb n (Calls.st_pending st) -> Calls.st_next_id st' = Calls.st_next_id st ->
  calls_wf st -> calls_wf st'.
Proof.
  intros Hp Hn (A & B & C). unfold calls_wf. rewrite Hp, Hn. split; [|split].
  - apply BusNamesProofs.nodup_del. exact A.
  - clear A C Hp. induction (Calls.st_pending st) as [|[k2 v2] l IH]; cbn [alist_del map]; [constructor|].
    cbn [map snd] in B. inversion B as [|? ? B1 B2]; subst. destruct (n =? k2); [exact B2|].
    cbn [map snd]. constructor; [|exact (IH B2)]. intro X. apply B1.
    apply in_map_iff in X as (e & E & X). apply in_map_iff. exists e. split; [exact E | exact (in_alist_del _ _ _ X)].
  - intros n' pc H. apply (C n' pc). exact (in_alist_del _ _ _ H).
Qed.

Lemma inv_set_calls_del g B s c st1 n :
  Inv g B s ->
  Calls.st_pending st1 = alist_del N.eqb n (Calls.st_pending (s_calls s c)) ->
  Calls.st_next_id st1 = Calls.st_next_id (s_calls s c) ->
  Inv g B (set_calls s c st1).
Proof.
  intros I Hp Hn.
  assert (NID : forall c', Calls.st_next_id (upd (s_calls s) c st1 c') = Calls.st_next_id (s_calls s c')).
  { intro c'. unfold upd. destruct (c' =? c) eqn:E; [apply N.eqb_eq in E; subst; exact Hn | reflexivity]. }
  constructor; cbn [set_calls s_bus s_closed s_net s_open s_calls s_conts s_done s_proxies].
  - apply (iv_bus g B s I).
  - apply (iv_closed g B s I).
  - apply (iv_net g B s I).
  - apply (iv_open g B s I).
  - apply (iv_once g B s I).
  - apply (iv_fresh g B s I).
  - intros c' n' pc H. change (proc_of g (set_calls s c st1) c') with (proc_of g s c').
    unfold upd in H. destruct (c' =? c) eqn:E.
    + apply N.eqb_eq in E. subst c'. rewrite Hp in H. apply in_alist_del in H. exact (iv_pend g B s I c n' pc H).
    + exact (iv_pend g B s I c' n' pc H).
  - intro c'. unfold upd. destruct (c' =? c) eqn:E; [|apply (iv_calls g B s I)].
    apply (calls_wf_del (s_calls s c) st1 n Hp Hn). apply (iv_calls g B s I).
  - intros c' id x H. rewrite NID. exact (iv_done g B s I c' id x H).
  - intros c' id k H. rewrite NID. exact (iv_conts g B s I c' id k H).
  - apply (iv_kintro g B s I).
  - apply (iv_prox g B s I).
Qed.

Lemma inv_deliver_reply g B s c w : Inv g B s -> Inv g B (deliver_reply g s c w).
Proof.
  intro I. unfold deliver_reply.
  destruct (decode_body (g_fuel g) (w_msg w)) as [vals|e]; [|apply inv_set_dead; exact I].
  destruct (BusRoute.g_reply_serial (w_msg w)) as [n|]; [|exact I].
  destruct (alist_get N.eqb n (Calls.st_pending (s_calls s c))) as [pc|] eqn:G; [|exact I].
  assert (IDL : (Calls.pc_id pc < Calls.st_next_id (s_calls s c))%nat).
  { destruct (iv_calls g B s I c) as (_ & _ & C). apply (C n pc). apply aget_in. exact G. }
  destruct (BusRoute.g_type (w_msg w) =? 2).
  - destruct (reply_received_spec (s_calls s c) n pc
                (fun rs => Calls.cvt_reply (Some (abs_msg (BusRoute.g_signature (w_msg w)) vals)) rs) G) as (P1 & P2 & _).
    apply inv_finish.
    + apply (inv_set_calls_del g B s c _ n I P1 P2).
    + cbn [set_calls s_calls]. rewrite upd_same. unfold Calls.method_return_received. rewrite P2. exact IDL.
  - destruct (reply_received_spec (s_calls s c) n pc
                (fun _ => Calls.mk_remote_error (or_empty (BusRoute.g_error_name (w_msg w)))
                                                 (abs_msg (BusRoute.g_signature (w_msg w)) vals)) G) as (P1 & P2 & _).
    apply inv_finish.
    + apply (inv_set_calls_del g B s c _ n I P1 P2).
    + cbn [set_calls s_calls]. rewrite upd_same. unfold Calls.error_received. rewrite P2. exact IDL.
Qed.

(* --- replies put on the link --------------------------------------------------------- *)
Lemma tok_item_reply g c dc r n xml sd :
  Dispatch.r_dest r = Some sd -> Dispatch.r_serial r = Dispatch.c_serial dc ->
  tok_item (Up c, mkW (reply_msg g dc r n) xml) = [(sd, Z.to_N (Dispatch.c_serial dc))].
Proof.
  intros Hd Hs. unfold tok_item, reply_msg. cbn [fst snd w_msg].
  destruct (Dispatch.r_kind r); cbn; rewrite Hd, Hs; reflexivity.
Qed.

Lemma reply_msg_routable g dc r n c' :
  Dispatch.r_dest r = Some (unique_name c') -> routable (reply_msg g dc r n) (unique_name c').
Proof.
  intro Hd. unfold routable, reply_msg.
  destruct (Dispatch.r_kind r); cbn; (split; [reflexivity|]); (split; [exact Hd|]);
    (split; [apply unique_name_not_nil | apply unique_name_not_bus]).
Qed.

Lemma inv_send_replies g B s c dc rs c' :
  Inv g B s -> (length rs <= 1)%nat -> addressed_to dc rs ->
  Dispatch.c_sender dc = Some (unique_name c') ->
  (rs <> [] -> spent g s (tok_call dc)) ->
  Inv g B (send_replies g s c dc rs).
Proof.
  intros I L A HS SP. destruct rs as [|r [|r2 rs]]; [exact I | | cbn in L; lia].
  specialize (SP ltac:(discriminate)).
  destruct (A r (or_introl eq_refl)) as [Ad As]. rewrite HS in Ad.
  cbn [send_replies].
  set (p := proc_of g s c). set (n := p_serial p).
  set (s1 := set_procs s (updn (s_procs s) (g_proc g c) (set_serial p (n + 1)))).
  assert (SER : forall c0, p_serial (proc_of g s c0) <= p_serial (proc_of g s1 c0)).
  { intro c0. unfold proc_of, s1. cbn [s_procs set_procs]. unfold updn.
    destruct (Nat.eqb (g_proc g c0) (g_proc g c)) eqn:E; [|lia].
    apply Nat.eqb_eq in E. cbn [p_serial set_serial]. unfold n, p, proc_of. rewrite E. lia. }
  assert (I1 : Inv g B s1).
  { constructor; cbn [s1 set_procs s_bus s_closed s_net s_open s_calls s_conts s_done s_proxies].
    - apply (iv_bus g B s I). - apply (iv_closed g B s I). - apply (iv_net g B s I). - apply (iv_open g B s I).
    - apply (iv_once g B s I).
    - intros t H. destruct (iv_fresh g B s I t H) as (c0 & E & LT). exists c0. split; [exact E|]. specialize (SER c0). lia.
    - intros c0 n0 pc H. pose proof (iv_pend g B s I c0 n0 pc H). specialize (SER c0). lia.
    - apply (iv_calls g B s I). - apply (iv_done g B s I). - apply (iv_conts g B s I).
    - apply (iv_kintro g B s I). - apply (iv_prox g B s I). }
  destruct (Calls.max_serial <? n); [exact I1|].
  set (item := (Up c, mkW (reply_msg g dc r n) (xml_for (g_exports g c) dc r))).
  assert (TK : tok_item item = tok_call dc).
  { unfold item. rewrite (tok_item_reply g c dc r n _ (unique_name c') Ad As). unfold tok_call. rewrite HS. reflexivity. }
  assert (SB : same_but_net s1 (set_net s1 (s_net s1 ++ [item]))) by apply same_but_net_set.
  destruct I1 as [J1 J2 J3 J4 J5 J6 J7 J8 J9 J10 J11 J12].
  assert (TOK : tokens (set_net s1 (s_net s1 ++ [item])) = net_tokens (s_net s) ++ tok_call dc ++ open_tokens (s_open s)).
  { unfold tokens. cbn [s_net s_open set_net s1 set_procs]. rewrite net_tokens_app. cbn [net_tokens flat_map].
    rewrite TK, app_nil_r, <- app_assoc. reflexivity. }
  constructor; cbn [set_net s_bus s_closed s_open s_calls s_conts s_done s_proxies]; try assumption.
  - intros lk w H. cbn [s_net set_net] in H. apply in_app_or in H as [H|[H|[]]]; [exact (J3 lk w H)|].
    injection H as <- <-. cbn [item_ok w_msg]. exists (unique_name c'). apply reply_msg_routable. exact Ad.
  - intro t. rewrite TOK, !cnt_app. pose proof (iv_once g B s I t) as L1. unfold tokens in L1. rewrite cnt_app in L1.
    destruct (in_dec token_eq_dec t (tok_call dc)) as [IN|NI].
    + destruct (SP t IN) as [Z _]. unfold tokens in Z. rewrite cnt_app in Z.
      assert (cnt t (tok_call dc) <= 1)%nat.
      { unfold tok_call. rewrite HS. destruct (token_eq_dec (unique_name c', Z.to_N (Dispatch.c_serial dc)) t) as [->|NE];
          [rewrite cnt_one_same | rewrite cnt_one_other by exact NE]; lia. }
      lia.
    + apply cnt_zero_notin in NI. lia.
  - intros t H. rewrite TOK in H.
    assert (OLD : In t (tokens s) -> exists c0, fst t = unique_name c0 /\ snd t < p_serial (proc_of g s1 c0)).
    { intro H'. destruct (iv_fresh g B s I t H') as (c0 & E & LT). exists c0. split; [exact E|]. specialize (SER c0). lia. }
    apply in_app_or in H as [H|H]; [apply OLD; unfold tokens; apply in_or_app; left; exact H|].
    apply in_app_or in H as [H|H]; [|apply OLD; unfold tokens; apply in_or_app; right; exact H].
    destruct (SP t H) as [_ (c0 & E & LT)]. exists c0. split; [exact E|]. specialize (SER c0).
    change (proc_of g (set_net s1 (s_net s1 ++ [item])) c0) with (proc_of g s1 c0). lia.
Qed.

(* --- the dispatcher's bookkeeping ------------------------------------------------------ *)
Lemma inv_add_invs g B s c t invs res p c' :
  Inv g B s ->
  match p with
  | Some pd => Dispatch.c_sender (Dispatch.p_call pd) = Some (unique_name c') /\ spent g s (tok_call (Dispatch.p_call pd))
  | None => True
  end ->
  Inv g B (add_invs s c t invs res p).
Proof.
  intros I HP. destruct I as [J1 J2 J3 J4 J5 J6 J7 J8 J9 J10 J11 J12].
  destruct p as [pd|]; [|constructor; assumption].
  destruct HP as [HS SP].
  assert (TOK : tokens (add_invs s c t invs res (Some pd)) = tokens s ++ tok_call (Dispatch.p_call pd)).
  { unfold tokens. cbn [add_invs s_net s_open]. rewrite open_tokens_app. cbn [open_tokens flat_map tok_open snd].
    rewrite app_nil_r, app_assoc. reflexivity. }
  constructor; cbn [add_invs s_bus s_closed s_net s_calls s_conts s_done s_proxies]; try assumption.
  - intros c0 k0 p0 H. cbn [s_open] in H. apply in_app_or in H as [H|[H|[]]]; [exact (J4 c0 k0 p0 H)|].
    injection H as _ _ <-. exists c'. exact HS.
  - intro t0. rewrite TOK, cnt_app. specialize (J5 t0).
    destruct (in_dec token_eq_dec t0 (tok_call (Dispatch.p_call pd))) as [IN|NI].
    + destruct (SP t0 IN) as [Z _].
      assert (cnt t0 (tok_call (Dispatch.p_call pd)) <= 1)%nat.
      { unfold tok_call. rewrite HS.
        destruct (token_eq_dec (unique_name c', Z.to_N (Dispatch.c_serial (Dispatch.p_call pd))) t0) as [->|NE];
          [rewrite cnt_one_same | rewrite cnt_one_other by exact NE]; lia. }
      lia.
    + apply cnt_zero_notin in NI. lia.
  - intros t0 H. rewrite TOK in H. apply in_app_or in H as [H|H]; [exact (J6 t0 H)|].
    destruct (SP t0 H) as [_ X]. exact X.
Qed.

Lemma spent_add_invs_none g s c t invs res tk :
  spent g s tk -> spent g (add_invs s c t invs res None) tk.
Proof. intros SP t0 H. exact (SP t0 H). Qed.

(* a received call: its token is the one the link item carried *)
Lemma tok_call_of fuel m dc c w :
  w_msg w = m -> BusRoute.g_type m = 1 -> call_of fuel m = Ok dc ->
  tok_call dc = tok_item (Down c, w) /\ Dispatch.c_sender dc = BusRoute.g_sender m.
Proof.
  intros Hw Ht H. unfold call_of in H. destruct (decode_body fuel m) as [args|e]; [|discriminate].
  injection H as <-. unfold tok_call, tok_item. cbn [Dispatch.c_sender Dispatch.c_serial fst snd]. rewrite Hw, Ht.
  cbn [N.eqb Pos.eqb]. rewrite N2Z.id. split; reflexivity.
Qed.

Lemma inv_deliver_call g B s c w :
  Inv g B s -> item_ok B (Down c) (w_msg w) -> BusRoute.g_type (w_msg w) = 1 ->
  spent g s (tok_item (Down c, w)) ->
  Inv g B (deliver_call g s c (w_msg w)).
Proof.
  intros I OK Ht SP. unfold deliver_call.
  destruct (call_of (g_fuel g) (w_msg w)) as [dc|e] eqn:EC; [|apply inv_set_dead; exact I].
  destruct (tok_call_of _ _ _ c w eq_refl Ht EC) as [TK SD].
  destruct OK as (_ & SND & _). destruct (SND Ht) as (c' & HS). rewrite HS in SD.
  destruct (Dispatch.handle (g_exports g c) (g_beh g c) dc) as [e|rs invs p] eqn:EH; [apply inv_set_dead; exact I|].
  destruct (handle_shape _ _ _ _ _ _ EH) as (L & A & _ & PP).
  rewrite <- TK in SP.
  apply (inv_send_replies g B _ c dc rs c').
  - apply (inv_add_invs g B s c _ invs _ p c' I). destruct p as [pd|]; [|exact Logic.I].
    destruct PP as [_ ->]. split; [exact SD | exact SP].
  - exact L.
  - exact A.
  - exact SD.
  - intro NE. destruct p as [pd|]; [destruct PP as [-> _]; contradiction|].
    apply spent_add_invs_none. exact SP.
Qed.

(* --- AFire ------------------------------------------------------------------------------ *)
Lemma inv_fire g B s c key l : Inv g B s -> Inv g B (fire_open g s c key l).
Proof.
  intro I. unfold fire_open. destruct (take_open c key (s_open s)) as [[p rest]|] eqn:T; [|exact I].
  destruct (take_open_spec _ _ _ _ _ T) as (l1 & l2 & E & ->).
  destruct (iv_open g B s I c key p) as (c' & HS). { rewrite E. apply in_or_app. right. left. reflexivity. }
  destruct (fire_shape p l) as [L A].
  set (s1 := mkSys (s_bus s) (s_hist s) (s_closed s) (s_net s) (s_calls s) (s_conts s) (s_proxies s) (s_dead s)
                   (s_procs s) (l1 ++ l2) (s_next_open s) (s_invs s)
                   (s_results s ++ [(c, tag_of_call (Dispatch.p_call p), l)]) (s_done s) (s_raised s)).
  assert (TOK : forall t, cnt t (tokens s) = (cnt t (tokens s1) + cnt t (tok_call (Dispatch.p_call p)))%nat).
  { intro t. unfold tokens. cbn [s1 s_net s_open]. rewrite E, !open_tokens_app, open_tokens_cons, !cnt_app.
    unfold tok_open. cbn [snd]. lia. }
  assert (SUB : forall t, In t (tokens s1) -> In t (tokens s)).
  { intros t H. apply cnt_pos_in. apply cnt_pos_in in H. rewrite TOK. lia. }
  assert (I1 : Inv g B s1).
  { destruct I as [J1 J2 J3 J4 J5 J6 J7 J8 J9 J10 J11 J12].
    constructor; cbn [s1 s_bus s_closed s_net s_calls s_conts s_done s_proxies]; try assumption.
    - intros c0 k0 p0 H. cbn [s_open] in H. apply (J4 c0 k0 p0). rewrite E.
      apply in_app_or in H as [H|H]; apply in_or_app; [left; exact H | right; right; exact H].
    - intro t. specialize (J5 t). rewrite TOK in J5. lia.
    - intros t H. exact (J6 t (SUB t H)). }
  apply (inv_send_replies g B s1 c (Dispatch.p_call p) _ c' I1 L A HS).
  intros _ t H. split.
  - pose proof (iv_once g B s I t) as L1. rewrite TOK in L1.
    assert (0 < cnt t (tok_call (Dispatch.p_call p)))%nat by (apply cnt_pos_in; exact H). lia.
  - apply (iv_fresh g B s I t). apply cnt_pos_in. rewrite TOK.
    assert (0 < cnt t (tok_call (Dispatch.p_call p)))%nat by (apply cnt_pos_in; exact H). lia.
Qed.

(* --- ADown ------------------------------------------------------------------------------ *)
Lemma inv_down g B s c : Inv g B s -> Inv g B (step g s (ADown c)).
Proof.
  intro I. cbn [step]. destruct (take (Down c) (s_net s)) as [[w rest]|] eqn:T; [|exact I].
  destruct (take_spec _ _ _ _ T) as (l1 & l2 & E & ->).
  pose proof (inv_take g B s l1 _ l2 I E) as I0.
  pose proof (spent_take g B s l1 _ l2 I E) as SP.
  assert (OK : item_ok B (Down c) (w_msg w)).
  { apply (iv_net g B s I). rewrite E. apply in_or_app. right. left. reflexivity. }
  unfold client_deliver. destruct (is_dead (set_net s (l1 ++ l2)) c); [exact I0|].
  destruct (BusRoute.g_type (w_msg w) =? 1) eqn:E1.
  - apply N.eqb_eq in E1. apply inv_deliver_call; assumption.
  - destruct ((BusRoute.g_type (w_msg w) =? 2) || (BusRoute.g_type (w_msg w) =? 3)); [apply inv_deliver_reply; exact I0|].
    destruct (BusRoute.g_type (w_msg w) =? 4); [exact I0 | apply inv_set_dead; exact I0].
Qed.

(* --- the application ---------------------------------------------------------------------- *)
Lemma inv_world g B s c h k :
  Inv g B s -> Inv g B (set_procs s (updn (s_procs s) (g_proc g c) (set_world (proc_of g s c) h k))).
Proof.
  intro I. apply (inv_transfer g B s _ I).
  - constructor; try reflexivity. intro p. cbn. unfold proc_of. rewrite updn_serial. apply updn_self_serial.
  - exact (iv_done g B s I).
  - exact (iv_prox g B s I).
Qed.

Lemma inv_declare g B s c name ds noreg : Inv g B s -> Inv g B (declare_iface g s c name ds noreg).
Proof.
  intro I. unfold declare_iface.
  destruct (Introspect.declare (p_heap (proc_of g s c)) (p_known (proc_of g s c)) name ds noreg) as [[[h k] id]|e]; [|exact I].
  apply inv_world. exact I.
Qed.

Lemma inv_add_proxy g B s c px : Inv g B s -> px_bus px <> BusRoute.bus_name -> Inv g B (add_proxy s c px).
Proof.
  intros I H. apply (inv_transfer g B s _ I).
  - constructor; reflexivity.
  - exact (iv_done g B s I).
  - intros c' px' H'. cbn [add_proxy s_proxies] in H'. unfold upd in H'. destruct (c' =? c) eqn:E.
    + apply N.eqb_eq in E. subst c'. apply in_app_or in H' as [H'|[<-|[]]]; [exact (iv_prox g B s I c px' H') | exact H].
    + exact (iv_prox g B s I c' px' H').
Qed.

Lemma inv_get_remote g B s c bus path a replace : Inv g B s -> Inv g B (get_remote g s c bus path a replace).
Proof.
  intro I. unfold get_remote. destruct (str_eqb bus BusRoute.bus_name) eqn:E; [exact I|].
  assert (NB : bus <> BusRoute.bus_name). { intros ->. rewrite str_eqb_refl in E. discriminate. }
  destruct (get_remote_object (p_heap (proc_of g s c)) (p_known (proc_of g s c)) bus path a) as [px|required] eqn:G.
  - apply inv_add_proxy; [exact I|].
    unfold get_remote_object in G. destruct a as [|sp|l].
    + discriminate.
    + destruct (scan _ _ [sp] [] [] false) as [[ifl req] need]. destruct need; [discriminate|]. injection G as <-. exact NB.
    + destruct (scan _ _ l [] [] false) as [[ifl req] need]. destruct need; [discriminate|]. injection G as <-. exact NB.
  - apply (inv_conn_call g B s c _ _ bus I); [reflexivity | exact NB|].
    intros r req b p0 H. injection H as _ _ <- _. exact NB.
Qed.

Lemma call_remote_dest ifs bus path member args kw q :
  call_remote ifs bus path member args kw = PcCall q -> q_dest q = Some bus.
Proof.
  unfold call_remote. destruct (find_method (kw_iface kw) member ifs) as [[i [m|sg|pr]]|]; try discriminate.
  - destruct (negb (Z.of_nat (length args) =? Introspect.m_nargs m)%Z); [discriminate|]. intro H. injection H as <-. reflexivity.
  - destruct (negb (Z.of_nat (length args) =? Introspect.s_nargs sg)%Z); discriminate.
Qed.

Lemma inv_add_raised g B s c r : Inv g B s -> Inv g B (add_raised s c r).
Proof. intro I. destruct I. constructor; assumption. Qed.

Lemma inv_proxy_call g B s c pidx member args kw : Inv g B s -> Inv g B (proxy_call g s c pidx member args kw).
Proof.
  intro I. unfold proxy_call. destruct (nth_error (s_proxies s c) pidx) as [px|] eqn:NT; [|exact I].
  destruct (call_remote _ (px_bus px) (px_path px) member args kw) as [| | |q] eqn:CR; try (apply inv_add_raised; exact I).
  apply (inv_conn_call g B s c q KUser (px_bus px) I (call_remote_dest _ _ _ _ _ _ _ CR)).
  - apply (iv_prox g B s I c px). exact (nth_error_In _ _ NT).
  - intros r req b p0 H. discriminate.
Qed.

Theorem inv_step g B s a : all_hello B -> Inv g B s -> Inv g B (step g s a).
Proof.
  intros AH I. destruct a.
  - apply inv_declare. exact I.
  - apply inv_get_remote. exact I.
  - apply inv_proxy_call. exact I.
  - apply inv_up; assumption.
  - apply inv_down. exact I.
  - apply inv_fire. exact I.
Qed.

Lemma calls_wf_init n : calls_wf (Calls.init n).
Proof. split; [constructor|]. split; [constructor | intros ? ? []]. Qed.

Lemma inv_init h0 serial0 g : Inv g (fst (BusRoute.run h0)) (init h0 serial0).
Proof.
  constructor; cbn; try reflexivity; try (intros; contradiction).
  - intro t. lia.
  - intro c. apply calls_wf_init.
Qed.

Theorem inv_run g h0 serial0 sched :
  all_hello (fst (BusRoute.run h0)) -> Inv g (fst (BusRoute.run h0)) (run g h0 serial0 sched).
Proof.
  intro AH. unfold run, run_from. generalize (inv_init h0 serial0 g). generalize (init h0 serial0).
  induction sched as [|a r IH]; intros s I; [exact I|]. cbn [fold_left]. apply IH. apply inv_step; assumption.
Qed.

(* --- send_replies, at most one reply ---------------------------------------------------------------- *)
Lemma send_replies_spec g s c dc' rs :
  (length rs <= 1)%nat ->
  let s' := send_replies g s c dc' rs in
  s_calls s' = s_calls s /\ s_conts s' = s_conts s /\ s_done s' = s_done s /\ s_dead s' = s_dead s /\
  s_open s' = s_open s /\ s_invs s' = s_invs s /\ s_results s' = s_results s /\
  (forall c0, p_serial (proc_of g s c0) <= p_serial (proc_of g s' c0)) /\
  match rs with
  | [] => s_net s' = s_net s
  | r :: _ =>
      let n0 := p_serial (proc_of g s c) in
      p_serial (proc_of g s' c) = n0 + 1 /\
      if Calls.max_serial <? n0 then s_net s' = s_net s
      else s_net s' = s_net s ++ [(Up c, mkW (reply_msg g dc' r n0) (xml_for (g_exports g c) dc' r))]
  end.
Proof.
  intro L. destruct rs as [|r [|r2 rs]]; [| |cbn in L; lia].
  - cbn. repeat split; try reflexivity; intro c0; lia.
  - cbn [send_replies]. set (n0 := p_serial (proc_of g s c)).
    assert (MONO : forall c0, p_serial (proc_of g s c0) <=
                              p_serial (updn (s_procs s) (g_proc g c) (set_serial (proc_of g s c) (n0 + 1)) (g_proc g c0))).
    { intro c0. unfold updn. destruct (Nat.eqb (g_proc g c0) (g_proc g c)) eqn:E; [|unfold proc_of; lia].
      apply Nat.eqb_eq in E. cbn [p_serial set_serial]. unfold n0, proc_of. rewrite E. lia. }
    destruct (Calls.max_serial <? n0) eqn:EM; cbn; repeat split; try reflexivity; try exact MONO;
      unfold proc_of; cbn; rewrite updn_same; reflexivity.
Qed.

(* ======================================================================== *)
(* 7b. the codec on the way (C01: marshal_refines / unmarshal_inverts)        *)

Lemma show_nonempty t : show t <> [].
Proof. destruct t; cbn; discriminate. Qed.

Lemma show_list_nil ts : show_list ts = [] -> ts = [].
Proof.
  destruct ts as [|t ts]; [reflexivity|]. unfold show_list. cbn [flat_map]. intro H.
  apply app_eq_nil in H as [H _]. exfalso. exact (show_nonempty t H).
Qed.

Lemma conf_seq_nil vs ws : conf_seq [] vs ws -> vs = [] /\ ws = [].
Proof. destruct vs, ws; cbn; try contradiction. intros _. split; reflexivity. Qed.

(* encoding a conforming argument list and decoding the bytes gives the read-back *)
Lemma codec_roundtrip fuel ts vals vs ws fds :
  seq_items vals = Ok vs -> passed ts vs ws fuel ->
  exists body,
    encode_body fuel (Some (show_list ts)) vals fds = Ok body /\
    forall mm, BusRoute.g_signature mm = Some (show_list ts) -> BusRoute.g_body mm = body ->
               BusRoute.g_le mm = true -> decode_body fuel mm = Ok (arrived ts ws).
Proof.
  intros HI [PC PW PD PS]. unfold encode_body, decode_body, arrived.
  destruct (show_list ts) as [|c r] eqn:ES.
  - exists []. split; [reflexivity|]. intros mm H1 _ _. rewrite H1.
    apply show_list_nil in ES. subst ts. destruct (conf_seq_nil _ _ PC) as [_ ->]. reflexivity.
  - pose proof (MarshalProofs.marshal_refines ts vals vs ws 0 true fds fuel HI PC PD PS) as M.
    rewrite ES in M. cbn [N.of_nat] in M. rewrite M.
    exists (enc_seq ts ws 0 true). split; [reflexivity|]. intros mm H1 H2 H3. rewrite H1, H2, H3.
    pose proof (UnmarshalProofs.unmarshal_inverts [] true ts ws [] [] fuel PW PD PS) as U.
    rewrite ES in U. cbn [app length] in U. rewrite app_nil_r in U. change (len []) with 0 in U. rewrite U. reflexivity.
Qed.

(* the dispatcher's own encoder (its own fuel) *)
Lemma encode_out_refines ts vals vs ws :
  seq_items vals = Ok vs -> conf_seq ts vs ws -> returned_fits ts vals ws ->
  len (enc_seq ts ws 0 true) < 4294967296 ->
  exists b, Dispatch.encode_out (show_list ts) vals = Ok b /\
            (show_list ts <> [] -> b = enc_seq ts ws 0 true).
Proof.
  intros HI PC PF PS. unfold Dispatch.encode_out. destruct (show_list ts) as [|c r] eqn:ES.
  - exists []. split; [reflexivity | congruence].
  - pose proof (MarshalProofs.marshal_refines ts vals vs ws 0 true None
                  (length (show_list ts) + 4 * pv_size vals + 8) HI PC PF PS) as M.
    rewrite ES in M. cbn [N.of_nat] in M. rewrite M. eexists. split; [reflexivity | intros _; reflexivity].
Qed.

(* _cbCvtReply is the documented convention when the reply carries the declared signature *)
Lemma cvt_pv_convention s vals :
  (s = [] -> vals = []) ->
  cvt_pv (match s with [] => None | x => Some x end) vals (Calls.RsStr s) = CValue (convention_pv s vals).
Proof.
  intro HE. destruct s as [|c r].
  - rewrite (HE eq_refl). reflexivity.
  - unfold cvt_pv, cvt_check_fails. cbn [Calls.truthy_sig negb orb Calls.sig_ne]. rewrite str_eqb_refl. cbn [negb].
    unfold py_body. cbn [Calls.truthy_sig]. unfold convention_pv.
    destruct vals as [|v [|v2 vs]]; try reflexivity.
    unfold Calls.sig_first_is_paren. cbn [starts_with]. rewrite (N.eqb_sym 40 c), andb_true_r.
    destruct (c =? 40); reflexivity.
Qed.

(* ======================================================================== *)
(* 9. the exporters' logs only mention calls that were made                   *)

Definition good_tag (g : config) (s : sys) (tg0 : tag) : Prop :=
  exists c' k, tg0 = (Some (unique_name c'), Z.of_N k) /\ k < p_serial (proc_of g s c').

Record LogInv (g : config) (s : sys) : Prop := mkLog {
  li_invs : forall c0 tg0 x, In (c0, tg0, x) (s_invs s) -> good_tag g s tg0;
  li_results : forall c0 tg0 x, In (c0, tg0, x) (s_results s) -> good_tag g s tg0;
  li_open : forall c0 k p, In (c0, k, p) (s_open s) -> good_tag g s (tag_of_call (Dispatch.p_call p))
}.

Lemma good_tag_mono g s s' tg0 :
  (forall c0, p_serial (proc_of g s c0) <= p_serial (proc_of g s' c0)) -> good_tag g s tg0 -> good_tag g s' tg0.
Proof. intros M (c' & k & E & L). exists c', k. split; [exact E|]. specialize (M c'). lia. Qed.

Lemma loginv_frame g s s' :
  (forall c0, p_serial (proc_of g s c0) <= p_serial (proc_of g s' c0)) ->
  s_invs s' = s_invs s -> s_results s' = s_results s -> s_open s' = s_open s ->
  LogInv g s -> LogInv g s'.
Proof.
  intros M E1 E2 E3 [L1 L2 L3]. constructor.
  - rewrite E1. intros c0 tg0 x H. exact (good_tag_mono g s s' _ M (L1 c0 tg0 x H)).
  - rewrite E2. intros c0 tg0 x H. exact (good_tag_mono g s s' _ M (L2 c0 tg0 x H)).
  - rewrite E3. intros c0 k p H. exact (good_tag_mono g s s' _ M (L3 c0 k p H)).
Qed.

Lemma loginv_conn_call g s c q k : LogInv g s -> LogInv g (conn_call g s c q k).
Proof.
  intro L. destruct (conn_call_spec g s c q k) as [F _].
  apply (loginv_frame g s); [intro c0; exact (serial_mono_frame g s c k _ c0 F) | apply (cf_invs _ _ _ _ _ F) |
                             apply (cf_results _ _ _ _ _ F) | apply (cf_open _ _ _ _ _ F) | exact L].
Qed.

Lemma loginv_step g B s a : all_hello B -> Inv g B s -> LogInv g s -> LogInv g (step g s a).
Proof.
  intros AH I L. destruct a as [c name ds noreg|c bus path a replace|c pidx mem args kw|c|c|c key l]; cbn [step].
  - unfold declare_iface. destruct (Introspect.declare _ _ name ds noreg) as [[[h k] x]|e]; [|exact L].
    apply (loginv_frame g s); [|reflexivity|reflexivity|reflexivity|exact L].
    intro c0. unfold proc_of. cbn. rewrite updn_serial, updn_self_serial. reflexivity.
  - unfold get_remote. destruct (str_eqb bus BusRoute.bus_name); [exact L|].
    destruct (get_remote_object _ _ bus path a) as [px|required]; [|apply loginv_conn_call; exact L].
    apply (loginv_frame g s); [intro c0; reflexivity|reflexivity|reflexivity|reflexivity|exact L].
  - unfold proxy_call. destruct (nth_error (s_proxies s c) pidx) as [px|]; [|exact L].
    destruct (call_remote _ (px_bus px) (px_path px) mem args kw) as [| | |q'];
      try (apply (loginv_frame g s); [intro c0; reflexivity|reflexivity|reflexivity|reflexivity|exact L]).
    apply loginv_conn_call. exact L.
  - destruct (step_up_spec g B s c (iv_bus g B s I) (iv_closed g B s I) AH (iv_net g B s I))
      as [E|(w & l1 & l2 & new & E & SB & EN & NEW)]; [cbn [step] in E; rewrite E; exact L|].
    cbn [step] in SB. destruct SB as [B1 B2 B3 B4 B5 B6 B7 B8 B9 B10 B11].
    apply (loginv_frame g s); try assumption. intro c0. unfold proc_of. rewrite B7. reflexivity.
  - destruct (take (Down c) (s_net s)) as [[w rest]|] eqn:TKE; [|exact L].
    destruct (take_spec _ _ _ _ TKE) as (l1 & l2 & E & ->).
    assert (OK : item_ok B (Down c) (w_msg w)).
    { apply (iv_net g B s I). rewrite E. apply in_or_app. right. left. reflexivity. }
    assert (L0 : LogInv g (set_net s (l1 ++ l2)))
      by (apply (loginv_frame g s); [intro c0; reflexivity|reflexivity|reflexivity|reflexivity|exact L]).
    assert (LD : LogInv g (set_dead (set_net s (l1 ++ l2)) c))
      by (apply (loginv_frame g s); [intro c0; reflexivity|reflexivity|reflexivity|reflexivity|exact L]).
    unfold client_deliver. destruct (is_dead (set_net s (l1 ++ l2)) c); [exact L0|].
    destruct (BusRoute.g_type (w_msg w) =? 1) eqn:E1.
    + apply N.eqb_eq in E1. unfold deliver_call.
      destruct (call_of (g_fuel g) (w_msg w)) as [dc'|e] eqn:EC; [|exact LD].
      destruct (Dispatch.handle (g_exports g c) (g_beh g c) dc') as [e|rs invs p] eqn:EH; [exact LD|].
      destruct (handle_shape _ _ _ _ _ _ EH) as (LN & _ & _ & PP).
      set (s1 := add_invs (set_net s (l1 ++ l2)) c (tag_of_call dc') invs (results_now (g_beh g c) invs) p).
      destruct (send_replies_spec g s1 c dc' rs LN) as (_ & _ & _ & _ & S5 & S6 & S7 & S8 & _).
      (* the tag of the call just read *)
      assert (GT : good_tag g s (tag_of_call dc')).
      { destruct OK as (_ & SND & _). destruct (SND E1) as (c' & HS).
        unfold call_of in EC. destruct (decode_body (g_fuel g) (w_msg w)); [|discriminate]. injection EC as <-.
        unfold tag_of_call. cbn [Dispatch.c_sender Dispatch.c_serial]. rewrite HS.
        exists c', (BusRoute.g_serial (w_msg w)). split; [reflexivity|].
        destruct (iv_fresh g B s I (unique_name c', BusRoute.g_serial (w_msg w))) as (c2 & E2 & LT).
        { unfold tokens. rewrite E, net_tokens_app, net_tokens_cons. apply in_or_app. left. apply in_or_app. right.
          apply in_or_app. left. unfold tok_item. cbn [fst snd]. rewrite E1, HS. left. reflexivity. }
        cbn [fst snd] in *. apply BusNamesProofs.unique_name_inj in E2. subst c2. exact LT. }
      assert (L1 : LogInv g s1).
      { destruct L as [A1 A2 A3]. constructor; cbn [s1 add_invs s_invs s_results s_open].
        - intros c0 tg0 x H. apply in_app_or in H as [H|H]; [exact (A1 c0 tg0 x H)|].
          apply in_map_iff in H as (iv & EQ & _). injection EQ as _ <- _. exact GT.
        - intros c0 tg0 x H. apply in_app_or in H as [H|H]; [exact (A2 c0 tg0 x H)|].
          apply in_map_iff in H as (iv & EQ & _). injection EQ as _ <- _. exact GT.
        - intros c0 k0 p0 H. destruct p as [pd|]; [|exact (A3 c0 k0 p0 H)].
          apply in_app_or in H as [H|[H|[]]]; [exact (A3 c0 k0 p0 H)|]. injection H as _ _ <-.
          destruct PP as [_ ->]. exact GT. }
      apply (loginv_frame g s1); assumption.
    + destruct ((BusRoute.g_type (w_msg w) =? 2) || (BusRoute.g_type (w_msg w) =? 3)).
      * unfold deliver_reply. destruct (decode_body (g_fuel g) (w_msg w)) as [vals|e]; [|exact LD].
        destruct (BusRoute.g_reply_serial (w_msg w)) as [n'|]; [|exact L0].
        destruct (alist_get N.eqb n' (Calls.st_pending (s_calls (set_net s (l1 ++ l2)) c))) as [pc|]; [|exact L0].
        destruct (BusRoute.g_type (w_msg w) =? 2);
          match goal with |- LogInv g (finish g ?S1 ?C ?I ?X ?XML) =>
            destruct (finish_spec g S1 C I X XML) as ([_ _ _ _ _ _ B7 B8 B9 B10] & _ & _);
            apply (loginv_frame g s); [intro c0; unfold proc_of; rewrite B10; reflexivity | exact B8 | exact B9 | exact B7 | exact L]
          end.
      * destruct (BusRoute.g_type (w_msg w) =? 4); [exact L0 | exact LD].
  - unfold fire_open. destruct (take_open c key (s_open s)) as [[p rest]|] eqn:TK; [|exact L].
    destruct (take_open_spec _ _ _ _ _ TK) as (l1 & l2 & E & ->).
    destruct (fire_shape p l) as [LN _].
    set (s1 := mkSys (s_bus s) (s_hist s) (s_closed s) (s_net s) (s_calls s) (s_conts s) (s_proxies s) (s_dead s)
                     (s_procs s) (l1 ++ l2) (s_next_open s) (s_invs s)
                     (s_results s ++ [(c, tag_of_call (Dispatch.p_call p), l)]) (s_done s) (s_raised s)).
    destruct (send_replies_spec g s1 c (Dispatch.p_call p) (Dispatch.fire p l) LN) as (_ & _ & _ & _ & S5 & S6 & S7 & S8 & _).
    assert (L1 : LogInv g s1).
    { destruct L as [A1 A2 A3]. constructor; cbn [s1 s_invs s_results s_open].
      - exact A1.
      - intros c0 tg0 x H. apply in_app_or in H as [H|[H|[]]]; [exact (A2 c0 tg0 x H)|]. injection H as _ <- _.
        apply (A3 c key p). rewrite E. apply in_or_app. right. left. reflexivity.
      - intros c0 k0 p0 H. apply (A3 c0 k0 p0). rewrite E. apply in_app_or in H as [H|H]; apply in_or_app; [left | right; right]; exact H. }
    apply (loginv_frame g s1); assumption.
Qed.

Lemma loginv_init g h0 serial0 : LogInv g (init h0 serial0).
Proof. constructor; cbn; intros; contradiction. Qed.

Lemma loginv_run g h0 serial0 sched :
  all_hello (fst (BusRoute.run h0)) -> LogInv g (run g h0 serial0 sched).
Proof.
  intro AH. unfold run, run_from.
  generalize (inv_init h0 serial0 g) (loginv_init g h0 serial0). generalize (init h0 serial0).
  induction sched as [|a r IH]; intros s I L; [exact L|]. cbn [fold_left].
  apply IH; [apply inv_step; assumption | apply (loginv_step g _ s a AH I L)].
Qed.


(* ======================================================================== *)
(* 8. one call, tracked                                                       *)

Definition has_tag {A} (tg : tag) (x : client * tag * A) : bool :=
  let '(_, t, _) := x in
  match fst t, fst tg with
  | Some a, Some b => str_eqb a b && Z.eqb (snd t) (snd tg)
  | None, None => Z.eqb (snd t) (snd tg)
  | _, _ => false
  end.

Definition is_done (i : client) (id : nat) (x : client * nat * completion) : bool :=
  let '(c, k, _) := x in (c =? i) && Nat.eqb k id.

Lemma has_tag_same {A} tg c (x : A) : has_tag tg (c, tg, x) = true.
Proof.
  unfold has_tag. destruct tg as [[a|] z]; cbn [fst snd]; rewrite ?str_eqb_refl, Z.eqb_refl; reflexivity.
Qed.

Lemma has_tag_true {A} tg c t (x : A) : has_tag tg (c, t, x) = true -> t = tg.
Proof.
  unfold has_tag. destruct t as [[a|] z], tg as [[b|] z']; cbn [fst snd]; intro H; try discriminate.
  - apply andb_true_iff in H as [H1 H2]. apply str_eqb_spec in H1. apply Z.eqb_eq in H2. subst. reflexivity.
  - apply Z.eqb_eq in H. subst. reflexivity.
Qed.

Section Tracked.
  Variable g : config.
  Variable B : BusRoute.state.
  Variables i j : client.                  (* the caller, the exporter *)
  Variable id : nat.                       (* the number of the caller's Deferred *)
  Variable n : N.                          (* the serial of the request *)
  Variable q : creq.
  Variable body : bytes.
  Variable d : str.
  Variable dc : Dispatch.call.             (* the call as the exporter reads it *)
  Variable m : Dispatch.meth.
  Variable inv0 : Dispatch.invocation.

  Let t : token := (unique_name i, n).
  Let tg : tag := (Some (unique_name i), Z.of_N n).
  Let req : BusRoute.bmsg := call_msg q n body.
  Let H0 : Dispatch.hres := Dispatch.handle (g_exports g j) (g_beh g j) dc.

  Hypothesis AH : all_hello B.
  Hypothesis Ai : mem i (b_clients (BusRoute.r_bus B)) = true.
  Hypothesis Aj : mem j (b_clients (BusRoute.r_bus B)) = true.
  Hypothesis Hdest : q_dest q = Some d.
  Hypothesis Hroute : route B d = Some j.
  Hypothesis Hexpect : q_expect q = true.
  Hypothesis Hcall : call_of (g_fuel g) (forwarded i req) = Ok dc.
  Hypothesis Hdisp :
    H0 = Dispatch.HDone
           (match g_beh g j inv0 with
            | Dispatch.OValue v => Dispatch.send_reply dc m v
            | Dispatch.ORaise e => Dispatch.send_failure false dc e
            | Dispatch.ODeferred => []
            end)
           [inv0]
           (match g_beh g j inv0 with Dispatch.ODeferred => Some (Dispatch.mkPend dc m) | _ => None end).
  Hypothesis Hone : forall l, exists r, Dispatch.all_replies H0 l = [r].    (* exactly one reply: C10_reply_count *)

  Definition stuck (s : sys) : Prop :=
    is_dead s i = true \/ is_dead s j = true \/ Calls.max_serial < p_serial (proc_of g s j).

  Definition common (s : sys) : Prop :=
    (exists tm, alist_get N.eqb n (Calls.st_pending (s_calls s i)) = Some (Calls.PCall id tm (q_rs q))) /\
    cont_of s i id = KUser /\
    filter (is_done i id) (s_done s) = [].

  Definition closed (s : sys) (x : completion) : Prop :=
    filter (is_done i id) (s_done s) = [(i, id, x)] /\
    (forall n' pc, In (n', pc) (Calls.st_pending (s_calls s i)) -> Calls.pc_id pc <> id) /\
    n < p_serial (proc_of g s i).

  Definition logs0 (s : sys) : Prop :=
    filter (has_tag tg) (s_invs s) = [] /\ filter (has_tag tg) (s_results s) = [].
  Definition logs1 (s : sys) : Prop :=
    filter (has_tag tg) (s_invs s) = [(j, tg, inv0)] /\ filter (has_tag tg) (s_results s) = [].
  Definition logs2 (s : sys) (l : Dispatch.later) : Prop :=
    filter (has_tag tg) (s_invs s) = [(j, tg, inv0)] /\ filter (has_tag tg) (s_results s) = [(j, tg, l)].

  (* r is the reply when the method ended as l says *)
  Definition replied (l : Dispatch.later) (r : Dispatch.reply) : Prop :=
    Dispatch.all_replies H0 l = [r] /\
    match g_beh g j inv0 with
    | Dispatch.OValue v => l = Dispatch.LValue v
    | Dispatch.ORaise e => l = Dispatch.LFail e
    | Dispatch.ODeferred => True
    end.

  (* what the caller's Deferred delivers for the reply r *)
  Definition completes (r : Dispatch.reply) (x : completion) : Prop :=
    let mm := reply_msg g dc r 0 in
    exists vals, decode_body (g_fuel g) mm = Ok vals /\
      x = if BusRoute.g_type mm =? 2 then cvt_pv (BusRoute.g_signature mm) vals (q_rs q)
          else remote_pv (or_empty (BusRoute.g_error_name mm)) (BusRoute.g_signature mm) vals.

  Inductive Track (s : sys) : Prop :=
  | TStuck : stuck s -> Track s
  | TA : common s -> logs0 s -> In (Up i, mkW req None) (s_net s) -> Track s
  | TB : common s -> logs0 s -> In (Down j, mkW (forwarded i req) None) (s_net s) -> Track s
  | TC key : common s -> logs1 s -> In (j, key, Dispatch.mkPend dc m) (s_open s) ->
             g_beh g j inv0 = Dispatch.ODeferred -> Track s
  | TD l r sn xml : common s -> logs2 s l -> replied l r ->
                    In (Up j, mkW (reply_msg g dc r sn) xml) (s_net s) -> Track s
  | TE l r sn xml : common s -> logs2 s l -> replied l r ->
                    In (Down i, mkW (forwarded j (reply_msg g dc r sn)) xml) (s_net s) -> Track s
  | TF l r x : closed s x -> logs2 s l -> replied l r -> completes r x -> cnt t (tokens s) = 0%nat -> Track s.

  (* --- the tokens of this call --------------------------------------------------- *)
  Lemma req_valid : BusRoute.valid_type req = true.
  Proof. reflexivity. Qed.

  Lemma req_routable : d <> [] -> d <> BusRoute.bus_name -> routable req d.
  Proof. intros A1 A2. split; [reflexivity|]. split; [exact Hdest|]. split; assumption. Qed.

  Lemma tok_req xml : tok_item (Up i, mkW req xml) = [t].
  Proof. reflexivity. Qed.

  Lemma tok_req_down xml : tok_item (Down j, mkW (forwarded i req) xml) = [t].
  Proof. exact (tok_item_forwarded i (mkW req xml) j xml req_valid). Qed.

  Lemma dc_fields :
    Dispatch.c_sender dc = Some (unique_name i) /\ Dispatch.c_serial dc = Z.of_N n /\
    tag_of_call dc = tg /\ tok_call dc = [t].
  Proof.
    pose proof Hcall as H. unfold call_of in H.
    destruct (decode_body (g_fuel g) (forwarded i req)) as [args|e]; [|discriminate]. injection H as <-.
    unfold tag_of_call, tok_call. cbn [Dispatch.c_sender Dispatch.c_serial].
    change (BusRoute.g_sender (forwarded i req)) with (Some (unique_name i)).
    change (BusRoute.g_serial (forwarded i req)) with n.
    rewrite N2Z.id. repeat split; reflexivity.
  Qed.

  Lemma replied_addressed l r : replied l r ->
    Dispatch.r_dest r = Some (unique_name i) /\ Dispatch.r_serial r = Z.of_N n.
  Proof.
    intros [R _]. destruct dc_fields as (S1 & S2 & _ & _).
    assert (A : addressed_to dc (Dispatch.all_replies H0 l)).
    { unfold H0 in *. rewrite Hdisp. cbn [Dispatch.all_replies].
      destruct (g_beh g j inv0) as [v|e|].
      - apply send_reply_shape.
      - apply send_failure_shape.
      - cbn [app]. exact (proj2 (fire_shape (Dispatch.mkPend dc m) l)). }
    rewrite R in A. destruct (A r (or_introl eq_refl)) as [A1 A2]. rewrite S1 in A1. rewrite S2 in A2. split; assumption.
  Qed.

  Lemma tok_reply l r sn xml : replied l r -> tok_item (Up j, mkW (reply_msg g dc r sn) xml) = [t].
  Proof.
    intro R. destruct (replied_addressed l r R) as [A1 A2]. destruct dc_fields as (_ & S2 & _ & _).
    rewrite (tok_item_reply g j dc r sn xml (unique_name i) A1); [|rewrite A2, S2; reflexivity].
    rewrite S2, N2Z.id. reflexivity.
  Qed.

  Lemma reply_valid r sn : BusRoute.valid_type (reply_msg g dc r sn) = true.
  Proof. unfold reply_msg. destruct (Dispatch.r_kind r); reflexivity. Qed.

  Lemma tok_reply_down l r sn xml : replied l r ->
    tok_item (Down i, mkW (forwarded j (reply_msg g dc r sn)) xml) = [t].
  Proof.
    intro R. rewrite <- (tok_reply l r sn xml R).
    exact (tok_item_forwarded j (mkW (reply_msg g dc r sn) xml) i xml (reply_valid r sn)).
  Qed.

  Lemma tok_pend key : tok_open (j, key, Dispatch.mkPend dc m) = [t].
  Proof. unfold tok_open. cbn [snd Dispatch.p_call]. exact (proj2 (proj2 (proj2 dc_fields))). Qed.

  (* a call with this tag has this token *)
  Lemma tag_token dc' : tag_of_call dc' = tg -> tok_call dc' = [t].
  Proof.
    unfold tag_of_call, tok_call, tg. intro H. injection H as H1 H2. rewrite H1, H2, N2Z.id. reflexivity.
  Qed.

  (* --- where a token can be ---------------------------------------------------------- *)
  Lemma cnt_in_net y l : In y l -> tok_item y = [t] -> (1 <= cnt t (net_tokens l))%nat.
  Proof.
    intros H E. apply in_split in H as (l1 & l2 & ->). rewrite net_tokens_app, net_tokens_cons, !cnt_app, E, cnt_one_same. lia.
  Qed.

  Lemma cnt_in_open y l : In y l -> tok_open y = [t] -> (1 <= cnt t (open_tokens l))%nat.
  Proof.
    intros H E. apply in_split in H as (l1 & l2 & ->). rewrite open_tokens_app, open_tokens_cons, !cnt_app, E, cnt_one_same. lia.
  Qed.
  (* --- what Track reads ------------------------------------------------------------------- *)
  Lemma in_middle {A} (y x : A) l1 l2 : In y (l1 ++ x :: l2) -> y = x \/ In y (l1 ++ l2).
  Proof.
    intro H. apply in_app_or in H as [H|[H|H]]; [right; apply in_or_app; left; exact H | left; symmetry; exact H |
                                                 right; apply in_or_app; right; exact H].
  Qed.

  Lemma common_ext s s' :
    s_calls s' i = s_calls s i -> cont_of s' i id = cont_of s i id -> s_done s' = s_done s ->
    common s -> common s'.
  Proof. intros E1 E2 E3 (A & C & D). unfold common. rewrite E1, E2, E3. repeat split; assumption. Qed.

  Lemma closed_ext s s' x :
    s_calls s' i = s_calls s i -> s_done s' = s_done s -> p_serial (proc_of g s i) <= p_serial (proc_of g s' i) ->
    closed s x -> closed s' x.
  Proof. intros E1 E2 E3 (A & C & D). unfold closed. rewrite E1, E2. repeat split; try assumption. lia. Qed.

  Lemma stuck_ext s s' :
    s_dead s' = s_dead s -> p_serial (proc_of g s j) <= p_serial (proc_of g s' j) -> stuck s -> stuck s'.
  Proof.
    intros E1 E2 [H|[H|H]]; unfold stuck, is_dead in *; rewrite E1; [left | right; left | right; right]; try assumption. lia.
  Qed.

  Lemma cont_of_ext s s' : s_conts s' = s_conts s -> cont_of s' i id = cont_of s i id.
  Proof. intro E. unfold cont_of. rewrite E. reflexivity. Qed.

  (* --- AUp ------------------------------------------------------------------------------------ *)
  Lemma track_up s c : Inv g B s -> Track s -> Track (step g s (AUp c)).
  Proof.
    intros I T.
    destruct (step_up_spec g B s c (iv_bus g B s I) (iv_closed g B s I) AH (iv_net g B s I))
      as [->|(w & l1 & l2 & new & E & SB & EN & NEW)]; [exact T|].
    set (s' := step g s (AUp c)) in *. clearbody s'.
    destruct SB as [B1 B2 B3 B4 B5 B6 B7 B8 B9 B10 B11].
    assert (CM : common s -> common s').
    { apply common_ext; [rewrite B3; reflexivity | apply cont_of_ext; exact B4 | exact B11]. }
    assert (PS : forall c0, proc_of g s' c0 = proc_of g s c0) by (intro c0; unfold proc_of; rewrite B7; reflexivity).
    assert (L0 : logs0 s -> logs0 s') by (unfold logs0; rewrite B9, B10; tauto).
    assert (L1 : logs1 s -> logs1 s') by (unfold logs1; rewrite B9, B10; tauto).
    assert (L2 : forall l, logs2 s l -> logs2 s' l) by (intro l; unfold logs2; rewrite B9, B10; tauto).
    assert (KEEP : forall y, In y (l1 ++ l2) -> In y (s_net s')).
    { intros y H. rewrite EN, app_assoc. apply in_or_app. left. exact H. }
    destruct T as [ST|C L IN|C L IN|key C L IN BH|l r sn xml C L R IN|l r sn xml C L R IN|l r x C L R CP Z].
    - apply TStuck. apply (stuck_ext s s'); [exact B6 | rewrite PS; lia | exact ST].
    - rewrite E in IN. apply in_middle in IN as [IN|IN]; [|apply TA; auto].
      injection IN as <- <-.
      destruct NEW as [[M _]|[(d' & R' & RT & _)|(o & d' & R' & RT & ->)]].
      + rewrite Ai in M. discriminate.
      + destruct R' as (_ & D' & _). cbn [w_msg] in D'. change (BusRoute.g_destination req) with (q_dest q) in D'.
        rewrite Hdest in D'. injection D' as <-. rewrite Hroute in RT. discriminate.
      + destruct R' as (_ & D' & _). cbn [w_msg] in D'. change (BusRoute.g_destination req) with (q_dest q) in D'.
        rewrite Hdest in D'. injection D' as <-. rewrite Hroute in RT. injection RT as <-.
        apply TB; auto. rewrite EN. apply in_or_app. right. apply in_or_app. right. left. reflexivity.
    - rewrite E in IN. apply in_middle in IN as [IN|IN]; [discriminate|]. apply TB; auto.
    - apply (TC s' key); auto. rewrite B8. exact IN.
    - rewrite E in IN. apply in_middle in IN as [IN|IN]; [|apply (TD s' l r sn xml); auto].
      injection IN as <- <-. destruct (replied_addressed l r R) as [AD _].
      assert (DD : BusRoute.g_destination (reply_msg g dc r sn) = Some (unique_name i)).
      { unfold reply_msg. destruct (Dispatch.r_kind r); cbn; exact AD. }
      pose proof (route_unique B i Ai) as RU.
      destruct NEW as [[M _]|[(d' & R' & RT & _)|(o & d' & R' & RT & ->)]].
      + rewrite Aj in M. discriminate.
      + destruct R' as (_ & D' & _). cbn [w_msg] in D'. rewrite DD in D'. injection D' as <-. rewrite RU in RT. discriminate.
      + destruct R' as (_ & D' & _). cbn [w_msg] in D'. rewrite DD in D'. injection D' as <-. rewrite RU in RT. injection RT as <-.
        apply (TE s' l r sn xml); auto. rewrite EN. apply in_or_app. right. apply in_or_app. right. left. reflexivity.
    - rewrite E in IN. apply in_middle in IN as [IN|IN]; [discriminate|]. apply (TE s' l r sn xml); auto.
    - apply (TF s' l r x); auto.
      + apply (closed_ext s s'); [rewrite B3; reflexivity | exact B11 | rewrite PS; lia | exact C].
      + unfold tokens in *. rewrite B8. rewrite cnt_app in *. rewrite EN, E in *.
        rewrite !net_tokens_app, net_tokens_cons, !cnt_app in *.
        destruct NEW as [[_ ->]|[(d' & _ & _ & ->)|(o & d' & R' & RT & ->)]]; cbn [net_tokens flat_map]; rewrite ?cnt_nil; try lia.
        rewrite app_nil_r, (tok_item_forwarded c w o (w_xml w) (proj1 R')). lia.
  Qed.


  (* --- calls made by the application ------------------------------------------------------------ *)
  Lemma is_done_other c k x : (c, k) <> (i, id) -> is_done i id (c, k, x) = false.
  Proof.
    intro H. unfold is_done. destruct (c =? i) eqn:E1; [|reflexivity]. destruct (Nat.eqb k id) eqn:E2; [|reflexivity].
    apply N.eqb_eq in E1. apply Nat.eqb_eq in E2. subst. contradiction.
  Qed.

  Lemma common_id_lt s : Inv g B s -> common s -> (id < Calls.st_next_id (s_calls s i))%nat /\ n < p_serial (proc_of g s i).
  Proof.
    intros I ((tm & P) & _ & _). apply aget_in in P. split.
    - destruct (iv_calls g B s I i) as (_ & _ & C). exact (C n _ P).
    - exact (iv_pend g B s I i n _ P).
  Qed.

  Lemma closed_id_lt s x : Inv g B s -> closed s x -> (id < Calls.st_next_id (s_calls s i))%nat.
  Proof.
    intros I (D & _ & _). apply (iv_done g B s I i id x).
    assert (In (i, id, x) (filter (is_done i id) (s_done s))) by (rewrite D; left; reflexivity).
    apply filter_In in H. exact (proj1 H).
  Qed.

  Lemma track_conn_call s c q' k :
    Inv g B s -> Track s -> Track (conn_call g s c q' k).
  Proof.
    intros I T. destruct (conn_call_spec g s c q' k) as [F O].
    set (s' := conn_call g s c q' k) in *. clearbody s'.
    pose proof (fun c0 => serial_mono_frame g s c k s' c0 F) as MONO.
    assert (NETI : forall y, In y (s_net s) -> In y (s_net s')).
    { intros y H. destruct O; rewrite Hnet; try exact H; apply in_or_app; left; exact H. }
    assert (DONE : forall k0, (k0 < Calls.st_next_id (s_calls s i))%nat ->
                   filter (is_done i k0) (s_done s') = filter (is_done i k0) (s_done s)).
    { intros k0 LT. destruct O; rewrite Hdone; try reflexivity; apply filter_app_nil; unfold is_done;
        (destruct (c =? i) eqn:E1; [|reflexivity]); apply N.eqb_eq in E1; subst c;
        (destruct (Nat.eqb (Calls.st_next_id (s_calls s i)) k0) eqn:E2; [apply Nat.eqb_eq in E2; lia | reflexivity]). }
    assert (CONT : (id < Calls.st_next_id (s_calls s i))%nat -> cont_of s' i id = cont_of s i id).
    { intro LT. unfold cont_of. rewrite (cf_conts _ _ _ _ _ F). unfold upd. destruct (i =? c) eqn:E; [|reflexivity].
      apply N.eqb_eq in E. subst c. rewrite nat_aget_app_other; [reflexivity | lia]. }
    assert (CM : common s -> common s').
    { intro C. destruct (common_id_lt s I C) as [LT LN]. destruct C as ((tm & P) & CT & D).
      split; [|split; [rewrite (CONT LT); exact CT | rewrite (DONE id LT); exact D]].
      destruct (N.eq_dec c i) as [->|NE]; [|exists tm; rewrite (cf_calls_other _ _ _ _ _ F i (not_eq_sym NE)); exact P].
      exists tm. destruct O; rewrite Hpend; try exact P. rewrite aget_set_other; [exact P | lia]. }
    assert (LG0 : logs0 s -> logs0 s') by (unfold logs0; rewrite (cf_invs _ _ _ _ _ F), (cf_results _ _ _ _ _ F); tauto).
    assert (LG1 : logs1 s -> logs1 s') by (unfold logs1; rewrite (cf_invs _ _ _ _ _ F), (cf_results _ _ _ _ _ F); tauto).
    assert (LG2 : forall l, logs2 s l -> logs2 s' l)
      by (intro l; unfold logs2; rewrite (cf_invs _ _ _ _ _ F), (cf_results _ _ _ _ _ F); tauto).
    destruct T as [ST|C L IN|C L IN|key C L IN BH|l r sn xml C L R IN|l r sn xml C L R IN|l r x C L R CP Z].
    - apply TStuck. apply (stuck_ext s s'); [exact (cf_dead _ _ _ _ _ F) | apply MONO | exact ST].
    - apply TA; auto.
    - apply TB; auto.
    - apply (TC s' key); auto. rewrite (cf_open _ _ _ _ _ F). exact IN.
    - apply (TD s' l r sn xml); auto.
    - apply (TE s' l r sn xml); auto.
    - pose proof (closed_id_lt s x I C) as LT. destruct C as (D & PN & LN).
      apply (TF s' l r x); auto.
      + split; [rewrite (DONE id LT); exact D|]. split; [|specialize (MONO i); lia].
        intros n' pc H. destruct (N.eq_dec c i) as [->|NE]; [|rewrite (cf_calls_other _ _ _ _ _ F i (not_eq_sym NE)) in H; exact (PN n' pc H)].
        destruct O; rewrite Hpend in H; try exact (PN n' pc H).
        apply in_alist_set in H as [[_ ->]|H]; [cbn [Calls.pc_id]; lia | exact (PN n' pc H)].
      + assert (NT : forall bd, cnt t (tok_item (Up c, mkW (call_msg q' (p_serial (proc_of g s c)) bd) None)) = 0%nat).
        { intro bd. rewrite tok_item_call. apply cnt_one_other. intro EQ. unfold t in EQ.
          pose proof (f_equal fst EQ) as EQ1. pose proof (f_equal snd EQ) as EQ2. cbn [fst snd] in EQ1, EQ2.
          apply BusNamesProofs.unique_name_inj in EQ1. subst c. lia. }
        unfold tokens in *. rewrite (cf_open _ _ _ _ _ F). rewrite cnt_app in *.
        destruct O; rewrite Hnet; try exact Z; rewrite net_tokens_app, cnt_app; cbn [net_tokens flat_map];
          rewrite app_nil_r, NT; lia.
  Qed.

  Lemma track_world s c h k :
    Track s -> Track (set_procs s (updn (s_procs s) (g_proc g c) (set_world (proc_of g s c) h k))).
  Proof.
    intro T. set (s' := set_procs s _).
    assert (PS : forall c0, p_serial (proc_of g s' c0) = p_serial (proc_of g s c0)).
    { intro c0. unfold proc_of, s'. cbn [s_procs set_procs]. rewrite updn_serial. apply updn_self_serial. }
    destruct T as [ST|C L IN|C L IN|key C L IN BH|l r sn xml C L R IN|l r sn xml C L R IN|l r x C L R CP Z].
    - apply TStuck. apply (stuck_ext s s'); [reflexivity | rewrite PS; lia | exact ST].
    - apply TA; auto. - apply TB; auto. - apply (TC s' key); auto.
    - apply (TD s' l r sn xml); auto. - apply (TE s' l r sn xml); auto.
    - apply (TF s' l r x); auto. apply (closed_ext s s'); [reflexivity | reflexivity | rewrite PS; lia | exact C].
  Qed.

  Lemma track_same s s' :
    s_calls s' = s_calls s -> s_conts s' = s_conts s -> s_done s' = s_done s -> s_net s' = s_net s ->
    s_open s' = s_open s -> s_invs s' = s_invs s -> s_results s' = s_results s -> s_dead s' = s_dead s ->
    s_procs s' = s_procs s -> Track s -> Track s'.
  Proof.
    intros E1 E2 E3 E4 E5 E6 E7 E8 E9 T.
    assert (CM : common s -> common s') by (apply common_ext; [rewrite E1; reflexivity | apply cont_of_ext; exact E2 | exact E3]).
    assert (PS : forall c0, proc_of g s' c0 = proc_of g s c0) by (intro c0; unfold proc_of; rewrite E9; reflexivity).
    destruct T as [ST|C L IN|C L IN|key C L IN BH|l r sn xml C L R IN|l r sn xml C L R IN|l r x C L R CP Z].
    - apply TStuck. apply (stuck_ext s s'); [exact E8 | rewrite PS; lia | exact ST].
    - apply TA; auto; [unfold logs0; rewrite E6, E7; exact L | rewrite E4; exact IN].
    - apply TB; auto; [unfold logs0; rewrite E6, E7; exact L | rewrite E4; exact IN].
    - apply (TC s' key); auto; [unfold logs1; rewrite E6, E7; exact L | rewrite E5; exact IN].
    - apply (TD s' l r sn xml); auto; [unfold logs2; rewrite E6, E7; exact L | rewrite E4; exact IN].
    - apply (TE s' l r sn xml); auto; [unfold logs2; rewrite E6, E7; exact L | rewrite E4; exact IN].
    - apply (TF s' l r x); auto.
      + apply (closed_ext s s'); [rewrite E1; reflexivity | exact E3 | rewrite PS; lia | exact C].
      + unfold logs2; rewrite E6, E7; exact L.
      + unfold tokens. rewrite E4, E5. exact Z.
  Qed.

  Lemma track_app s a :
    Inv g B s ->
    match a with ADeclare _ _ _ _ | AProxy _ _ _ _ _ | ACall _ _ _ _ _ => True | _ => False end ->
    Track s -> Track (step g s a).
  Proof.
    intros I HA T. destruct a as [c name ds noreg|c bus path a replace|c pidx mem args kw| | |]; try contradiction; cbn [step].
    - unfold declare_iface. destruct (Introspect.declare _ _ name ds noreg) as [[[h k] x]|e]; [|exact T].
      apply track_world. exact T.
    - unfold get_remote. destruct (str_eqb bus BusRoute.bus_name); [exact T|].
      destruct (get_remote_object _ _ bus path a) as [px|required].
      + apply (track_same s); try reflexivity. exact T.
      + apply track_conn_call; assumption.
    - unfold proxy_call. destruct (nth_error (s_proxies s c) pidx) as [px|]; [|exact T].
      destruct (call_remote _ (px_bus px) (px_path px) mem args kw) as [| | |q'];
        try (apply (track_same s); try reflexivity; exact T).
      apply track_conn_call; assumption.
  Qed.


  (* --- a step that does not concern this call ---------------------------------------------------- *)
  Lemma track_frame s s' :
    (forall v, alist_get N.eqb n (Calls.st_pending (s_calls s i)) = Some v ->
               alist_get N.eqb n (Calls.st_pending (s_calls s' i)) = Some v) ->
    (forall n' pc, In (n', pc) (Calls.st_pending (s_calls s' i)) -> Calls.pc_id pc = id ->
                   In (n', pc) (Calls.st_pending (s_calls s i))) ->
    cont_of s' i id = cont_of s i id ->
    filter (is_done i id) (s_done s') = filter (is_done i id) (s_done s) ->
    (forall c0, mem c0 (s_dead s) = true -> mem c0 (s_dead s') = true) ->
    (forall c0, p_serial (proc_of g s c0) <= p_serial (proc_of g s' c0)) ->
    (forall y, In y (s_net s) -> In y (s_net s')) ->
    (forall y, In y (s_open s) -> tok_open y = [t] -> In y (s_open s')) ->
    filter (has_tag tg) (s_invs s') = filter (has_tag tg) (s_invs s) ->
    filter (has_tag tg) (s_results s') = filter (has_tag tg) (s_results s) ->
    (cnt t (tokens s) = 0%nat -> cnt t (tokens s') = 0%nat) ->
    Track s -> Track s'.
  Proof.
    intros PK PSub E2 E3 E4 MONO NETI OPENI EI ER EZ T.
    assert (CM : common s -> common s').
    { intros ((tm & P) & C & D). split; [exists tm; apply PK; exact P|]. split; [rewrite E2; exact C | rewrite E3; exact D]. }
    destruct T as [ST|C L IN|C L IN|key C L IN BH|l r sn xml C L R IN|l r sn xml C L R IN|l r x C L R CP Z].
    - apply TStuck. destruct ST as [H|[H|H]]; [left; apply E4; exact H | right; left; apply E4; exact H|].
      right. right. specialize (MONO j). lia.
    - apply TA; auto. unfold logs0. rewrite EI, ER. exact L.
    - apply TB; auto. unfold logs0. rewrite EI, ER. exact L.
    - apply (TC s' key); auto; [unfold logs1; rewrite EI, ER; exact L | apply OPENI; [exact IN | apply tok_pend]].
    - apply (TD s' l r sn xml); auto. unfold logs2. rewrite EI, ER. exact L.
    - apply (TE s' l r sn xml); auto. unfold logs2. rewrite EI, ER. exact L.
    - apply (TF s' l r x); auto.
      + destruct C as (D & PN & LN). split; [rewrite E3; exact D|]. split; [|specialize (MONO i); lia].
        intros n' pc H EQ. exact (PN n' pc (PSub n' pc H EQ) EQ).
      + unfold logs2. rewrite EI, ER. exact L.
  Qed.

  (* where this call's token is, in the phases that have one *)
  Lemma token_place s :
    Inv g B s -> Track s ->
    stuck s \/ (1 <= cnt t (net_tokens (s_net s)))%nat \/ (1 <= cnt t (open_tokens (s_open s)))%nat \/
    cnt t (tokens s) = 0%nat.
  Proof.
    intros I T.
    destruct T as [ST|C L IN|C L IN|key C L IN BH|l r sn xml C L R IN|l r sn xml C L R IN|l r x C L R CP Z].
    - left. exact ST.
    - right. left. exact (cnt_in_net _ _ IN (tok_req None)).
    - right. left. exact (cnt_in_net _ _ IN (tok_req_down None)).
    - right. right. left. exact (cnt_in_open _ _ IN (tok_pend key)).
    - right. left. exact (cnt_in_net _ _ IN (tok_reply l r sn xml R)).
    - right. left. exact (cnt_in_net _ _ IN (tok_reply_down l r sn xml R)).
    - right. right. right. exact Z.
  Qed.




  Lemma has_tag_other {A} c0 dc' (x : A) : cnt t (tok_call dc') = 0%nat -> has_tag tg (c0, tag_of_call dc', x) = false.
  Proof.
    intro Z. destruct (has_tag tg (c0, tag_of_call dc', x)) eqn:E; [|reflexivity].
    apply has_tag_true in E. rewrite (tag_token dc' E), cnt_one_same in Z. discriminate.
  Qed.

  Lemma cnt_reply_item c dc' r n0 xml :
    addressed_to dc' [r] -> cnt t (tok_call dc') = 0%nat ->
    cnt t (tok_item (Up c, mkW (reply_msg g dc' r n0) xml)) = 0%nat.
  Proof.
    intros A Z. destruct (A r (or_introl eq_refl)) as [A1 A2].
    destruct (Dispatch.c_sender dc') as [sd|] eqn:ES.
    - rewrite (tok_item_reply g c dc' r n0 xml sd A1 A2). unfold tok_call in Z. rewrite ES in Z. exact Z.
    - unfold tok_item, reply_msg. destruct (Dispatch.r_kind r); cbn; rewrite A1; reflexivity.
  Qed.

  (* --- AFire --------------------------------------------------------------------------------------------- *)
  Lemma track_fire s c key l : Inv g B s -> Track s -> Track (fire_open g s c key l).
  Proof.
    intros I T. unfold fire_open. destruct (take_open c key (s_open s)) as [[p rest]|] eqn:TK; [|exact T].
    destruct (take_open_spec _ _ _ _ _ TK) as (l1 & l2 & E & ->).
    destruct (fire_shape p l) as [L A].
    set (s1 := mkSys (s_bus s) (s_hist s) (s_closed s) (s_net s) (s_calls s) (s_conts s) (s_proxies s) (s_dead s)
                     (s_procs s) (l1 ++ l2) (s_next_open s) (s_invs s)
                     (s_results s ++ [(c, tag_of_call (Dispatch.p_call p), l)]) (s_done s) (s_raised s)).
    destruct (send_replies_spec g s1 c (Dispatch.p_call p) (Dispatch.fire p l) L)
      as (S1 & S2 & S3 & S4 & S5 & S6 & S7 & S8 & S9).
    set (s' := send_replies g s1 c (Dispatch.p_call p) (Dispatch.fire p l)) in *. clearbody s'.
    assert (OWN : forall key0, In (j, key0, Dispatch.mkPend dc m) (s_open s) ->
                  (j, key0, Dispatch.mkPend dc m) = (c, key, p) \/ cnt t (tok_open (c, key, p)) = 0%nat).
    { intros key0 IN. rewrite E in IN. apply in_middle in IN as [IN|IN]; [left; exact IN | right].
      pose proof (iv_once g B s I t) as L1. unfold tokens in L1. rewrite E, open_tokens_app, open_tokens_cons, !cnt_app in L1.
      pose proof (cnt_in_open _ _ IN (tok_pend key0)) as L2. rewrite open_tokens_app, cnt_app in L2. lia. }
    (* the Deferred that fired is not this call's *)
    assert (OTHER : cnt t (tok_open (c, key, p)) = 0%nat -> Track s').
    { intro Z. unfold tok_open in Z. cbn [snd] in Z.
      apply (track_frame s s').
      - intros v H. rewrite S1. exact H.
      - intros n' pc H _. rewrite S1 in H. exact H.
      - apply cont_of_ext. rewrite S2. reflexivity.
      - rewrite S3. reflexivity.
      - intros c0 H. rewrite S4. exact H.
      - intro c0. specialize (S8 c0). exact S8.
      - intros y H. destruct (Dispatch.fire p l) as [|r rs]; [rewrite S9; exact H|].
        destruct S9 as [_ S9]. destruct (Calls.max_serial <? _); rewrite S9; [exact H | apply in_or_app; left; exact H].
      - intros y H TY. rewrite S5. cbn [s1 s_open]. rewrite E in H. apply in_middle in H as [->|H]; [|exact H].
        unfold tok_open in TY. cbn [snd] in TY. rewrite TY, cnt_one_same in Z. discriminate.
      - rewrite S6. reflexivity.
      - rewrite S7. cbn [s1 s_results]. apply filter_app_nil. apply has_tag_other. exact Z.
      - intro Z0. unfold tokens in *. rewrite S5. cbn [s1 s_open]. rewrite E, open_tokens_app, open_tokens_cons, !cnt_app in Z0.
        rewrite open_tokens_app, !cnt_app.
        destruct (Dispatch.fire p l) as [|r [|r2 rs]]; [rewrite S9; cbn [s1 s_net]; lia| |cbn in L; lia].
        destruct S9 as [_ S9]. destruct (Calls.max_serial <? _); rewrite S9; cbn [s1 s_net]; [lia|].
        rewrite net_tokens_app, cnt_app. cbn [net_tokens flat_map]. rewrite app_nil_r, (cnt_reply_item c _ r _ _ A Z). lia.
      - exact T. }
    destruct T as [ST|C LG IN|C LG IN|key0 C LG IN BH|l0 r sn xml C LG R IN|l0 r sn xml C LG R IN|l0 r x C LG R CP Z];
      try (apply OTHER;
           pose proof (iv_once g B s I t) as L1; unfold tokens in L1; rewrite E, open_tokens_app, open_tokens_cons, !cnt_app in L1;
           first [ pose proof (cnt_in_net _ _ IN (tok_req None)) as L2
                 | pose proof (cnt_in_net _ _ IN (tok_req_down None)) as L2
                 | pose proof (cnt_in_net _ _ IN (tok_reply l0 r sn xml R)) as L2
                 | pose proof (cnt_in_net _ _ IN (tok_reply_down l0 r sn xml R)) as L2 ]; lia).
    - (* stuck stays stuck *)
      apply TStuck. apply (stuck_ext s s'); [rewrite S4; reflexivity | apply S8 | exact ST].
    - (* an open Deferred of this call *)
      destruct (OWN key0 IN) as [EQ|Z]; [|apply OTHER; exact Z].
      injection EQ as <- <- <-. cbn [Dispatch.p_call] in *.
      destruct (Hone l) as [r HR]. pose proof HR as HR'. rewrite Hdisp, BH in HR'. cbn [Dispatch.all_replies app] in HR'.
      rewrite HR' in *.
      assert (RP : replied l r) by (split; [exact HR | rewrite BH; exact Logic.I]).
      destruct S9 as [SN S9].
      assert (CM : common s').
      { apply (common_ext s s'); try (first [rewrite S1 | rewrite S3]; reflexivity); [|exact C]. apply cont_of_ext. rewrite S2. reflexivity. }
      assert (LG2 : logs2 s' l).
      { destruct LG as [G1 G2]. split; [rewrite S6; exact G1|]. rewrite S7. cbn [s1 s_results].
        rewrite filter_app_one; [rewrite G2; rewrite (proj1 (proj2 (proj2 dc_fields))); reflexivity|].
        rewrite (proj1 (proj2 (proj2 dc_fields))). apply has_tag_same. }
      destruct (Calls.max_serial <? p_serial (proc_of g s1 j)) eqn:EM.
      + apply TStuck. right. right. apply N.ltb_lt in EM. rewrite SN. lia.
      + apply (TD s' l r (p_serial (proc_of g s1 j)) (xml_for (g_exports g j) dc r)); auto.
        rewrite S9. apply in_or_app. right. left. reflexivity.
    - (* completed: nothing of this call is left *)
      apply OTHER. unfold tokens in Z. rewrite E, open_tokens_app, open_tokens_cons, !cnt_app in Z. lia.
  Qed.


  (* --- ADown: a message that is not this call's --------------------------------------------------------- *)
  Lemma track_take s l1 x l2 :
    Inv g B s -> s_net s = l1 ++ x :: l2 -> cnt t (tok_item x) = 0%nat -> Track s -> Track (set_net s (l1 ++ l2)).
  Proof.
    intros I E Z T.
    assert (KEEP : forall y, In y (s_net s) -> tok_item y = [t] -> In y (l1 ++ l2)).
    { intros y H TY. rewrite E in H. apply in_middle in H as [->|H]; [|exact H]. rewrite TY, cnt_one_same in Z. discriminate. }
    set (s' := set_net s (l1 ++ l2)).
    assert (CM : common s -> common s') by (intro C; exact C).
    destruct T as [ST|C L IN|C L IN|key C L IN BH|l r sn xml C L R IN|l r sn xml C L R IN|l r x0 C L R CP Z0].
    - apply TStuck. exact ST.
    - apply TA; auto; exact (KEEP _ IN (tok_req None)).
    - apply TB; auto; exact (KEEP _ IN (tok_req_down None)).
    - apply (TC s' key); auto.
    - apply (TD s' l r sn xml); auto; exact (KEEP _ IN (tok_reply l r sn xml R)).
    - apply (TE s' l r sn xml); auto; exact (KEEP _ IN (tok_reply_down l r sn xml R)).
    - apply (TF s' l r x0); auto. unfold tokens in *. cbn [s' s_net s_open set_net].
      rewrite E, !net_tokens_app, net_tokens_cons, !cnt_app in Z0. rewrite net_tokens_app, !cnt_app. lia.
  Qed.

  Lemma track_set_dead s c : Track s -> Track (set_dead s c).
  Proof.
    intro T. apply (track_frame s (set_dead s c)); try reflexivity; try (intros; assumption); try exact T.
    intros c0 H. cbn [s_dead set_dead mem existsb]. unfold mem in H. rewrite H. apply orb_true_r.
  Qed.

  Lemma track_deliver_call_other s c w :
    Inv g B s -> item_ok B (Down c) (w_msg w) -> BusRoute.g_type (w_msg w) = 1 ->
    cnt t (tok_item (Down c, w)) = 0%nat -> Track s -> Track (deliver_call g s c (w_msg w)).
  Proof.
    intros I OK Ht Z T. unfold deliver_call.
    destruct (call_of (g_fuel g) (w_msg w)) as [dc'|e] eqn:EC; [|apply track_set_dead; exact T].
    destruct (tok_call_of _ _ _ c w eq_refl Ht EC) as [TK _]. rewrite <- TK in Z.
    destruct (Dispatch.handle (g_exports g c) (g_beh g c) dc') as [e|rs invs p] eqn:EH; [apply track_set_dead; exact T|].
    destruct (handle_shape _ _ _ _ _ _ EH) as (L & A & _ & PP).
    set (s1 := add_invs s c (tag_of_call dc') invs (results_now (g_beh g c) invs) p).
    destruct (send_replies_spec g s1 c dc' rs L) as (S1 & S2 & S3 & S4 & S5 & S6 & S7 & S8 & S9).
    set (s' := send_replies g s1 c dc' rs) in *. clearbody s'.
    apply (track_frame s s').
    - intros v H. rewrite S1. exact H.
    - intros n' pc H _. rewrite S1 in H. exact H.
    - apply cont_of_ext. rewrite S2. reflexivity.
    - rewrite S3. reflexivity.
    - intros c0 H. rewrite S4. exact H.
    - intro c0. exact (S8 c0).
    - intros y H. destruct rs as [|r rs]; [rewrite S9; exact H|].
      destruct S9 as [_ S9]. destruct (Calls.max_serial <? _); rewrite S9; [exact H | apply in_or_app; left; exact H].
    - intros y H _. rewrite S5. cbn [s1 add_invs s_open]. destruct p; [apply in_or_app; left; exact H | exact H].
    - rewrite S6. cbn [s1 add_invs s_invs]. rewrite filter_app, filter_none_map; [apply app_nil_r|].
      intros a _. apply has_tag_other. exact Z.
    - rewrite S7. cbn [s1 add_invs s_results]. rewrite filter_app, filter_none_map; [apply app_nil_r|].
      intros a _. apply has_tag_other. exact Z.
    - intro Z0. unfold tokens in *. rewrite S5. cbn [s1 add_invs s_open]. rewrite cnt_app in *.
      assert (OP : cnt t (open_tokens (match p with Some x => s_open s ++ [(c, s_next_open s, x)] | None => s_open s end))
                   = cnt t (open_tokens (s_open s))).
      { destruct p as [pd|]; [|reflexivity]. destruct PP as [_ PC]. rewrite open_tokens_app, cnt_app.
        unfold open_tokens at 2. cbn [flat_map]. unfold tok_open. cbn [snd]. rewrite PC, app_nil_r, Z. lia. }
      rewrite OP. destruct rs as [|r [|r2 rs]]; [rewrite S9; cbn [s1 add_invs s_net]; exact Z0| |cbn in L; lia].
      destruct S9 as [_ S9]. destruct (Calls.max_serial <? _); rewrite S9; cbn [s1 add_invs s_net]; [exact Z0|].
      rewrite net_tokens_app, cnt_app. cbn [net_tokens flat_map]. rewrite app_nil_r, (cnt_reply_item c _ r _ _ A Z). lia.
    - exact T.
  Qed.


  Lemma nodup_map_inj {A C} (f : A -> C) l a b : NoDup (map f l) -> In a l -> In b l -> f a = f b -> a = b.
  Proof.
    induction l as [|x l IH]; intros ND Ha Hb E; [destruct Ha|]. cbn [map] in ND. inversion ND as [|? ? N1 N2]; subst.
    destruct Ha as [->|Ha], Hb as [->|Hb]; try reflexivity.
    - exfalso. apply N1. rewrite E. apply in_map. exact Hb.
    - exfalso. apply N1. rewrite <- E. apply in_map. exact Ha.
    - exact (IH N2 Ha Hb E).
  Qed.

  Lemma route_unique_inv c0 c : route B (unique_name c0) = Some c -> c0 = c.
  Proof.
    unfold route, BusRoute.resolve.
    assert (exists r, unique_name c0 = 58 :: r) as [r Er] by (unfold unique_name; cbn [app]; eexists; reflexivity).
    rewrite Er. change (58 =? c_colon) with true. cbv iota. rewrite <- Er. intro F. apply find_some in F as [_ F].
    apply str_eqb_spec in F. apply BusNamesProofs.unique_name_inj in F. symmetry. exact F.
  Qed.

  Lemma stuck_dec s : stuck s \/ ~ stuck s.
  Proof.
    unfold stuck. destruct (is_dead s i); [left; left; reflexivity|]. destruct (is_dead s j); [left; right; left; reflexivity|].
    destruct (N.lt_decidable Calls.max_serial (p_serial (proc_of g s j))) as [H|H]; [left; right; right; exact H|].
    right. intros [X|[X|X]]; [discriminate | discriminate | contradiction].
  Qed.

  (* another pending call of the caller has another Deferred *)
  Lemma other_pending_id s n' pc :
    Inv g B s -> Track s -> ~ stuck s ->
    alist_get N.eqb n' (Calls.st_pending (s_calls s i)) = Some pc -> n' <> n -> Calls.pc_id pc <> id.
  Proof.
    intros I T NS G NE. apply aget_in in G.
    assert (CMN : common s -> Calls.pc_id pc <> id).
    { intros ((tm & P) & _ & _) EQ. apply aget_in in P. destruct (iv_calls g B s I i) as (_ & ND & _).
      assert (X : (n', pc) = (n, Calls.PCall id tm (q_rs q))).
      { apply (nodup_map_inj (fun e => Calls.pc_id (snd e)) _ _ _ ND G P). cbn [snd Calls.pc_id]. exact EQ. }
      injection X as X _. contradiction. }
    destruct T as [ST|C L IN|C L IN|key C L IN BH|l r sn xml C L R IN|l r sn xml C L R IN|l r x C L R CP Z]; auto.
    destruct C as (_ & PN & _). exact (PN n' pc G).
  Qed.

  Lemma track_deliver_reply_other s c w :
    Inv g B s -> item_ok B (Down c) (w_msg w) -> spent g s (tok_item (Down c, w)) ->
    BusRoute.g_type (w_msg w) = 2 \/ BusRoute.g_type (w_msg w) = 3 ->
    cnt t (tok_item (Down c, w)) = 0%nat -> Track s -> Track (deliver_reply g s c w).
  Proof.
    intros I OK SP TY Z T. unfold deliver_reply.
    destruct (decode_body (g_fuel g) (w_msg w)) as [vals|e]; [|apply track_set_dead; exact T].
    destruct (BusRoute.g_reply_serial (w_msg w)) as [n'|] eqn:ERS; [|exact T].
    destruct (alist_get N.eqb n' (Calls.st_pending (s_calls s c))) as [pc|] eqn:G; [|exact T].
    (* the token of this reply names the receiving client *)
    assert (NN : c = i -> n' <> n).
    { intros -> ->. destruct OK as (_ & _ & (d' & D' & RT)).
      assert (TKX : tok_item (Down i, w) = [(d', n)]).
      { unfold tok_item. cbn [fst snd]. destruct TY as [E|E]; rewrite E; cbn; rewrite D', ERS; reflexivity. }
      rewrite TKX in SP, Z. destruct (SP _ (or_introl eq_refl)) as [_ (c0 & E0 & _)]. cbn [fst] in E0. subst d'.
      apply route_unique_inv in RT. subst c0. unfold t in Z. rewrite cnt_one_same in Z. discriminate. }
    set (st1 := if BusRoute.g_type (w_msg w) =? 2
                then Calls.method_return_received (s_calls s c) n' (abs_msg (BusRoute.g_signature (w_msg w)) vals)
                else Calls.error_received (s_calls s c) n' (or_empty (BusRoute.g_error_name (w_msg w)))
                                          (abs_msg (BusRoute.g_signature (w_msg w)) vals)).
    assert (P1 : Calls.st_pending st1 = alist_del N.eqb n' (Calls.st_pending (s_calls s c))).
    { unfold st1. destruct (BusRoute.g_type (w_msg w) =? 2);
        [exact (proj1 (reply_received_spec _ _ _ _ G)) | exact (proj1 (reply_received_spec _ _ _ _ G))]. }
    assert (GOAL : forall x xml, Track (finish g (set_calls s c st1) c (Calls.pc_id pc) x xml)).
    { intros x xml. destruct (finish_spec g (set_calls s c st1) c (Calls.pc_id pc) x xml) as (SC & (x' & HD & _) & _).
      set (s' := finish g (set_calls s c st1) c (Calls.pc_id pc) x xml) in *. clearbody s'.
      destruct SC as [B1 B2 B3 B4 B5 B6 B7 B8 B9 B10]. cbn [set_calls s_bus s_closed s_net s_calls s_conts s_dead s_open s_invs s_results s_procs] in *.
      assert (STK : stuck s -> stuck s').
      { intros [H|[H|H]]; unfold stuck, is_dead; rewrite B6; [left; exact H | right; left; exact H|].
        right. right. unfold proc_of. rewrite B10. exact H. }
      destruct (stuck_dec s) as [ST|NS]; [apply TStuck; apply STK; exact ST|].
      apply (track_frame s s').
      - intros v H. rewrite B4. unfold upd. destruct (i =? c) eqn:E; [|exact H].
        apply N.eqb_eq in E. subst c. rewrite P1, aget_del_other; [exact H | exact (NN eq_refl)].
      - intros n2 pc2 H _. rewrite B4 in H. unfold upd in H. destruct (i =? c) eqn:E; [|exact H].
        apply N.eqb_eq in E. subst c. rewrite P1 in H. exact (in_alist_del _ _ _ H).
      - apply cont_of_ext. exact B5.
      - rewrite HD. apply filter_app_nil. apply is_done_other. intro EQ. injection EQ as -> EQ.
        exact (other_pending_id s n' pc I T NS G (NN eq_refl) EQ).
      - intros c0 H. rewrite B6. exact H.
      - intro c0. unfold proc_of. rewrite B10. lia.
      - intros y H. rewrite B3. exact H.
      - intros y H _. rewrite B7. exact H.
      - rewrite B8. reflexivity.
      - rewrite B9. reflexivity.
      - intro Z0. unfold tokens. rewrite B3, B7. exact Z0.
      - exact T. }
    destruct (BusRoute.g_type (w_msg w) =? 2); apply GOAL.
  Qed.


  (* --- ADown: this call's own messages --------------------------------------------------------------- *)
  Lemma track_call_own s :
    Inv g B s -> common s -> logs0 s -> cnt t (tokens s) = 0%nat ->
    Track (deliver_call g s j (forwarded i req)).
  Proof.
    intros I C [LI LR] Z. unfold deliver_call. rewrite Hcall.
    change (Dispatch.handle (g_exports g j) (g_beh g j) dc) with H0. rewrite Hdisp.
    destruct dc_fields as (_ & _ & TG & _). rewrite TG.
    set (rs := match g_beh g j inv0 with
               | Dispatch.OValue v => Dispatch.send_reply dc m v
               | Dispatch.ORaise e => Dispatch.send_failure false dc e
               | Dispatch.ODeferred => []
               end).
    set (p := match g_beh g j inv0 with Dispatch.ODeferred => Some (Dispatch.mkPend dc m) | _ => None end).
    set (s1 := add_invs s j tg [inv0] (results_now (g_beh g j) [inv0]) p).
    assert (L : (length rs <= 1)%nat).
    { unfold rs. destruct (g_beh g j inv0); [apply send_reply_shape | apply send_failure_shape | cbn; lia]. }
    destruct (send_replies_spec g s1 j dc rs L) as (S1 & S2 & S3 & S4 & S5 & S6 & S7 & S8 & S9).
    set (s' := send_replies g s1 j dc rs) in *. clearbody s'.
    assert (CM : common s').
    { destruct C as (P & CT & D). split; [rewrite S1; exact P|]. split; [|rewrite S3; exact D].
      rewrite <- CT. apply cont_of_ext. rewrite S2. reflexivity. }
    assert (INV : filter (has_tag tg) (s_invs s') = [(j, tg, inv0)]).
    { rewrite S6. cbn [s1 add_invs s_invs map]. rewrite filter_app, LI. cbn [filter app]. rewrite has_tag_same. reflexivity. }
    destruct (g_beh g j inv0) as [v|e|] eqn:BH.
    - (* returned v *)
      destruct (Hone (Dispatch.LValue v)) as [r HR]. pose proof HR as HR'. rewrite Hdisp in HR'. rewrite ?BH in HR'. cbn [Dispatch.all_replies] in HR'.
      assert (RP : replied (Dispatch.LValue v) r) by (split; [exact HR | rewrite BH; reflexivity]).
      assert (LG : logs2 s' (Dispatch.LValue v)).
      { split; [exact INV|]. rewrite S7. cbn [s1 add_invs s_results results_now flat_map map]. rewrite BH. cbn [app map].
        rewrite filter_app, LR. cbn [filter app]. rewrite has_tag_same. reflexivity. }
      unfold rs in S9. rewrite HR' in S9. destruct S9 as [SN S9].
      destruct (Calls.max_serial <? p_serial (proc_of g s1 j)) eqn:EM.
      + apply TStuck. right. right. apply N.ltb_lt in EM. rewrite SN. lia.
      + apply (TD s' (Dispatch.LValue v) r (p_serial (proc_of g s1 j)) (xml_for (g_exports g j) dc r)); auto.
        rewrite S9. apply in_or_app. right. left. reflexivity.
    - (* raised e *)
      destruct (Hone (Dispatch.LFail e)) as [r HR]. pose proof HR as HR'. rewrite Hdisp in HR'. rewrite ?BH in HR'. cbn [Dispatch.all_replies] in HR'.
      assert (RP : replied (Dispatch.LFail e) r) by (split; [exact HR | rewrite BH; reflexivity]).
      assert (LG : logs2 s' (Dispatch.LFail e)).
      { split; [exact INV|]. rewrite S7. cbn [s1 add_invs s_results results_now flat_map map]. rewrite BH. cbn [app map].
        rewrite filter_app, LR. cbn [filter app]. rewrite has_tag_same. reflexivity. }
      unfold rs in S9. rewrite HR' in S9. destruct S9 as [SN S9].
      destruct (Calls.max_serial <? p_serial (proc_of g s1 j)) eqn:EM.
      + apply TStuck. right. right. apply N.ltb_lt in EM. rewrite SN. lia.
      + apply (TD s' (Dispatch.LFail e) r (p_serial (proc_of g s1 j)) (xml_for (g_exports g j) dc r)); auto.
        rewrite S9. apply in_or_app. right. left. reflexivity.
    - (* returned a Deferred *)
      apply (TC s' (s_next_open s)); auto.
      + split; [exact INV|]. rewrite S7. cbn [s1 add_invs s_results results_now flat_map map]. rewrite BH. cbn [app map].
        rewrite app_nil_r. exact LR.
      + rewrite S5. cbn [s1 add_invs s_open p]. apply in_or_app. right. left. reflexivity.
  Qed.

  Lemma decode_forwarded c mm : BusRoute.valid_type mm = true ->
    decode_body (g_fuel g) (forwarded c mm) = decode_body (g_fuel g) mm.
  Proof.
    intro Hv. pose proof (forwarded_fields c mm Hv) as F. cbn zeta in F. destruct F as (F1 & _ & _ & _ & _ & F6 & F7 & _).
    unfold decode_body. rewrite F1, F6, F7. reflexivity.
  Qed.

  Lemma reply_msg_serial_free r sn :
    let a := reply_msg g dc r sn in let b := reply_msg g dc r 0 in
    BusRoute.g_type a = BusRoute.g_type b /\ BusRoute.g_signature a = BusRoute.g_signature b /\
    BusRoute.g_body a = BusRoute.g_body b /\ BusRoute.g_le a = BusRoute.g_le b /\
    BusRoute.g_error_name a = BusRoute.g_error_name b /\
    BusRoute.g_reply_serial a = Some (Z.to_N (Dispatch.r_serial r)) /\
    (BusRoute.g_type a = 2 \/ BusRoute.g_type a = 3).
  Proof. unfold reply_msg. destruct (Dispatch.r_kind r); cbn; repeat split; try reflexivity; auto. Qed.

  Lemma alist_del_other_ids l tm rs0 :
    NoDup (map fst l) -> NoDup (map (fun e : N * Calls.pcall => Calls.pc_id (snd e)) l) ->
    In (n, Calls.PCall id tm rs0) l ->
    forall n' pc, In (n', pc) (alist_del N.eqb n l) -> Calls.pc_id pc <> id.
  Proof.
    intros ND1 ND2 IN n' pc H EQ.
    assert (X : (n', pc) = (n, Calls.PCall id tm rs0)).
    { apply (nodup_map_inj (fun e => Calls.pc_id (snd e)) l _ _ ND2 (in_alist_del _ _ _ H) IN). cbn [snd Calls.pc_id]. exact EQ. }
    injection X as -> _.
    assert (G : alist_get N.eqb n (alist_del N.eqb n l) = None) by (apply aget_del_same; exact ND1).
    apply BusNamesProofs.aget_none in G; [|intros; apply N.eqb_eq]. apply G. apply in_map_iff. exists (n, pc). split; [reflexivity | exact H].
  Qed.

  Lemma track_reply_own s l r sn xml :
    Inv g B s -> common s -> logs2 s l -> replied l r -> cnt t (tokens s) = 0%nat ->
    Track (deliver_reply g s i (mkW (forwarded j (reply_msg g dc r sn)) xml)).
  Proof.
    intros I C LG RP Z. unfold deliver_reply. cbn [w_msg w_xml].
    destruct (reply_msg_serial_free r sn) as (F1 & F2 & F3 & F4 & F5 & F6 & F7). cbn zeta in *.
    pose proof (reply_valid r sn) as HV.
    rewrite (decode_forwarded j _ HV).
    assert (DB : decode_body (g_fuel g) (reply_msg g dc r sn) = decode_body (g_fuel g) (reply_msg g dc r 0)).
    { unfold decode_body. rewrite F2, F3, F4. reflexivity. }
    rewrite DB.
    destruct (decode_body (g_fuel g) (reply_msg g dc r 0)) as [vals|e] eqn:ED.
    2:{ apply TStuck. left. unfold is_dead. cbn [set_dead s_dead mem existsb]. rewrite N.eqb_refl. reflexivity. }
    pose proof (forwarded_fields j _ HV) as FF. cbn zeta in FF. destruct FF as (_ & G2 & _ & _ & _ & G6 & _ & _).
    destruct (forwarded_reply j _ F7) as [G8 G9]. cbn zeta in G8, G9.
    rewrite G8, F6, (proj2 (replied_addressed l r RP)), N2Z.id.
    destruct (common_id_lt s I C) as [LTI LTN].
    destruct C as ((tm & P) & CT & D). rewrite P. cbn [Calls.pc_id Calls.pc_rs].
    rewrite G2, G6, F1, F2.
    set (sg := BusRoute.g_signature (reply_msg g dc r 0)).
    set (st1 := if BusRoute.g_type (reply_msg g dc r 0) =? 2
                then Calls.method_return_received (s_calls s i) n (abs_msg sg vals)
                else Calls.error_received (s_calls s i) n (or_empty (BusRoute.g_error_name (forwarded j (reply_msg g dc r sn))))
                                          (abs_msg sg vals)).
    assert (P1 : Calls.st_pending st1 = alist_del N.eqb n (Calls.st_pending (s_calls s i))).
    { unfold st1. destruct (BusRoute.g_type (reply_msg g dc r 0) =? 2);
        [exact (proj1 (reply_received_spec _ _ _ _ P)) | exact (proj1 (reply_received_spec _ _ _ _ P))]. }
    assert (GOAL : forall x xml0, completes r x -> Track (finish g (set_calls s i st1) i id x xml0)).
    { intros x xml0 CP.
      assert (CT1 : cont_of (set_calls s i st1) i id = KUser) by exact CT.
      destruct (finish_spec g (set_calls s i st1) i id x xml0) as (SC & (x' & HD & HX) & _). specialize (HX CT1). subst x'.
      set (s' := finish g (set_calls s i st1) i id x xml0) in *. clearbody s'.
      destruct SC as [B1 B2 B3 B4 B5 B6 B7 B8 B9 B10].
      cbn [set_calls s_bus s_closed s_net s_calls s_conts s_dead s_open s_invs s_results s_procs s_done] in *.
      apply (TF s' l r x).
      - unfold closed. split; [rewrite HD, filter_app, D; cbn [filter app is_done]; rewrite N.eqb_refl, Nat.eqb_refl; reflexivity|].
        split; [|unfold proc_of; rewrite B10; exact LTN].
        rewrite B4, upd_same, P1. destruct (iv_calls g B s I i) as (ND1 & ND2 & _).
        exact (alist_del_other_ids _ tm (q_rs q) ND1 ND2 (aget_in _ _ _ P)).
      - destruct LG as [G1 G3]. split; [rewrite B8; exact G1 | rewrite B9; exact G3].
      - exact RP.
      - exact CP.
      - unfold tokens. rewrite B3, B7. exact Z. }
    destruct (BusRoute.g_type (reply_msg g dc r 0) =? 2) eqn:E2.
    - apply GOAL. exists vals. split; [exact ED|]. rewrite E2. reflexivity.
    - apply GOAL. exists vals. split; [exact ED|]. rewrite E2.
      assert (T3 : BusRoute.g_type (reply_msg g dc r sn) = 3).
      { destruct F7 as [X|X]; [|exact X]. rewrite F1 in X. rewrite X in E2. discriminate. }
      rewrite (G9 T3), F5. reflexivity.
  Qed.


  (* a stuck call stays stuck *)
  Lemma stuck_mono s s' :
    (forall c0, mem c0 (s_dead s) = true -> mem c0 (s_dead s') = true) ->
    (forall c0, p_serial (proc_of g s c0) <= p_serial (proc_of g s' c0)) -> stuck s -> stuck s'.
  Proof.
    intros D M [H|[H|H]]; [left; apply D; exact H | right; left; apply D; exact H | right; right; specialize (M j); lia].
  Qed.

  Lemma stuck_client_deliver s c w : stuck s -> stuck (client_deliver g s c w).
  Proof.
    intro ST. unfold client_deliver. destruct (is_dead s c); [exact ST|].
    assert (SD : stuck (set_dead s c)).
    { apply (stuck_mono s); [|intro c0; reflexivity | exact ST].
      intros c0 H. cbn [s_dead set_dead mem existsb]. unfold mem in H. rewrite H. apply orb_true_r. }
    destruct (BusRoute.g_type (w_msg w) =? 1).
    - unfold deliver_call. destruct (call_of (g_fuel g) (w_msg w)) as [dc'|e]; [|exact SD].
      destruct (Dispatch.handle (g_exports g c) (g_beh g c) dc') as [e|rs invs p] eqn:EH; [exact SD|].
      destruct (handle_shape _ _ _ _ _ _ EH) as (L & _).
      destruct (send_replies_spec g (add_invs s c (tag_of_call dc') invs (results_now (g_beh g c) invs) p) c dc' rs L)
        as (_ & _ & _ & S4 & _ & _ & _ & S8 & _).
      apply (stuck_mono s); [intros c0 H; rewrite S4; exact H | exact S8 | exact ST].
    - destruct ((BusRoute.g_type (w_msg w) =? 2) || (BusRoute.g_type (w_msg w) =? 3)).
      + unfold deliver_reply. destruct (decode_body (g_fuel g) (w_msg w)) as [vals|e]; [|exact SD].
        destruct (BusRoute.g_reply_serial (w_msg w)) as [n'|]; [|exact ST].
        destruct (alist_get N.eqb n' (Calls.st_pending (s_calls s c))) as [pc|]; [|exact ST].
        destruct (BusRoute.g_type (w_msg w) =? 2);
          match goal with |- stuck (finish g ?S1 ?C ?I ?X ?XML) =>
            destruct (finish_spec g S1 C I X XML) as ([_ _ _ _ _ B6 _ _ _ B10] & _ & _);
            apply (stuck_mono s); [intros c0 H; rewrite B6; exact H | intro c0; unfold proc_of; rewrite B10; reflexivity | exact ST]
          end.
      + destruct (BusRoute.g_type (w_msg w) =? 4); [exact ST | exact SD].
  Qed.

  (* --- ADown ---------------------------------------------------------------------------------------------- *)
  Lemma track_down s c : Inv g B s -> Track s -> Track (step g s (ADown c)).
  Proof.
    intros I T. cbn [step]. destruct (take (Down c) (s_net s)) as [[w rest]|] eqn:TKE; [|exact T].
    destruct (take_spec _ _ _ _ TKE) as (l1 & l2 & E & ->).
    pose proof (inv_take g B s l1 _ l2 I E) as I0.
    pose proof (spent_take g B s l1 _ l2 I E) as SP.
    assert (OK : item_ok B (Down c) (w_msg w)).
    { apply (iv_net g B s I). rewrite E. apply in_or_app. right. left. reflexivity. }
    set (s0 := set_net s (l1 ++ l2)) in *.
    (* a message of another call, or none of any *)
    assert (OTHER : cnt t (tok_item (Down c, w)) = 0%nat -> Track (client_deliver g s0 c w)).
    { intro Z. pose proof (track_take s l1 _ l2 I E Z T) as T0. fold s0 in T0.
      unfold client_deliver. destruct (is_dead s0 c); [exact T0|].
      destruct (BusRoute.g_type (w_msg w) =? 1) eqn:E1.
      - apply N.eqb_eq in E1. apply track_deliver_call_other; assumption.
      - destruct ((BusRoute.g_type (w_msg w) =? 2) || (BusRoute.g_type (w_msg w) =? 3)) eqn:E2.
        + apply track_deliver_reply_other; try assumption.
          apply orb_true_iff in E2 as [X|X]; apply N.eqb_eq in X; [left | right]; exact X.
        + destruct (BusRoute.g_type (w_msg w) =? 4); [exact T0 | apply track_set_dead; exact T0]. }
    assert (NOTHERE : forall y, In y (l1 ++ l2) -> tok_item y = [t] -> cnt t (tok_item (Down c, w)) = 0%nat).
    { intros y H TY. pose proof (iv_once g B s I t) as L1. unfold tokens in L1.
      rewrite E, net_tokens_app, net_tokens_cons, !cnt_app in L1.
      pose proof (cnt_in_net _ _ H TY) as L2. rewrite net_tokens_app, cnt_app in L2. lia. }
    assert (Z0 : (cnt t (tokens s0) + cnt t (tok_item (Down c, w)) = cnt t (tokens s))%nat).
    { unfold tokens. cbn [s0 set_net s_net s_open]. rewrite E, !net_tokens_app, net_tokens_cons, !cnt_app. lia. }
    destruct T as [ST|C L IN|C L IN|key C L IN BH|l r sn xml C L R IN|l r sn xml C L R IN|l r x C L R CP Z].
    - apply TStuck. apply stuck_client_deliver. exact ST.
    - rewrite E in IN. apply in_middle in IN as [IN|IN]; [discriminate|]. apply OTHER. exact (NOTHERE _ IN (tok_req None)).
    - rewrite E in IN. apply in_middle in IN as [IN|IN]; [|apply OTHER; exact (NOTHERE _ IN (tok_req_down None))].
      injection IN as <- <-. unfold client_deliver.
      destruct (is_dead s0 j) eqn:DJ; [apply TStuck; right; left; exact DJ|].
      cbn [w_msg]. change (BusRoute.g_type (forwarded i req) =? 1) with true. cbv iota.
      apply track_call_own; try assumption.
      pose proof (iv_once g B s I t) as L1. rewrite <- Z0, (tok_req_down None), cnt_one_same in L1. lia.
    - apply OTHER. pose proof (iv_once g B s I t) as L1. unfold tokens in L1. rewrite E, net_tokens_app, net_tokens_cons, !cnt_app in L1.
      pose proof (cnt_in_open _ _ IN (tok_pend key)) as L2. lia.
    - rewrite E in IN. apply in_middle in IN as [IN|IN]; [discriminate|]. apply OTHER. exact (NOTHERE _ IN (tok_reply l r sn xml R)).
    - rewrite E in IN. apply in_middle in IN as [IN|IN]; [|apply OTHER; exact (NOTHERE _ IN (tok_reply_down l r sn xml R))].
      injection IN as <- <-. unfold client_deliver.
      destruct (is_dead s0 i) eqn:DI; [apply TStuck; left; exact DI|].
      cbn [w_msg].
      destruct (reply_msg_serial_free r sn) as (_ & _ & _ & _ & _ & _ & F7). cbn zeta in F7.
      pose proof (forwarded_fields j _ (reply_valid r sn)) as FF. cbn zeta in FF. destruct FF as (_ & G2 & _).
      rewrite G2.
      assert (TT : (BusRoute.g_type (reply_msg g dc r sn) =? 1) = false /\
                   ((BusRoute.g_type (reply_msg g dc r sn) =? 2) || (BusRoute.g_type (reply_msg g dc r sn) =? 3)) = true).
      { destruct F7 as [X|X]; rewrite X; split; reflexivity. }
      rewrite (proj1 TT), (proj2 TT).
      apply (track_reply_own s0 l r sn xml); try assumption.
      pose proof (iv_once g B s I t) as L1. rewrite <- Z0, (tok_reply_down l r sn xml R), cnt_one_same in L1. lia.
    - apply OTHER. lia.
  Qed.


  Theorem track_step s a : Inv g B s -> Track s -> Track (step g s a).
  Proof.
    intros I T. destruct a.
    - apply track_app; [exact I | exact Logic.I | exact T].
    - apply track_app; [exact I | exact Logic.I | exact T].
    - apply track_app; [exact I | exact Logic.I | exact T].
    - apply track_up; assumption.
    - apply track_down; assumption.
    - apply track_fire; assumption.
  Qed.

  Lemma track_run_from sched : forall s, Inv g B s -> Track s -> Track (run_from g s sched).
  Proof.
    induction sched as [|a r IH]; intros s I T; [exact T|]. cbn [run_from fold_left].
    apply IH; [apply inv_step; assumption | apply track_step; assumption].
  Qed.

  (* a quiescent state holds no token: the call has completed *)
  Lemma track_quiescent s :
    Track s -> quiescent s -> ~ stuck s ->
    exists l r x, closed s x /\ logs2 s l /\ replied l r /\ completes r x.
  Proof.
    intros T [QN QO] NS.
    destruct T as [ST|C L IN|C L IN|key C L IN BH|l r sn xml C L R IN|l r sn xml C L R IN|l r x C L R CP Z];
      try (rewrite QN in IN; destruct IN); try (rewrite QO in IN; destruct IN).
    - contradiction.
    - exists l, r, x. split; [exact C|]. split; [exact L|]. split; [exact R | exact CP].
  Qed.


  (* --- what the caller's Deferred delivers mirrors how the method ended ------------------------------- *)
  Lemma replied_reply l r :
    replied l r ->
    match l with
    | Dispatch.LValue v => Dispatch.send_reply dc m v = [r]
    | Dispatch.LFail e => Dispatch.send_failure false dc e = [r]
    end.
  Proof.
    intros [R BH]. rewrite Hdisp in R. cbn [Dispatch.all_replies] in R.
    destruct (g_beh g j inv0) as [v|e|]; [subst l; exact R | subst l; exact R|].
    cbn [app] in R. destruct l; exact R.
  Qed.

  Lemma completes_mirrors ts_out l r x :
    validate_bus (unique_name i) = true ->
    Dispatch.m_out m = show_list ts_out -> q_rs q = Calls.RsStr (Dispatch.m_out m) ->
    replied l r -> completes r x -> mirrors ts_out (g_fuel g) l x.
  Proof.
    intros VB MO RS RP (vals0 & DEC & ->).
    destruct dc_fields as (SD & _ & _ & _).
    assert (WF : DispatchProofs.wf_call dc) by (unfold DispatchProofs.wf_call, Dispatch.dest_ok; rewrite SD; exact VB).
    pose proof (replied_reply l r RP) as RR.
    destruct l as [v|e]; cbn [mirrors].
    - intros vals vs ws RV SI PA RF.
      rewrite (DispatchProofs.send_reply_value dc m v WF) in RR. unfold DispatchProofs.value_replies in RR.
      assert (NR : Dispatch.m_nret m = length ts_out).
      { unfold Dispatch.m_nret. rewrite MO, SigProofs.gen_complete_types_show, map_length. reflexivity. }
      rewrite NR, (DispatchProofs.returned_values_wrap _ _ _ RV), MO in RR.
      destruct PA as [PC PW PD PS].
      destruct (encode_out_refines ts_out vals vs ws SI PC RF PS) as (b & EO & EB). rewrite EO in RR.
      injection RR as <-.
      unfold reply_msg in DEC |- *. cbn [Dispatch.r_kind Dispatch.r_sig Dispatch.r_serial Dispatch.r_dest] in DEC |- *.
      cbn [BusRoute.g_type BusRoute.g_signature BusRoute.g_error_name N.eqb Pos.eqb].
      rewrite RS, MO.
      assert (VALS : vals0 = arrived ts_out ws).
      { unfold decode_body in DEC. cbn [BusRoute.g_signature BusRoute.g_body BusRoute.g_le reply_body Dispatch.r_body] in DEC.
        destruct (show_list ts_out) as [|c0 r0] eqn:ES.
        - injection DEC as <-. apply show_list_nil in ES. subst ts_out.
          destruct (conf_seq_nil _ _ PC) as [_ ->]. reflexivity.
        - rewrite (EB ltac:(discriminate)) in DEC.
          pose proof (UnmarshalProofs.unmarshal_inverts [] true ts_out ws [] [] (g_fuel g) PW PD PS) as U.
          rewrite ES in U. cbn [app length] in U. rewrite app_nil_r in U. change (len []) with 0 in U.
          rewrite U in DEC. injection DEC as <-. reflexivity. }
      rewrite VALS. clear DEC EB EO. destruct (show_list ts_out) as [|c0 r0] eqn:ES.
      + apply show_list_nil in ES. subst ts_out. destruct (conf_seq_nil _ _ PC) as [_ ->]. reflexivity.
      + exact (cvt_pv_convention (c0 :: r0) _ ltac:(discriminate)).
    - intros NV PA0. pose proof (pa_conf _ _ _ _ PA0) as CF. cbn in CF. destruct CF as [(_ & T1 & T2) _].
      rewrite (DispatchProofs.send_failure_current dc e WF) in RR. injection RR as <-.
      destruct (DispatchProofs.error_text_mapping e) as (ET & _ & _). rewrite (ET NV) in DEC |- *.
      assert (DS : DispatchSpec.dbus_string (Dispatch.x_text e) = true).
      { unfold DispatchSpec.dbus_string. apply forallb_forall. intros b Hb.
        destruct (b =? 0) eqn:E0; [|reflexivity]. apply N.eqb_eq in E0. subst b.
        assert (existsb (N.eqb 0) (Dispatch.x_text e) = true) by (apply existsb_exists; exists 0; split; [exact Hb | reflexivity]).
        congruence. }
      rewrite (DispatchProofs.sanitize_id _ DS) in DEC |- *.
      unfold reply_msg in DEC |- *. cbn [Dispatch.r_kind Dispatch.r_sig Dispatch.r_serial Dispatch.r_dest] in DEC |- *.
      cbn [BusRoute.g_type BusRoute.g_signature BusRoute.g_error_name N.eqb Pos.eqb or_empty].
      assert (PT : passed [TString] [PStr (Dispatch.x_text e)] [WStr (Dispatch.x_text e)] (g_fuel g) ->
                   vals0 = [PStr (Dispatch.x_text e)]).
      { intro PA. destruct (codec_roundtrip (g_fuel g) [TString] (PList [PStr (Dispatch.x_text e)]) _ _ None eq_refl PA)
          as (bd & EN & DE).
        unfold encode_body in EN. change (show_list [TString]) with [115] in EN, DE. cbv beta iota in EN.
        unfold decode_body in DEC. cbn [BusRoute.g_signature BusRoute.g_body BusRoute.g_le reply_body Dispatch.r_body] in DEC.
        unfold Dispatch.s_sig in DEC.
        destruct (m_marshal (g_fuel g) [115] (PList [PStr (Dispatch.x_text e)]) 0 true None) as [[[n1 b1] f1]|err]; [|cbn in EN; discriminate EN].
        cbn in EN. injection EN as <-.
        specialize (DE (BusRoute.mkB true 3 0 0 None None None None None None None (Some [115]) b1 None false) eq_refl eq_refl eq_refl).
        unfold decode_body in DE. cbn [BusRoute.g_signature BusRoute.g_body BusRoute.g_le] in DE.
        rewrite DE in DEC. injection DEC as <-. reflexivity. }
      rewrite (PT PA0). reflexivity.
  Qed.

End Tracked.

(* ======================================================================== *)
(* 11. issuing the call, and the theorem                                      *)

Lemma conn_call_sent g s c q k body :
  Message.validate_args false 1
    [(Message.APath, PStr (q_path q)); (Message.AInterface, ostr (q_iface q));
     (Message.AMember, PStr (q_member q)); (Message.ADestination, ostr (q_dest q));
     (Message.ASignature, ostr (q_sig q))] = Ok tt ->
  encode_body (g_fuel g) (q_sig q) (PTuple (q_args q)) (Some []) = Ok body ->
  header_ok q = true -> q_expect q = true -> p_serial (proc_of g s c) <= Calls.max_serial ->
  too_big (g_limit g) (g_fuel g) (call_msg q (p_serial (proc_of g s c)) body) = false ->
  let n := p_serial (proc_of g s c) in
  let id := Calls.st_next_id (s_calls s c) in
  let s' := conn_call g s c q k in
  s_net s' = s_net s ++ [(Up c, mkW (call_msg q n body) None)] /\
  alist_get N.eqb n (Calls.st_pending (s_calls s' c)) =
    Some (Calls.PCall id (Calls.truthy_timeout (q_timeout q)) (q_rs q)) /\
  s_conts s' c = s_conts s c ++ [(id, k)] /\ s_done s' = s_done s /\
  s_invs s' = s_invs s /\ s_results s' = s_results s.
Proof.
  intros HV HB HH HE HS HF. cbn zeta. unfold conn_call. rewrite HV, HB, HH, HE, HF. cbn [negb].
  assert (EM : (Calls.max_serial <? p_serial (proc_of g s c)) = false) by (apply N.ltb_ge; exact HS).
  rewrite EM. cbn [negb andb orb].
  destruct (call_remote_normal (with_serial (s_calls s c) (p_serial (proc_of g s c))) (q_timeout q) (q_rs q)) as (K1 & K2 & K3).
  cbn [Calls.st_next_serial with_serial] in K3. rewrite EM in K3.
  split; [reflexivity|]. split.
  - cbn [set_net set_calls s_calls]. rewrite upd_same, K3. apply aget_set_same.
  - split; [cbn; rewrite upd_same; reflexivity|]. repeat split; reflexivity.
Qed.

(* the call as the exporter reads it *)
Lemma call_of_forwarded g i q n body ts ws :
  q_sig q = Some (show_list ts) ->
  (forall mm, BusRoute.g_signature mm = Some (show_list ts) -> BusRoute.g_body mm = body ->
              BusRoute.g_le mm = true -> decode_body (g_fuel g) mm = Ok (arrived ts ws)) ->
  call_of (g_fuel g) (forwarded i (call_msg q n body)) =
    Ok (arriving_call q (arrived ts ws) (unique_name i) (Z.of_N n)).
Proof.
  intros HS DE. unfold call_of.
  assert (V : BusRoute.valid_type (call_msg q n body) = true) by reflexivity.
  pose proof (forwarded_fields i (call_msg q n body) V) as F. cbn zeta in F.
  destruct F as (F1 & F2 & F3 & F4 & F5 & F6 & F7 & F8).
  destruct (forwarded_call i (call_msg q n body) eq_refl) as (G1 & G2 & G3).
  rewrite (DE (forwarded i (call_msg q n body))); [|rewrite F6; exact HS | rewrite F7; reflexivity | rewrite F1; reflexivity].
  rewrite G1, G2, G3, F6, F8, F4, F3. unfold arriving_call. cbn [call_msg BusRoute.g_path BusRoute.g_interface BusRoute.g_member
    BusRoute.g_signature BusRoute.g_serial BusRoute.g_flags or_empty].
  f_equal. f_equal. unfold call_flags. destruct (q_expect q), (q_auto q); reflexivity.
Qed.

Lemma run_split g h0 serial0 pre a post :
  run g h0 serial0 (pre ++ a :: post) = run_from g (step g (run g h0 serial0 pre) a) post.
Proof. unfold run, run_from. rewrite fold_left_app. reflexivity. Qed.

Definition tag_of (i : client) (n : N) : tag := (Some (unique_name i), Z.of_N n).

Lemma filter_nil_all {A} (p : A -> bool) l : (forall x, In x l -> p x = false) -> filter p l = [].
Proof.
  induction l as [|a l IH]; intro H; [reflexivity|]. cbn [filter]. rewrite (H a (or_introl eq_refl)).
  apply IH. intros x Hx. apply H. right. exact Hx.
Qed.

Lemma fresh_tag_unlogged {A} g s i (l : list (client * tag * A)) :
  (forall c0 tg0 x, In (c0, tg0, x) l -> good_tag g s tg0) ->
  filter (has_tag (tag_of i (p_serial (proc_of g s i)))) l = [].
Proof.
  intro G. apply filter_nil_all. intros [[c0 tg0] x] H.
  destruct (has_tag (tag_of i (p_serial (proc_of g s i))) (c0, tg0, x)) eqn:E; [|reflexivity].
  apply has_tag_true in E. subst tg0. destruct (G c0 _ x H) as (c' & k & EQ & LT).
  unfold tag_of in EQ. pose proof (f_equal fst EQ) as E1. pose proof (f_equal snd EQ) as E2. cbn [fst snd] in E1, E2.
  assert (E1' : unique_name i = unique_name c') by congruence.
  apply BusNamesProofs.unique_name_inj in E1'. subst c'. apply N2Z.inj in E2. subst k. lia.
Qed.

(* MethodCallMessage accepts the request: its names are within the DBus grammars
   (validators of C18 / constructor checks of C03), path and signature fit the header *)
Definition constructible (q : creq) : Prop :=
  Message.validate_args false 1
    [(Message.APath, PStr (q_path q)); (Message.AInterface, ostr (q_iface q));
     (Message.AMember, PStr (q_member q)); (Message.ADestination, ostr (q_dest q));
     (Message.ASignature, ostr (q_sig q))] = Ok tt /\ header_ok q = true.

Theorem end_to_end :
  forall (g : config) (h0 : list BusRoute.event) (serial0 : nat -> N)
         (pre post : list action) (i j : client) (pidx : nat) (member : str) (args : list pyval) (kw : kwargs)
         (px : proxy) (q : creq) (d : str) (ts_in ts_out : list ty) (ws_in : list wval)
         (o : Dispatch.object) (im : Dispatch.iface) (m : Dispatch.meth),
  let B := fst (BusRoute.run h0) in
  let s1 := run g h0 serial0 pre in
  let st := run g h0 serial0 (pre ++ ACall i pidx member args kw :: post) in
  let n := p_serial (proc_of g s1 i) in
  let id := Calls.st_next_id (s_calls s1 i) in
  let dc := arriving_call q (arrived ts_in ws_in) (unique_name i) (Z.of_N n) in
  (* the two clients are attached to the bus; the proxy's bus name denotes the exporter *)
  all_hello B -> mem i (b_clients (BusRoute.r_bus B)) = true -> mem j (b_clients (BusRoute.r_bus B)) = true ->
  validate_bus (unique_name i) = true ->
  (* the call is made through a proxy of i *)
  nth_error (s_proxies s1 i) pidx = Some px ->
  call_remote (ifaces_of (p_heap (proc_of g s1 i)) (px_ifaces px)) (px_bus px) (px_path px) member args kw = PcCall q ->
  q_expect q = true -> q_dest q = Some d -> route B d = Some j ->
  q_sig q = Some (show_list ts_in) -> q_args q = args ->
  constructible q -> n <= Calls.max_serial ->
  (* ... and is within DBusMessage._maxMsgLen *)
  (forall body, encode_body (g_fuel g) (q_sig q) (PTuple (q_args q)) (Some []) = Ok body ->
                too_big (g_limit g) (g_fuel g) (call_msg q n body) = false) ->
  passed ts_in args ws_in (g_fuel g) ->
  (* what the proxy declares is what the exporter exports *)
  DispatchSpec.distinct_interfaces (g_exports g j) -> DispatchSpec.builtin dc = false ->
  DispatchSpec.addressed (g_exports g j) dc = DispatchSpec.TMethod o im m ->
  DispatchSpec.candidates o (Dispatch.i_name im) (q_member q) <> [] ->
  q_rs q = Calls.RsStr (Dispatch.m_out m) -> Dispatch.m_out m = show_list ts_out ->
  (* the run ended quiescent, nobody was dropped, the exporter's serials did not run out *)
  quiescent st -> ~ stuck g i j st ->
  exists f l x,
    In f (DispatchSpec.candidates o (Dispatch.i_name im) (q_member q)) /\
    only (has_tag (tag_of i n)) (s_invs st) (j, tag_of i n, DispatchSpec.expected_invocation dc f) /\
    only (has_tag (tag_of i n)) (s_results st) (j, tag_of i n, l) /\
    only (is_done i id) (s_done st) (i, id, x) /\
    mirrors ts_out (g_fuel g) l x.
Proof.
  intros g h0 serial0 pre post i j pidx member args kw px q d ts_in ts_out ws_in o im m B s1 st n id dc
         AH Ai Aj VB NT CR HE HD HR HS HA [CV CH] HN HF PA DI NB AD CA RS MO QU NS.
  (* the request and its reading *)
  destruct (codec_roundtrip (g_fuel g) ts_in (PTuple args) args ws_in (Some []) eq_refl PA) as (body & EB & DE).
  rewrite <- HS, <- HA in EB.
  pose proof (call_of_forwarded g i q n body ts_in ws_in HS DE) as HC. fold dc in HC.
  (* the dispatcher on it *)
  assert (WF : DispatchProofs.wf_call dc) by (unfold DispatchProofs.wf_call, dc, arriving_call, Dispatch.dest_ok; cbn; exact VB).
  pose proof (DispatchProofs.handle_by_target (g_exports g j) (g_beh g j) dc WF (DispatchProofs.distinct_interfaces_wf _ DI) NB) as HT.
  rewrite AD in HT. unfold DispatchProofs.dispatch_nf in HT.
  assert (MB : Dispatch.c_member dc = q_member q) by reflexivity.
  assert (EX : Dispatch.c_expect dc = true) by exact HE.
  destruct (Dispatch.exec_lookup o (Dispatch.i_name im) (Dispatch.c_member dc)) as [f|] eqn:EL.
  2:{ exfalso. rewrite MB in EL. exact (DispatchProofs.exec_lookup_some _ _ _ CA EL). }
  pose proof (DispatchProofs.exec_lookup_candidate _ _ _ _ EL) as FIN. rewrite MB in FIN.
  set (inv0 := Dispatch.mkInv f (Dispatch.c_args dc) (if Dispatch.f_caller f then Some (Dispatch.c_sender dc) else None)) in *.
  assert (HDISP : Dispatch.handle (g_exports g j) (g_beh g j) dc =
                  Dispatch.HDone (match g_beh g j inv0 with
                                  | Dispatch.OValue v => Dispatch.send_reply dc m v
                                  | Dispatch.ORaise e => Dispatch.send_failure false dc e
                                  | Dispatch.ODeferred => []
                                  end) [inv0]
                                 (match g_beh g j inv0 with Dispatch.ODeferred => Some (Dispatch.mkPend dc m) | _ => None end)).
  { rewrite HT, EX. destruct (g_beh g j inv0) as [v|e|]; try reflexivity.
    rewrite (DispatchProofs.send_failure_current dc e WF). reflexivity. }
  assert (HONE : forall l, exists r, Dispatch.all_replies (Dispatch.handle (g_exports g j) (g_beh g j) dc) l = [r]).
  { intro l. destruct (DispatchProofs.reply_count (g_exports g j) (g_beh g j) dc l WF) as (_ & C1 & _).
    specialize (C1 EX). destruct (Dispatch.all_replies _ l) as [|r [|r2 rs]]; cbn in C1; try lia. exists r. reflexivity. }
  (* the state in which the call is made *)
  pose proof (inv_run g h0 serial0 pre AH) as I1. fold B s1 in I1.
  pose proof (loginv_run g h0 serial0 pre AH) as L1. fold s1 in L1.
  assert (STEP : step g s1 (ACall i pidx member args kw) = conn_call g s1 i q KUser).
  { cbn [step]. unfold proxy_call. rewrite NT, CR. reflexivity. }
  destruct (conn_call_sent g s1 i q KUser body CV EB CH HE HN (HF body EB)) as (S1 & S2 & S3 & S4 & S5 & S6).
  fold n id in S1, S2, S3.
  set (s2 := conn_call g s1 i q KUser) in *.
  assert (I2 : Inv g B s2).
  { apply (inv_conn_call g B s1 i q KUser d I1 HD).
    - pose proof (call_remote_dest _ _ _ _ _ _ _ CR) as QD. rewrite HD in QD. injection QD as ->.
      exact (iv_prox g B s1 I1 i px (nth_error_In _ _ NT)).
    - intros r req b p0 H. discriminate. }
  assert (T2 : Track g i j id n q body dc m inv0 s2).
  { apply TA.
    - split; [eexists; exact S2|]. split.
      + unfold cont_of. rewrite S3. rewrite nat_aget_app_new; [reflexivity|].
        intro X. apply in_map_iff in X as ([k0 c0] & E0 & X). cbn [fst] in E0. subst k0.
        pose proof (iv_conts g B s1 I1 i id c0 X). unfold id in *. lia.
      + rewrite S4. apply filter_nil_all. intros [[c0 k0] x0] H.
        apply is_done_other. intro EQ. injection EQ as -> ->.
        pose proof (iv_done g B s1 I1 i id x0 H). unfold id in *. lia.
    - split; [rewrite S5 | rewrite S6].
      + exact (fresh_tag_unlogged g s1 i _ (li_invs g s1 L1)).
      + exact (fresh_tag_unlogged g s1 i _ (li_results g s1 L1)).
    - rewrite S1. apply in_or_app. right. left. reflexivity. }
  (* the rest of the schedule *)
  assert (TS : Track g i j id n q body dc m inv0 st).
  { unfold st. rewrite run_split. fold s1. rewrite STEP.
    exact (track_run_from g B i j id n q body d dc m inv0 AH Ai Aj HD HR HC HDISP HONE post s2 I2 T2). }
  destruct (track_quiescent g i j id n q body dc m inv0 st TS QU NS) as (l & r & x & (CL & _ & _) & (LG1 & LG2) & RP & CP).
  exists f, l, x. split; [exact FIN|]. split; [exact LG1|]. split; [exact LG2|]. split; [exact CL|].
  eapply completes_mirrors; eassumption.
Qed.

(* ======================================================================== *)
(* 12. proxies: the bus name, and interfaces discovered by introspection      *)

(* the connection a bus name denotes for the model's bus is the one it denotes in the
   reference name table of C13 / C14 *)
Lemma route_is_addressee h d :
  d <> [] -> route (fst (BusRoute.run h)) d = BusRouteSpec.addressee (BusRouteSpec.s_table (fst (BusRouteSpec.srun h))) d.
Proof.
  intro Hd. pose proof (BusRouteProofs.inv_run h) as [IM _ IR _ _]. unfold route.
  exact (BusRouteProofs.resolve_addressee _ _ d IM IR Hd).
Qed.

From Tx Require Proofs.IntrospectProofs.

Lemma call_remote_normalise ifs rest bus path mname args kw :
  Forall IntrospectProofs.consistent ifs ->
  call_remote (map IntrospectProofs.normalise ifs ++ rest) bus path mname args kw =
  call_remote (ifs ++ rest) bus path mname args kw.
Proof.
  intro HC. unfold call_remote.
  assert (E : match find_method (kw_iface kw) mname (map IntrospectProofs.normalise ifs ++ rest) with
              | Some (i, m) => Some (Introspect.i_name i, m) | None => None end =
              match find_method (kw_iface kw) mname (ifs ++ rest) with
              | Some (i, m) => Some (Introspect.i_name i, m) | None => None end).
  { induction HC as [|i ifs Hi HC IH]; [reflexivity|]. cbn [map app find_method].
    assert (SK : skipped (kw_iface kw) (IntrospectProofs.normalise i) = skipped (kw_iface kw) i) by reflexivity.
    rewrite SK. destruct (skipped (kw_iface kw) i); [exact IH|].
    cbn [IntrospectProofs.normalise Introspect.i_methods].
    destruct Hi as ((_ & KN & _) & _). rewrite (IntrospectProofs.sorted_items_lookup_id _ mname KN).
    destruct (alist_get str_eqb mname (Introspect.i_methods i)); [reflexivity | exact IH]. }
  destruct (find_method (kw_iface kw) mname (map IntrospectProofs.normalise ifs ++ rest)) as [[i1 m1]|];
    destruct (find_method (kw_iface kw) mname (ifs ++ rest)) as [[i2 m2]|]; try discriminate; [|reflexivity].
  injection E as E1 E2. subst m2. destruct m1 as [mm|sg|pr]; rewrite ?E1; reflexivity.
Qed.

Lemma ifaces_of_seq heap xs : ifaces_of (heap ++ xs) (seq (length heap) (length xs)) = xs.
Proof.
  unfold ifaces_of. revert heap. induction xs as [|x xs IH]; intro heap; [reflexivity|].
  cbn [length seq flat_map]. rewrite nth_error_app2 by lia. rewrite Nat.sub_diag. cbn [nth_error app].
  f_equal. specialize (IH (heap ++ [x])). rewrite <- app_assoc in IH. cbn [app] in IH.
  rewrite app_length in IH. cbn [length] in IH. rewrite Nat.add_1_r in IH. exact IH.
Qed.

(* a proxy built by introspection of an object whose interfaces were declared
   through the declaring API answers callRemote exactly as a proxy holding those
   interface objects (followed by the three standard ones) would: C15 *)
Theorem introspected_proxy replace heap known path exported ifs bus required :
  alist_get str_eqb path exported = Some ifs ->
  Forall IntrospectProofs.built ifs ->
  IntrospectProofs.fresh replace known (ifs ++ IntrospectProofs.std_ifaces) ->
  (forall r, In r required -> In r (map Introspect.i_name (ifs ++ IntrospectProofs.std_ifaces))) ->
  exists evs px heap' known',
    Introspect.gen_doc path exported = Ok (Some evs) /\
    introspected replace heap known required bus path evs = IProxy px heap' known' /\
    px_bus px = bus /\ px_path px = path /\
    forall mname args kw,
      call_remote (ifaces_of heap' (px_ifaces px)) bus path mname args kw =
      call_remote (ifs ++ IntrospectProofs.std_ifaces) bus path mname args kw.
Proof.
  intros HO HB HF HR.
  destruct (IntrospectProofs.roundtrip_built replace heap known path exported ifs HO HB HF) as (evs & EG & EP & _).
  exists evs. unfold introspected. rewrite EP.
  set (heap' := heap ++ map IntrospectProofs.normalise ifs ++ IntrospectProofs.std_ifaces).
  set (ids := seq (length heap) (length ifs + 3)).
  assert (IO : ifaces_of heap' ids = map IntrospectProofs.normalise ifs ++ IntrospectProofs.std_ifaces).
  { unfold heap', ids. replace (length ifs + 3)%nat with (length (map IntrospectProofs.normalise ifs ++ IntrospectProofs.std_ifaces))
      by (rewrite app_length, map_length; reflexivity). apply ifaces_of_seq. }
  assert (MS : missing heap' required ids = []).
  { unfold missing. apply filter_nil_all. intros r Hr. apply negb_false_iff. apply existsb_exists.
    specialize (HR r Hr). apply in_map_iff in HR as (ifc & EN & IN).
    assert (NM : map Introspect.i_name (ifaces_of heap' ids) = map Introspect.i_name (ifs ++ IntrospectProofs.std_ifaces)).
    { rewrite IO, !map_app, map_map. reflexivity. }
    assert (IN2 : In r (map Introspect.i_name (ifaces_of heap' ids))) by (rewrite NM; apply in_map_iff; exists ifc; split; assumption).
    unfold ifaces_of in IN2. apply in_map_iff in IN2 as (x & EX & IX). apply in_flat_map in IX as (k & IK & IX).
    exists k. split; [exact IK|]. unfold heap_name. destruct (nth_error heap' k) as [y|]; [|destruct IX].
    destruct IX as [->|[]]. rewrite EX. apply str_eqb_refl. }
  rewrite MS. eexists. eexists. eexists. split; [exact EG|]. split; [reflexivity|]. split; [reflexivity|]. split; [reflexivity|].
  intros mname args kw. cbn [px_ifaces]. rewrite IO.
  apply call_remote_normalise. apply IntrospectProofs.built_consistent. exact HB.
Qed.

(* the interfaces an exporter shows to introspection are objects of the declaring API *)
Lemma conv_iface_built i : IntrospectProofs.built (conv_iface i).
Proof.
  unfold conv_iface, IntrospectProofs.built.
  destruct (Introspect.new_iface (Dispatch.i_name i) (map conv_meth (Dispatch.i_methods i))) as [x|e] eqn:E.
  - exists (Dispatch.i_name i), (map conv_meth (Dispatch.i_methods i)). exact E.
  - exists (Dispatch.i_name i), []. reflexivity.
Qed.

(* ======================================================================== *)
(* 13. a concrete system: three clients, two concurrent calls, two delivery orders *)
From Tx Require Model.OpsC11.

Definition x_iface : str := [97; 46; 98].                (* a.b *)
Definition x_M : str := [77].                            (* M *)
Definition x_i : str := [105].                           (* i *)
Definition x_path : str := [47; 111].                    (* /o *)
Definition x_dbus_M : str := [100; 98; 117; 115; 95; 77].  (* dbus_M *)

Definition x_func : Dispatch.func := Dispatch.mkFunc 1 None false.
Definition x_class : Dispatch.class :=
  Dispatch.mkClass (Some [Dispatch.mkIface x_iface [Dispatch.mkMeth x_M x_i x_i]]) [(x_dbus_M, x_func)].
Definition x_exports : Dispatch.exports := [(x_path, [x_class])].

(* every client its own process; client 2 exports /o with a.b.M(i) -> i, which returns its argument *)
Definition x_cfg : config :=
  mkCfg 8 (fun c => N.to_nat c)
        (fun c => if c =? 2 then x_exports else [])
        (fun _ inv => Dispatch.OValue (match Dispatch.v_args inv with [x] => x | l => PTuple l end))
        (fun _ => ([], [])) Message.max_msg_len.

Definition x_h0 : list BusRoute.event := OpsC11.setup 3 [].

Definition x_declare (c : client) : action := ADeclare c x_iface [Introspect.DMeth x_M x_i x_i] true.
Definition x_proxy (c : client) : action := AProxy c (unique_name 2) x_path (AOne (IObj 0)) false.
Definition x_call (c : client) (v : Z) : action := ACall c 0 x_M [PInt v] kw_default.

Definition x_prefix : list action := [x_declare 1; x_proxy 1; x_declare 3; x_proxy 3].

(* order A: both calls issued, then the links drained caller side first *)
Definition x_order_a : list action :=
  x_prefix ++ [x_call 1 7; x_call 3 9; AUp 1; AUp 3; ADown 2; ADown 2; AUp 2; AUp 2; ADown 1; ADown 3].
(* order B: client 3's call is dispatched before client 1 has even made its own; the reply to 1 overtakes *)
Definition x_pre_b : list action := x_prefix ++ [x_call 3 9; AUp 3; ADown 2].
Definition x_post_b : list action := [AUp 2; AUp 1; ADown 3; ADown 2; AUp 2; ADown 1].
Definition x_order_b : list action := x_pre_b ++ x_call 1 7 :: x_post_b.

Definition x_run (sched : list action) : sys := run x_cfg x_h0 (fun _ => 10) sched.

Definition x_done (s : sys) := s_done s.
Definition x_args (s : sys) := map (fun e => (fst (fst e), Dispatch.v_args (snd e))) (s_invs s).

Lemma example_two_orders :
  x_done (x_run x_order_a) = [(1, 0%nat, CValue (Some (PInt 7))); (3, 0%nat, CValue (Some (PInt 9)))] /\
  x_args (x_run x_order_a) = [(2, [PInt 7]); (2, [PInt 9])] /\
  s_net (x_run x_order_a) = [] /\ s_open (x_run x_order_a) = [] /\
  x_done (x_run x_order_b) = [(3, 0%nat, CValue (Some (PInt 9))); (1, 0%nat, CValue (Some (PInt 7)))] /\
  x_args (x_run x_order_b) = [(2, [PInt 9]); (2, [PInt 7])] /\
  s_net (x_run x_order_b) = [] /\ s_open (x_run x_order_b) = [].
Proof. vm_compute. repeat split; reflexivity. Qed.

Definition x_px : proxy := mkProxy (unique_name 2) x_path [0%nat].
Definition x_q : creq :=
  mkReq x_path x_M (Some x_iface) (Some (unique_name 2)) (Some x_i) [PInt 7] true true None (Calls.RsStr x_i).
Definition x_im : Dispatch.iface := Dispatch.mkIface x_iface [Dispatch.mkMeth x_M x_i x_i].
Definition x_m : Dispatch.meth := Dispatch.mkMeth x_M x_i x_i.

(* every hypothesis of [end_to_end] holds for the call of client 1 in order B *)
Lemma example_hypotheses :
  let B := fst (BusRoute.run x_h0) in
  let s1 := x_run x_pre_b in
  let st := x_run (x_pre_b ++ x_call 1 7 :: x_post_b) in
  let n := p_serial (proc_of x_cfg s1 1) in
  let dc := arriving_call x_q (arrived [TInt32] [WInt 7]) (unique_name 1) (Z.of_N n) in
  all_hello B /\ mem 1 (b_clients (BusRoute.r_bus B)) = true /\ mem 2 (b_clients (BusRoute.r_bus B)) = true /\
  validate_bus (unique_name 1) = true /\
  nth_error (s_proxies s1 1) 0 = Some x_px /\
  call_remote (ifaces_of (p_heap (proc_of x_cfg s1 1)) (px_ifaces x_px)) (px_bus x_px) (px_path x_px) x_M [PInt 7] kw_default
    = PcCall x_q /\
  route B (unique_name 2) = Some 2 /\
  constructible x_q /\ n <= Calls.max_serial /\
  (forall body, encode_body (g_fuel x_cfg) (q_sig x_q) (PTuple (q_args x_q)) (Some []) = Ok body ->
                too_big (g_limit x_cfg) (g_fuel x_cfg) (call_msg x_q n body) = false) /\
  passed [TInt32] [PInt 7] [WInt 7] (g_fuel x_cfg) /\
  DispatchSpec.distinct_interfaces (g_exports x_cfg 2) /\ DispatchSpec.builtin dc = false /\
  DispatchSpec.addressed (g_exports x_cfg 2) dc = DispatchSpec.TMethod [x_class] x_im x_m /\
  DispatchSpec.candidates [x_class] (Dispatch.i_name x_im) (q_member x_q) <> [] /\
  quiescent st /\ ~ stuck x_cfg 1 2 st.
Proof.
  cbv zeta. split.
  { intros c H. vm_compute in H |- *.
    destruct c as [|[p|p|]]; try discriminate; try reflexivity; destruct p as [p|p|]; try discriminate; try reflexivity;
      destruct p; try discriminate; reflexivity. }
  split; [reflexivity|]. split; [reflexivity|]. split; [reflexivity|]. split; [vm_compute; reflexivity|].
  split; [vm_compute; reflexivity|]. split; [vm_compute; reflexivity|]. split; [split; vm_compute; reflexivity|].
  split; [vm_compute; discriminate|].
  split. { intros body E. vm_compute in E. injection E as <-. vm_compute. reflexivity. }
  split. { constructor; cbn; repeat split; try reflexivity; try lia; vm_compute; reflexivity. }
  split. { intros p o H. destruct H as [H|[]]. injection H as <- <-. vm_compute. repeat constructor; intros []; discriminate. }
  split; [vm_compute; reflexivity|]. split; [vm_compute; reflexivity|]. split; [vm_compute; discriminate|].
  split; [split; vm_compute; reflexivity|].
  unfold stuck. vm_compute. intros [H|[H|H]]; discriminate.
Qed.
