(* Proofs for C12: the rule text written by client.addMatch, read by
   Bus.dbus_AddMatch, gives back the rule. *)
From Tx Require Import Lib.Base Lib.Sexp Model.Router.
From Coq Require Import DecimalPos DecimalN.
Local Open Scope N_scope.

(* s contains no c *)
Definition clean (c : N) (s : str) : bool := forallb (fun x => negb (x =? c)) s.

Lemma clean_app c a b : clean c (a ++ b) = clean c a && clean c b.
Proof. apply forallb_app. Qed.

Lemma split_on_clean c a : clean c a = true -> split_on c a = [a].
Proof.
  induction a as [|x a IH]; cbn; [reflexivity|].
  intros H. apply andb_true_iff in H as [Hx Ha]. apply negb_true_iff in Hx. rewrite Hx, (IH Ha). reflexivity.
Qed.

Lemma split_on_clean_app c a b : clean c a = true -> split_on c (a ++ c :: b) = a :: split_on c b.
Proof.
  induction a as [|x a IH]; cbn.
  - rewrite N.eqb_refl. reflexivity.
  - intros H. apply andb_true_iff in H as [Hx Ha]. apply negb_true_iff in Hx. rewrite Hx, (IH Ha). reflexivity.
Qed.

Lemma split_join c items :
  items <> [] -> Forall (fun it => clean c it = true) items -> split_on c (join_with c items) = items.
Proof.
  induction items as [|x items IH]; [congruence|].
  intros _ F. inversion F as [|? ? Hx F']; subst.
  destruct items as [|y items].
  - cbn. apply split_on_clean; exact Hx.
  - change (join_with c (x :: y :: items)) with (x ++ c :: join_with c (y :: items)).
    rewrite split_on_clean_app by exact Hx. rewrite IH; [reflexivity | discriminate | exact F'].
Qed.

(* ---- decimal numbers --------------------------------------------------------------- *)

Definition dstep (acc c : N) : N := acc * 10 + (c - 48).

Lemma fold_uint_pos u : forall p, fold_left dstep (uint_chars u) (Npos p) = Npos (Pos.of_uint_acc u p).
Proof.
  induction u; intros p; cbn [uint_chars fold_left Pos.of_uint_acc]; [reflexivity| ..];
    (etransitivity; [|apply IHu]); f_equal; unfold dstep; lia.
Qed.

Lemma fold_uint_zero u : fold_left dstep (uint_chars u) 0 = Pos.of_uint u.
Proof.
  induction u; cbn [uint_chars fold_left Pos.of_uint]; [reflexivity| exact IHu | ..];
    (etransitivity; [|apply fold_uint_pos]); f_equal.
Qed.

Lemma uint_chars_digits u : forallb is_digit (uint_chars u) = true.
Proof. induction u; cbn [uint_chars forallb]; [reflexivity| ..]; rewrite IHu; reflexivity. Qed.

Lemma uint_chars_nonnil u : u <> Decimal.Nil -> uint_chars u <> [].
Proof. destruct u; cbn; congruence. Qed.

Lemma dec_digits n : forallb is_digit (dec n) = true.
Proof. apply uint_chars_digits. Qed.

Lemma dec_nonempty n : dec n <> [].
Proof.
  unfold dec, n_chars. apply uint_chars_nonnil.
  destruct (N.of_nat n) as [|p]; cbn; [discriminate | apply Unsigned.to_uint_nonnil].
Qed.

Lemma py_int_dec n : py_int (dec n) = Ok n.
Proof.
  unfold py_int. pose proof (dec_nonempty n) as Hn. pose proof (dec_digits n) as Hd.
  destruct (dec n) as [|c d] eqn:E; [congruence|]. rewrite Hd.
  change (fun acc c0 : N => acc * 10 + (c0 - 48)) with dstep.
  rewrite <- E. unfold dec, n_chars. rewrite fold_uint_zero.
  change (Pos.of_uint (N.to_uint (N.of_nat n))) with (N.of_uint (N.to_uint (N.of_nat n))).
  rewrite DecimalN.Unsigned.of_to, Nat2N.id. reflexivity.
Qed.

Lemma digits_clean c d : forallb is_digit d = true -> is_digit c = false -> clean c d = true.
Proof.
  intros Hd Hc. induction d as [|x d IH]; [reflexivity|].
  change (clean c (x :: d)) with (negb (x =? c) && clean c d).
  cbn in Hd. apply andb_true_iff in Hd as [Hx Hd]. rewrite (IH Hd), andb_true_r.
  apply negb_true_iff. destruct (x =? c) eqn:E; [|reflexivity].
  apply N.eqb_eq in E. subst x. congruence.
Qed.

Lemma digits_rev d : forallb is_digit d = true -> forallb is_digit (rev d) = true.
Proof.
  induction d as [|x d IH]; cbn; [reflexivity|].
  intros H. apply andb_true_iff in H as [Hx Hd]. rewrite forallb_app, (IH Hd). cbn. rewrite Hx. reflexivity.
Qed.

(* ---- one item --------------------------------------------------------------------- *)

Lemma str_eqb_neq a b : a <> b -> str_eqb a b = false.
Proof. intros H. destruct (str_eqb a b) eqn:E; [|reflexivity]. apply str_eqb_spec in E. contradiction. Qed.

Lemma split_kv k v :
  clean c_eq k = true -> clean c_eq v = true ->
  split_on c_eq (kv k v) = [k; c_quote :: v ++ [c_quote]].
Proof.
  intros Hk Hv. unfold kv. change (k ++ [c_eq; c_quote] ++ v ++ [c_quote]) with (k ++ c_eq :: (c_quote :: v ++ [c_quote])).
  rewrite split_on_clean_app by exact Hk. f_equal. apply split_on_clean.
  change (c_quote :: v ++ [c_quote]) with ([c_quote] ++ v ++ [c_quote]). rewrite !clean_app, Hv. reflexivity.
Qed.

Lemma strip_quoted v : strip_ends (c_quote :: v ++ [c_quote]) = v.
Proof. unfold strip_ends. cbn [tl]. apply removelast_last. Qed.

Lemma parse_item_kv acc k v :
  clean c_eq k = true -> clean c_eq v = true -> parse_item acc (kv k v) = parse_kv acc k v.
Proof. intros Hk Hv. unfold parse_item. rewrite (split_kv k v Hk Hv), strip_quoted. reflexivity. Qed.

Lemma digit_head d : d <> [] -> forallb is_digit d = true -> exists c t, d = c :: t /\ is_digit c = true /\ forallb is_digit t = true.
Proof.
  intros Hn Hd. destruct d as [|c t]; [congruence|]. cbn in Hd. apply andb_true_iff in Hd as [Hc Ht].
  exists c, t. auto.
Qed.

Lemma not_digit_neq c x : is_digit c = true -> is_digit x = false -> c <> x.
Proof. intros Hc Hx E. subst. congruence. Qed.

Lemma ends_with_path_digits d :
  d <> [] -> forallb is_digit d = true -> ends_with k_path (k_arg ++ d) = false.
Proof.
  intros Hn Hd. unfold ends_with. rewrite rev_app_distr.
  assert (Hr : rev d <> []) by (intro E; apply Hn; rewrite <- (rev_involutive d), E; reflexivity).
  destruct (digit_head (rev d) Hr (digits_rev d Hd)) as (c & t & E & Hc & _). rewrite E.
  change (rev k_path) with [104; 116; 97; 112]. cbn [app starts_with].
  destruct (104 =? c) eqn:E1; [|reflexivity].
  apply N.eqb_eq in E1. subst c. vm_compute in Hc. discriminate.
Qed.

Lemma ends_with_path_suffix a : ends_with k_path (a ++ k_path) = true.
Proof.
  unfold ends_with. apply starts_with_spec. exists (rev a). apply rev_app_distr.
Qed.

Lemma parse_kv_arg acc n v : parse_kv acc (k_arg ++ dec n) v = Ok (push_arg (n, v) acc).
Proof.
  pose proof (dec_nonempty n) as Hn. pose proof (dec_digits n) as Hd. pose proof (py_int_dec n) as Hi.
  destruct (digit_head _ Hn Hd) as (c & t & E & Hc & Ht).
  unfold parse_kv.
  assert (N1 : str_eqb (k_arg ++ dec n) k_type = false) by (apply str_eqb_neq; discriminate).
  rewrite N1.
  assert (N2 : str_eqb (k_arg ++ dec n) k_mtype = false) by (apply str_eqb_neq; discriminate).
  assert (N3 : str_eqb (k_arg ++ dec n) k_sender = false) by (apply str_eqb_neq; discriminate).
  assert (N4 : str_eqb (k_arg ++ dec n) k_interface = false) by (apply str_eqb_neq; discriminate).
  assert (N5 : str_eqb (k_arg ++ dec n) k_member = false) by (apply str_eqb_neq; discriminate).
  assert (N6 : str_eqb (k_arg ++ dec n) k_path = false) by (apply str_eqb_neq; discriminate).
  assert (N7 : str_eqb (k_arg ++ dec n) k_path_namespace = false) by (apply str_eqb_neq; discriminate).
  assert (N8 : str_eqb (k_arg ++ dec n) k_destination = false) by (apply str_eqb_neq; discriminate).
  assert (N9 : str_eqb (k_arg ++ dec n) k_args = false).
  { apply str_eqb_neq. rewrite E. intro X. injection X as -> _. vm_compute in Hc. discriminate. }
  assert (N10 : str_eqb (k_arg ++ dec n) k_arg_paths = false).
  { apply str_eqb_neq. rewrite E. intro X. injection X as -> _. vm_compute in Hc. discriminate. }
  assert (N11 : str_eqb (k_arg ++ dec n) k_arg0namespace = false).
  { apply str_eqb_neq. rewrite E. intro X. injection X as -> ->. vm_compute in Ht. discriminate. }
  rewrite N2, N3, N4, N5, N6, N7, N8, N9, N10, N11. cbn [orb].
  assert (S1 : starts_with k_arg (k_arg ++ dec n) = true) by (apply starts_with_spec; eexists; reflexivity).
  rewrite S1, (ends_with_path_digits _ Hn Hd).
  change (skipn 3 (k_arg ++ dec n)) with (dec n). rewrite Hi. reflexivity.
Qed.

Lemma parse_kv_arg_path acc n v : parse_kv acc (k_arg ++ dec n ++ k_path) v = Ok (push_arg_path (n, v) acc).
Proof.
  pose proof (dec_nonempty n) as Hn. pose proof (dec_digits n) as Hd. pose proof (py_int_dec n) as Hi.
  destruct (digit_head _ Hn Hd) as (c & t & E & Hc & Ht).
  unfold parse_kv.
  assert (N1 : str_eqb (k_arg ++ dec n ++ k_path) k_type = false) by (apply str_eqb_neq; discriminate).
  rewrite N1.
  assert (N2 : str_eqb (k_arg ++ dec n ++ k_path) k_mtype = false) by (apply str_eqb_neq; discriminate).
  assert (N3 : str_eqb (k_arg ++ dec n ++ k_path) k_sender = false) by (apply str_eqb_neq; discriminate).
  assert (N4 : str_eqb (k_arg ++ dec n ++ k_path) k_interface = false) by (apply str_eqb_neq; discriminate).
  assert (N5 : str_eqb (k_arg ++ dec n ++ k_path) k_member = false) by (apply str_eqb_neq; discriminate).
  assert (N6 : str_eqb (k_arg ++ dec n ++ k_path) k_path = false) by (apply str_eqb_neq; discriminate).
  assert (N7 : str_eqb (k_arg ++ dec n ++ k_path) k_path_namespace = false) by (apply str_eqb_neq; discriminate).
  assert (N8 : str_eqb (k_arg ++ dec n ++ k_path) k_destination = false) by (apply str_eqb_neq; discriminate).
  assert (N9 : str_eqb (k_arg ++ dec n ++ k_path) k_args = false).
  { apply str_eqb_neq. rewrite E. intro X. injection X as -> _. vm_compute in Hc. discriminate. }
  assert (N10 : str_eqb (k_arg ++ dec n ++ k_path) k_arg_paths = false).
  { apply str_eqb_neq. rewrite E. intro X. injection X as -> _. vm_compute in Hc. discriminate. }
  assert (N11 : str_eqb (k_arg ++ dec n ++ k_path) k_arg0namespace = false).
  { apply str_eqb_neq. rewrite E. intro X. injection X as -> X.
    destruct t as [|c2 t]; [discriminate X|]. injection X as -> _. vm_compute in Ht. discriminate. }
  rewrite N2, N3, N4, N5, N6, N7, N8, N9, N10, N11. cbn [orb].
  assert (S1 : starts_with k_arg (k_arg ++ dec n ++ k_path) = true) by (apply starts_with_spec; eexists; reflexivity).
  rewrite S1.
  assert (S2 : ends_with k_path (k_arg ++ dec n ++ k_path) = true).
  { rewrite app_assoc. apply ends_with_path_suffix. }
  rewrite S2.
  assert (S3 : firstn (length (k_arg ++ dec n ++ k_path) - 7) (skipn 3 (k_arg ++ dec n ++ k_path)) = dec n).
  { change (skipn 3 (k_arg ++ dec n ++ k_path)) with (dec n ++ k_path).
    rewrite !app_length. change (length k_arg) with 3%nat. change (length k_path) with 4%nat.
    replace (3 + (length (dec n) + 4) - 7)%nat with (length (dec n)) by lia.
    rewrite firstn_app, firstn_all, Nat.sub_diag. cbn. apply app_nil_r. }
  rewrite S3, Hi. reflexivity.
Qed.

(* ---- the item list ------------------------------------------------------------------- *)

Lemma parse_items_app l1 l2 acc :
  parse_items (l1 ++ l2) acc = (do a <- parse_items l1 acc; parse_items l2 a).
Proof.
  revert acc. induction l1 as [|x l1 IH]; intros acc; cbn [app parse_items bind]; [reflexivity|].
  destruct (parse_item acc x); cbn [bind]; [apply IH | reflexivity].
Qed.

Definition upd (f : str -> rule -> rule) (v : option str) (acc : rule) : rule :=
  match v with Some s => f s acc | None => acc end.

Definition clean_o (c : N) (v : option str) : bool :=
  match v with Some s => clean c s | None => true end.

Lemma parse_opt K f v rest acc :
  clean c_eq K = true -> (forall a s, parse_kv a K s = Ok (f s a)) -> clean_o c_eq v = true ->
  parse_items (kv_opt K v ++ rest) acc = parse_items rest (upd f v acc).
Proof.
  intros HK Hf Hv. destruct v as [s|]; cbn [kv_opt app upd]; [|reflexivity].
  cbn [parse_items]. rewrite (parse_item_kv acc K s HK Hv), Hf. reflexivity.
Qed.

Lemma parse_args l rest acc :
  forallb (fun iv => clean c_eq (snd iv)) l = true ->
  parse_items (map (fun iv => kv (k_arg ++ dec (fst iv)) (snd iv)) l ++ rest) acc =
  parse_items rest (fold_left (fun a iv => push_arg iv a) l acc).
Proof.
  revert acc. induction l as [|[n v] l IH]; intros acc H; cbn [map app fold_left]; [reflexivity|].
  cbn in H. apply andb_true_iff in H as [Hv Hl]. cbn [parse_items fst snd].
  rewrite parse_item_kv; [| |exact Hv].
  - rewrite parse_kv_arg. cbn [bind]. apply IH; exact Hl.
  - rewrite clean_app. cbn. apply digits_clean; [apply dec_digits | reflexivity].
Qed.

Lemma parse_arg_paths l rest acc :
  forallb (fun iv => clean c_eq (snd iv)) l = true ->
  parse_items (map (fun iv => kv (k_arg ++ dec (fst iv) ++ k_path) (snd iv)) l ++ rest) acc =
  parse_items rest (fold_left (fun a iv => push_arg_path iv a) l acc).
Proof.
  revert acc. induction l as [|[n v] l IH]; intros acc H; cbn [map app fold_left]; [reflexivity|].
  cbn in H. apply andb_true_iff in H as [Hv Hl]. cbn [parse_items fst snd].
  rewrite parse_item_kv; [| |exact Hv].
  - rewrite parse_kv_arg_path. cbn [bind]. apply IH; exact Hl.
  - rewrite !clean_app. cbn. rewrite andb_true_r. apply digits_clean; [apply dec_digits | reflexivity].
Qed.

Lemma fold_push_arg l acc :
  fold_left (fun a iv => push_arg iv a) l acc =
  mkRule (r_type acc) (r_sender acc) (r_interface acc) (r_member acc) (r_path acc) (r_path_namespace acc)
         (r_destination acc) (r_args acc ++ l) (r_arg_paths acc) (r_arg0namespace acc).
Proof.
  revert acc. induction l as [|iv l IH]; intros acc; cbn [fold_left].
  - rewrite app_nil_r. destruct acc; reflexivity.
  - rewrite IH. cbn. rewrite <- app_assoc. reflexivity.
Qed.

Lemma fold_push_arg_path l acc :
  fold_left (fun a iv => push_arg_path iv a) l acc =
  mkRule (r_type acc) (r_sender acc) (r_interface acc) (r_member acc) (r_path acc) (r_path_namespace acc)
         (r_destination acc) (r_args acc) (r_arg_paths acc ++ l) (r_arg0namespace acc).
Proof.
  revert acc. induction l as [|iv l IH]; intros acc; cbn [fold_left].
  - rewrite app_nil_r. destruct acc; reflexivity.
  - rewrite IH. cbn. rewrite <- app_assoc. reflexivity.
Qed.

(* ---- the theorem ------------------------------------------------------------------------ *)

(* every value of the rule is free of c *)
Definition values_clean (c : N) (r : rule) : bool :=
  clean_o c (r_type r) && clean_o c (r_sender r) && clean_o c (r_interface r) && clean_o c (r_member r)
  && clean_o c (r_path r) && clean_o c (r_path_namespace r) && clean_o c (r_destination r)
  && forallb (fun iv => clean c (snd iv)) (r_args r) && forallb (fun iv => clean c (snd iv)) (r_arg_paths r)
  && clean_o c (r_arg0namespace r).

Lemma rule_items_nil r : rule_items r = [] -> r = empty_rule.
Proof.
  destruct r as [t s i mb p ns d a ap a0]. unfold rule_items.
  cbn [r_type r_sender r_interface r_member r_path r_path_namespace r_destination r_args r_arg_paths r_arg0namespace].
  destruct t; [discriminate|]. destruct s; [discriminate|]. destruct i; [discriminate|].
  destruct mb; [discriminate|]. destruct p; [discriminate|]. destruct ns; [discriminate|].
  destruct d; [discriminate|]. destruct a; [|discriminate]. destruct ap; [|discriminate].
  destruct a0; [discriminate|]. reflexivity.
Qed.

Lemma kv_clean_comma k v : clean c_comma k = true -> clean c_comma v = true -> clean c_comma (kv k v) = true.
Proof. intros Hk Hv. unfold kv. rewrite !clean_app, Hk, Hv. reflexivity. Qed.

Lemma Forall_kv_opt K v :
  clean c_comma K = true -> clean_o c_comma v = true -> Forall (fun it => clean c_comma it = true) (kv_opt K v).
Proof.
  intros HK Hv. destruct v as [s|]; cbn; [|constructor]. constructor; [|constructor].
  apply kv_clean_comma; assumption.
Qed.

Lemma rule_items_clean r :
  values_clean c_comma r = true -> Forall (fun it => clean c_comma it = true) (rule_items r).
Proof.
  unfold values_clean. rewrite !andb_true_iff.
  intros [[[[[[[[[H1 H2] H3] H4] H5] H6] H7] H8] H9] H10].
  unfold rule_items. repeat (apply Forall_app; split); try (apply Forall_kv_opt; [reflexivity|assumption]).
  - apply Forall_forall. intros it Hin. apply in_map_iff in Hin as ([n v] & <- & Hin).
    rewrite forallb_forall in H8. specialize (H8 _ Hin). cbn [fst snd] in *.
    apply kv_clean_comma; [|exact H8]. rewrite clean_app. cbn.
    apply digits_clean; [apply dec_digits | reflexivity].
  - apply Forall_forall. intros it Hin. apply in_map_iff in Hin as ([n v] & <- & Hin).
    rewrite forallb_forall in H9. specialize (H9 _ Hin). cbn [fst snd] in *.
    apply kv_clean_comma; [|exact H9]. rewrite !clean_app. cbn. rewrite andb_true_r.
    apply digits_clean; [apply dec_digits | reflexivity].
Qed.

Lemma parse_rule_items r :
  values_clean c_eq r = true -> parse_items (rule_items r) empty_rule = Ok r.
Proof.
  unfold values_clean. rewrite !andb_true_iff.
  intros [[[[[[[[[H1 H2] H3] H4] H5] H6] H7] H8] H9] H10].
  unfold rule_items.
  rewrite (parse_opt k_type set_type) by (try reflexivity; assumption).
  rewrite (parse_opt k_sender set_sender) by (try reflexivity; assumption).
  rewrite (parse_opt k_interface set_interface) by (try reflexivity; assumption).
  rewrite (parse_opt k_member set_member) by (try reflexivity; assumption).
  rewrite (parse_opt k_path set_path) by (try reflexivity; assumption).
  rewrite (parse_opt k_path_namespace set_path_namespace) by (try reflexivity; assumption).
  rewrite (parse_opt k_destination set_destination) by (try reflexivity; assumption).
  rewrite parse_args by assumption.
  rewrite parse_arg_paths by assumption.
  rewrite <- (app_nil_r (kv_opt k_arg0namespace (r_arg0namespace r))).
  rewrite (parse_opt k_arg0namespace set_arg0namespace) by (try reflexivity; assumption).
  cbn [parse_items]. f_equal.
  rewrite fold_push_arg_path, fold_push_arg.
  destruct r as [t s i mb p ns d a ap a0].
  cbn [r_type r_sender r_interface r_member r_path r_path_namespace r_destination r_args r_arg_paths r_arg0namespace].
  destruct t, s, i, mb, p, ns, d, a0; reflexivity.
Qed.

Theorem rule_string_round_trip r :
  r <> empty_rule -> values_clean c_comma r = true -> values_clean c_eq r = true ->
  parse_rule (rule_string r) = Ok r.
Proof.
  intros Hne Hc He. unfold parse_rule, rule_string.
  rewrite split_join.
  - apply parse_rule_items; exact He.
  - intro E. apply Hne. apply rule_items_nil; exact E.
  - apply rule_items_clean; exact Hc.
Qed.

(* the hypotheses are needed: the reader splits the text at every ',' and
   every '=' and cannot read the empty text *)
Definition r_arg0 (v : str) : rule := mkRule None None None None None None None [(0%nat, v)] [] None.

Lemma round_trip_needs_hypotheses :
  parse_rule (rule_string empty_rule) = Err EOther /\
  parse_rule (rule_string (r_arg0 [97; 44; 98])) = Err EOther /\          (* arg0='a,b' *)
  parse_rule (rule_string (r_arg0 [107; 61; 118])) = Err EOther /\        (* arg0='k=v' *)
  parse_rule (rule_string (r_arg0 [105; 116; 39; 115])) = Ok (r_arg0 [105; 116; 39; 115]).   (* arg0='it's' *)
Proof. vm_compute. repeat split; reflexivity. Qed.

(* an instance with every key *)
Definition w_full : rule :=
  mkRule (Some k_signal) (Some [58; 49; 46; 55]) (Some [111; 46; 73]) (Some [77]) (Some [47; 97; 47; 98])
         (Some [47; 97]) (Some [58; 49; 46; 52; 50]) [(0%nat, [120]); (12%nat, [])] [(1%nat, [47; 97; 47])]
         (Some [111; 46; 101]).

Lemma w_full_text :
  rule_string w_full =
  [116; 121; 112; 101; 61; 39; 115; 105; 103; 110; 97; 108; 39; 44; 115; 101; 110; 100; 101; 114; 61; 39; 58; 49;
   46; 55; 39; 44; 105; 110; 116; 101; 114; 102; 97; 99; 101; 61; 39; 111; 46; 73; 39; 44; 109; 101; 109; 98; 101;
   114; 61; 39; 77; 39; 44; 112; 97; 116; 104; 61; 39; 47; 97; 47; 98; 39; 44; 112; 97; 116; 104; 95; 110; 97;
   109; 101; 115; 112; 97; 99; 101; 61; 39; 47; 97; 39; 44; 100; 101; 115; 116; 105; 110; 97; 116; 105; 111; 110;
   61; 39; 58; 49; 46; 52; 50; 39; 44; 97; 114; 103; 48; 61; 39; 120; 39; 44; 97; 114; 103; 49; 50; 61; 39; 39;
   44; 97; 114; 103; 49; 112; 97; 116; 104; 61; 39; 47; 97; 47; 39; 44; 97; 114; 103; 48; 110; 97; 109; 101; 115;
   112; 97; 99; 101; 61; 39; 111; 46; 101; 39] /\
  w_full <> empty_rule /\ values_clean c_comma w_full = true /\ values_clean c_eq w_full = true /\
  parse_rule (rule_string w_full) = Ok w_full.
Proof. vm_compute. repeat split; try reflexivity. discriminate. Qed.
