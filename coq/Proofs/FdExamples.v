(* Examples and witnesses for C20 (closed by computation). *)
From Tx Require Import Lib.Base Model.PyVal Model.Validators Model.Marshal Model.Message Model.Framing
  Model.FdFraming
  Spec.WireSpec Spec.Readback Spec.WireTyped Spec.Conforms Spec.MsgSpec Spec.FramingSpec Spec.FdSpec
  Proofs.FdProofs Proofs.FdStartProofs.
Local Open Scope N_scope.

(* ------------------------------------------------------------------------ *)
(* 8. examples                                                                  *)

Definition call_fields : list (Z * ty * wval) :=
  [(1%Z, TObjPath, WStr [47; 97]); (3%Z, TString, WStr [77])].          (* path /a, member M *)

(* a call whose single UNIX_FD argument has index 0 although the message carries
   (and declares) no descriptor *)
Definition ex_A : sent :=
  mkSent {| s_le := true; s_type := 1; s_flags := 0; s_serial := 1;
            s_fields := call_fields ++ [(8%Z, TSig, WStr [104])];
            s_body_ts := [TFd]; s_body := [WInt 0] |} [].

(* a call with three descriptors: body ((h s) ah), the struct's descriptor is
   number 1, the array holds numbers 0 and 2 *)
Definition ex_B : sent :=
  mkSent {| s_le := true; s_type := 1; s_flags := 0; s_serial := 2;
            s_fields := (9%Z, TUInt32, WInt 3) :: call_fields ++ [(8%Z, TSig, WStr [40; 104; 115; 41; 97; 104])];
            s_body_ts := [TStruct [TFd; TString]; TArray TFd];
            s_body := [WStruct [WInt 1; WStr [120]]; WArray [WInt 0; WInt 2]] |}
         [PInt 10; PInt 11; PInt 12].

(* a big-endian signal without body or descriptors *)
Definition ex_C : sent :=
  mkSent {| s_le := false; s_type := 4; s_flags := 0; s_serial := 3;
            s_fields := call_fields ++ [(2%Z, TString, WStr [97; 46; 98])];
            s_body_ts := []; s_body := [] |} [].

(* a method return with one descriptor inside a variant *)
Definition ex_D : sent :=
  mkSent {| s_le := true; s_type := 2; s_flags := 1; s_serial := 4;
            s_fields := [(5%Z, TUInt32, WInt 7); (8%Z, TSig, WStr [118]); (9%Z, TUInt32, WInt 1)];
            s_body_ts := [TVariant]; s_body := [WVariant TFd (WInt 0)] |}
         [PInt 13].

Ltac prove_sent_ok :=
  split; [|reflexivity];
  unfold msg_wt; cbn [sn_msg sn_fds s_type s_flags s_serial s_fields s_body_ts s_body app call_fields];
  (split; [lia|]); (split; [lia|]); (split; [lia|]);
  (split; [repeat constructor; cbn; try lia; try reflexivity; try discriminate|]);
  (split; [cbn; repeat split; try discriminate; try lia; try reflexivity|]);
  (split; [try reflexivity; try (left; reflexivity)|]); vm_compute; reflexivity.

Lemma ex_A_ok : sent_ok ex_A. Proof. unfold ex_A. prove_sent_ok. Qed.
Lemma ex_B_ok : sent_ok ex_B. Proof. unfold ex_B. prove_sent_ok. Qed.
Lemma ex_C_ok : sent_ok ex_C. Proof. unfold ex_C. prove_sent_ok. Qed.
Lemma ex_D_ok : sent_ok ex_D. Proof. unfold ex_D. prove_sent_ok. Qed.

Definition ex_stream : bytes := wire ex_B ++ wire ex_C ++ wire ex_D.

(* D's descriptor (13) arrives before B is complete; reads are cut inside B's
   header, inside C and one byte before the end of D *)
Definition ex_ins : list input :=
  [Fd (PInt 10); Read (firstn 20 ex_stream); Fd (PInt 11); Fd (PInt 12); Fd (PInt 13);
   Read (firstn 100 (skipn 20 ex_stream)); Read (firstn 87 (skipn 120 ex_stream))].

Definition ex_rules : list (bytes * ares) := [].

Lemma ex_attribution :
  Forall sent_ok [ex_B; ex_C; ex_D] /\
  Forall (fun x => (msg_depth (sn_msg x) <= 8)%nat) [ex_B; ex_C; ex_D] /\
  stream_order [ex_B; ex_C; ex_D] ex_ins /\
  (* after the second read: B delivered with its own three descriptors although 13 is queued *)
  (exists p, run_fd (astep_rules ex_rules) 16384 false 8 true tt (firstn 6 ex_ins)
             = ([Deliver p], [PInt 13], Some (firstn 24 (wire ex_C))) /\
             snd (view p) = Some [PList [PInt 11; PStr [120]]; PList [PInt 10; PInt 12]]) /\
  (* at the end of ex_ins D is one byte short: two messages delivered, 13 still queued *)
  length (fst (fst (expected [ex_B; ex_C; ex_D] ex_ins))) = 2%nat /\
  snd (fst (expected [ex_B; ex_C; ex_D] ex_ins)) = [PInt 13] /\
  (* with the last byte, D gets 13 and the queue is empty *)
  map snd (fst (fst (expected [ex_B; ex_C; ex_D] (ex_ins ++ [Read (skipn 207 ex_stream)]))))
    = [Some [PList [PInt 11; PStr [120]]; PList [PInt 10; PInt 12]]; None; Some [PInt 13]] /\
  snd (fst (expected [ex_B; ex_C; ex_D] (ex_ins ++ [Read (skipn 207 ex_stream)]))) = [].
Proof.
  split; [exact (Forall_cons _ ex_B_ok (Forall_cons _ ex_C_ok (Forall_cons _ ex_D_ok (Forall_nil _))))|].
  split; [apply Forall_forall; intros x [<-|[<-|[<-|[]]]]; vm_compute; lia|].
  split; [apply stream_order_b_sound; vm_compute; reflexivity|].
  split.
  { destruct (run_fd (astep_rules ex_rules) 16384 false 8 true tt (firstn 6 ex_ins)) as [[o q] r] eqn:E.
    vm_compute in E. injection E as <- <- <-. eexists. split; reflexivity. }
  split; [vm_compute; reflexivity|]. split; [vm_compute; reflexivity|].
  split; vm_compute; reflexivity.
Qed.

(* D60: before the repair the body decoder saw the whole queue: A's argument
   (index 0, A carries nothing) is resolved to D's descriptor 13 *)
Lemma legacy_refuted :
  exists msgs ins,
    Forall sent_ok msgs /\ Forall (fun x => (msg_depth (sn_msg x) <= 8)%nat) msgs /\
    stream_order msgs ins /\
    map (fun o => match o with Deliver p => snd (view p) | _ => None end)
        (fst (fst (run_fd (astep_rules ex_rules) 16384 true 8 true tt ins)))
      = [Some [PInt 13]; Some [PInt 13]] /\
    map snd (fst (fst (expected msgs ins))) = [Some [PNone]; Some [PInt 13]] /\
    map (fun o => match o with Deliver p => snd (view p) | _ => None end)
        (fst (fst (run_fd (astep_rules ex_rules) 16384 false 8 true tt ins)))
      = [Some [PNone]; Some [PInt 13]].
Proof.
  exists [ex_A; ex_D], [Fd (PInt 13); Read (wire ex_A ++ wire ex_D)].
  split; [exact (Forall_cons _ ex_A_ok (Forall_cons _ ex_D_ok (Forall_nil _)))|].
  split; [apply Forall_forall; intros x [<-|[<-|[]]]; vm_compute; lia|].
  split; [apply stream_order_b_sound; vm_compute; reflexivity|].
  split; [vm_compute; reflexivity|]. split; vm_compute; reflexivity.
Qed.

(* ---- sending ------------------------------------------------------------------------- *)

(* call /a M with body ((h s) ah): three descriptors 10, 11, 12 in argument order *)
Definition ex_send : amsg :=
  {| a_type := 1; a_no_reply := false; a_no_auto_start := false;
     a_path := Some [47; 97]; a_interface := None; a_member := Some [77];
     a_error_name := None; a_reply_serial := None; a_destination := None; a_sender := None;
     a_sig := Some [TStruct [TFd; TString]; TArray TFd];
     a_body := [WStruct [WInt 0; WStr [120]]; WArray [WInt 1; WInt 2]] |}.

Definition ex_send_attrs : list (attr * pyval) :=
  [(APath, PStr [47; 97]); (AMember, PStr [77]); (ASignature, PStr [40; 104; 115; 41; 97; 104])].

Definition ex_send_body : pyval := PList [PTuple [PInt 10; PStr [120]]; PList [PInt 11; PInt 12]].

Definition ex_send_fds : list pyval := [PInt 10; PInt 11; PInt 12].

Lemma ex_send_ok :
  let s := smsg_fd ex_send true 5 3 in
  valid_amsg ex_send_fds ex_send /\ args_denote_fd ex_send_fds ex_send_attrs ex_send_body ex_send /\
  (msg_depth s <= 8)%nat /\ len (msg_enc s) <= max_msg_len /\
  call_remote 8 true true ex_send_attrs ex_send_body 5
    = (Ok (send_spec ex_send_fds (msg_enc s)), 6%Z) /\
  (* the header declares three descriptors and the receiver resolves them to 10, 11, 12 *)
  sent_ok (mkSent s ex_send_fds) /\
  snd (seen_of (mkSent s ex_send_fds)) = Some [PList [PInt 10; PStr [120]]; PList [PInt 11; PInt 12]].
Proof.
  cbv zeta. split; [|split; [|split; [|split; [|split; [|split]]]]].
  - unfold valid_amsg. cbn. repeat split; try discriminate; try lia.
  - split; [intros a; destruct a; cbn; auto|]. split; [|reflexivity].
    cbn. eexists. split; [reflexivity|].
    cbn. split; [|split; [|exact I]].
    + eexists. split; [reflexivity|]. cbn. repeat split; try lia.
    + eexists. split; [reflexivity|]. cbn. repeat split; lia.
  - vm_compute. lia.
  - vm_compute. discriminate.
  - vm_compute. reflexivity.
  - let s := eval vm_compute in (smsg_fd ex_send true 5 3) in
    change (sent_ok (mkSent s ex_send_fds)). unfold ex_send_fds. prove_sent_ok.
  - vm_compute. reflexivity.
Qed.

(* ---- from the start of the connection -------------------------------------------------- *)
From Tx Require Import Proofs.FramingProofs.

(* server side: NUL, "AUTH X", "GO" (accepted), then B (three descriptors) and D (one) *)
Definition ex_hs : bytes := hs_bytes false [AUTHX; GO].
Definition ex_stream2 : bytes := ex_hs ++ wire ex_B ++ wire ex_D.

(* 10 and 11 arrive while the handshake is still incomplete, 12 just before the
   read that carries "GO\r\n" together with the first 30 bytes of B *)
Definition ex_ins2 : list input :=
  [Read (firstn 5 ex_stream2); Fd (PInt 10); Fd (PInt 11); Fd (PInt 12);
   Read (firstn 38 (skipn 5 ex_stream2)); Fd (PInt 13); Read (skipn 43 ex_stream2)].

Lemma ex_start :
  Forall (good_line 16384) [AUTHX; GO] /\ auth_accepts (astep_rules go_rules) tt [AUTHX; GO] = true /\
  Forall sent_ok [ex_B; ex_D] /\ Forall (fun x => (msg_depth (sn_msg x) <= 8)%nat) [ex_B; ex_D] /\
  stream_order_hs ex_hs [ex_B; ex_D] ex_ins2 /\ first_read_nonempty (reads ex_ins2) /\
  (* after the read that completes the handshake: authenticated, nothing delivered, 10 11 12 queued *)
  run_start (astep_rules go_rules) 16384 false 8 false tt (firstn 5 ex_ins2)
    = ([Other (Line AUTHX); Other (Line GO); Other AuthOk], [PInt 10; PInt 11; PInt 12],
       Some (firstn 30 (wire ex_B))) /\
  (* at the end both messages delivered with their own descriptors *)
  (exists p1 p2,
     run_start (astep_rules go_rules) 16384 false 8 false tt ex_ins2
       = ([Other (Line AUTHX); Other (Line GO); Other AuthOk; Deliver p1; Deliver p2], [], Some []) /\
     snd (view p1) = Some [PList [PInt 11; PStr [120]]; PList [PInt 10; PInt 12]] /\
     snd (view p2) = Some [PInt 13]).
Proof.
  split; [exact (proj1 ex_lines_good)|]. split; [exact (proj2 ex_lines_good)|].
  split; [exact (Forall_cons _ ex_B_ok (Forall_cons _ ex_D_ok (Forall_nil _)))|].
  split; [apply Forall_forall; intros x [<-|[<-|[]]]; vm_compute; lia|].
  split; [apply stream_order_hs_b_sound; vm_compute; reflexivity|].
  split; [vm_compute; discriminate|].
  split; [vm_compute; reflexivity|].
  destruct (run_start (astep_rules go_rules) 16384 false 8 false tt ex_ins2) as [[o q] r] eqn:E.
  vm_compute in E. injection E as <- <- <-. eexists _, _. split; [reflexivity|]. split; reflexivity.
Qed.
