(* Proofs for Model/WireCodec.v: a message whose header fields are valid
   ([hdr_ok]) and which fits the size limit is ENCODABLE - its encoding
   announces its own length (well-framed: C03_frame_length's argument, with the
   body as raw bytes) and the header part of parseMessage gives the message
   back (C03_parse_own's header half) - from the marshalling refinement of
   C01 / C02 (marshal_refines, unmarshal_inverts) at the header signature
   yyyyuua(yv), following Proofs/MessageProofs.v. *)
From Tx Require Import Lib.Base Model.PyVal Model.Validators Model.Marshal Model.Message
  Spec.WireSpec Spec.Readback Spec.Conforms Spec.WireTyped Spec.Grammar Spec.MsgSpec
  Proofs.BytesProofs Proofs.SigProofs Proofs.MarshalProofs Proofs.UnmarshalProofs Proofs.ValidatorsProofs
  Proofs.MessageProofs.
From Tx Require Model.BusRoute Model.Framing Spec.FramingSpec Proofs.FramingProofs.
From Tx Require Import Model.WireCodec.
Local Open Scope N_scope.

(* ---------------------------------------------------------------------------
   1. the header of a wire message with a body of ANY announced length          *)

Definition hdrB (s : smsg) (blen : N) : bytes := enc_seq hdr_ts (hdr_ws s blen) 0 (s_le s).

Lemma hdrB_eq s blen :
  (0 <= s_type s < 256)%Z -> (0 <= s_flags s < 256)%Z -> (0 <= s_serial s < 4294967296)%Z ->
  blen < two32 ->
  hdrB s blen =
    [if s_le s then 108 else 66; Z.to_N (s_type s); Z.to_N (s_flags s); 1]
    ++ uint 4 (s_le s) blen ++ uint 4 (s_le s) (Z.to_N (s_serial s))
    ++ uint 4 (s_le s) (len (fields_bytes (s_le s) (s_fields s))) ++ fields_bytes (s_le s) (s_fields s).
Proof.
  intros Ht Hf Hs Hb. unfold hdrB, hdr_ts, hdr_ws. cbn [enc_seq].
  rewrite (enc_byte 0 (s_le s) (if s_le s then 108 else 66)%Z) by (destruct (s_le s); lia).
  cbn [length Nat.add].
  rewrite (enc_byte 1 (s_le s) (s_type s) Ht). cbn [length Nat.add].
  rewrite (enc_byte 2 (s_le s) (s_flags s) Hf). cbn [length Nat.add].
  rewrite (enc_byte 3 (s_le s) 1%Z) by lia. cbn [length Nat.add].
  rewrite (enc_u32 4 (s_le s)) by (try reflexivity; unfold two32 in *; lia).
  rewrite uint_length. cbn [Nat.add].
  rewrite (enc_u32 8 (s_le s) (s_serial s)) by (try reflexivity; exact Hs).
  rewrite uint_length. cbn [Nat.add].
  rewrite enc_aligned by reflexivity. rewrite encb_array.
  change (padding (align (TStruct [TByte; TVariant])) (12 + 4)) with (@nil N).
  cbn [length Nat.add app]. rewrite app_nil_r.
  destruct (s_le s); cbn [app]; rewrite N2Z.id; reflexivity.
Qed.

Definition rawB (s : smsg) (body : bytes) : bytes :=
  hdrB s (len body) ++ padding 8 (length (hdrB s (len body))) ++ body.

Lemma hdrB_length s blen : hdr_ranges s -> blen < two32 ->
  length (hdrB s blen) = (16 + length (fields_bytes (s_le s) (s_fields s)))%nat.
Proof.
  intros (Ht & Hf & Hs) Hb. rewrite (hdrB_eq s blen Ht Hf Hs Hb).
  rewrite !app_length, !uint_length. cbn [length]. lia.
Qed.

Lemma frame_len_rawB s body : hdr_ranges s -> len (rawB s body) < two32 ->
  frame_len (s_le s) (rawB s body) = len (rawB s body).
Proof.
  intros HR Hlen.
  assert (Hb : len body < two32) by (unfold rawB in Hlen; rewrite !len_app in Hlen; lia).
  pose proof (hdrB_length s (len body) HR Hb) as HL.
  assert (Hfa : len (fields_bytes (s_le s) (s_fields s)) < two32).
  { unfold rawB in Hlen. rewrite !len_app in Hlen. unfold len in *. lia. }
  destruct HR as (Ht & Hf & Hs).
  unfold frame_len.
  set (le := s_le s) in *. set (fb := fields_bytes le (s_fields s)) in *.
  assert (E : rawB s body =
    [if le then 108 else 66; Z.to_N (s_type s); Z.to_N (s_flags s); 1]
    ++ uint 4 le (len body) ++ uint 4 le (Z.to_N (s_serial s))
    ++ uint 4 le (len fb) ++ (fb ++ padding 8 (length (hdrB s (len body))) ++ body)).
  { unfold rawB. rewrite (hdrB_eq s (len body) Ht Hf Hs Hb) at 1. fold le. fold fb.
    rewrite <- !app_assoc. reflexivity. }
  remember (len (rawB s body)) as L eqn:EL.
  rewrite E.
  rewrite (slice_at [_; _; _; _] (uint 4 le (len body)) _ 4 4)
    by (try reflexivity; rewrite len_uint; reflexivity).
  rewrite dec_uint4 by exact Hb.
  rewrite (app_assoc [_; _; _; _]), (app_assoc (_ ++ _) (uint 4 le (Z.to_N _))).
  rewrite (slice_at _ (uint 4 le (len fb)) _ 12 4)
    by (rewrite ?len_app, ?len_uint; reflexivity).
  rewrite dec_uint4 by exact Hfa.
  subst L. unfold rawB. rewrite !len_app.
  replace (16 + len fb) with (N.of_nat (16 + length fb)) by (unfold len; lia).
  change 8 with (N.of_nat 8). rewrite (pad_len_spec 8) by (unfold good_align; auto).
  rewrite <- HL. unfold len. lia.
Qed.

(* ---------------------------------------------------------------------------
   2. a bus-level message as a wire message; which ones are well formed          *)

Import BusRoute.

Definition bfield (m : bmsg) (a : attr) : list (Z * ty * wval) :=
  match a with
  | APath => opt_field 1 TObjPath WStr (g_path m)
  | AInterface => opt_field 2 TString WStr (g_interface m)
  | AMember => opt_field 3 TString WStr (g_member m)
  | AErrorName => opt_field 4 TString WStr (g_error_name m)
  | AReplySerial => opt_field 5 TUInt32 WInt (option_map Z.of_N (g_reply_serial m))
  | ADestination => opt_field 6 TString WStr (g_destination m)
  | ASender => opt_field 7 TString WStr (g_sender m)
  | ASignature => opt_field 8 TSig WStr (g_signature m)
  | AUnixFds => []
  end.

Definition bfields (m : bmsg) : list (Z * ty * wval) := flat_map (bfield m) (hattrs (g_type m)).

Definition smsg_of_b (m : bmsg) : smsg :=
  {| s_le := true; s_type := Z.of_N (g_type m); s_flags := Z.of_N (g_flags m); s_serial := Z.of_N (g_serial m);
     s_fields := bfields m; s_body_ts := []; s_body := [] |}.

Definition opt_p (p : str -> bool) (o : option str) : Prop := match o with Some s => p s = true | None => True end.
Definition sig_ok (s : str) : bool := is_ascii s && (length s <=? 255)%nat.

(* the messages txdbus's own senders produce: little-endian, one of the four types, only the
   two flag bits, serial and reply serial within UINT32, every field a value of its DBus
   type, only the fields of the type's table, *)
Record hdr_ok (m : bmsg) : Prop := mkHdrOk {
  ho_le : g_le m = true;
  ho_type : 1 <= g_type m <= 4;
  ho_flags : g_flags m < 4;
  ho_serial : g_serial m < 4294967296;
  ho_path : opt_p validate_path (g_path m);
  ho_iface : opt_p string_ok (g_interface m);
  ho_member : opt_p string_ok (g_member m);
  ho_error : opt_p string_ok (g_error_name m);
  ho_rs : match g_reply_serial m with Some n => n < 4294967296 | None => True end;
  ho_dest : opt_p string_ok (g_destination m);
  ho_sender : opt_p string_ok (g_sender m);
  ho_sig : opt_p sig_ok (g_signature m);
  ho_args : g_args m = None;
  ho_signed : g_rs_signed m = false;
  ho_table : written m = m
}.

(* ... and within the size limit of message.py *)
Definition fits (m : bmsg) : Prop := len (rawB (smsg_of_b m) (g_body m)) <= max_msg_len.

Lemma hdr_item_conf_b m a : hdr_ok m ->
  conf_all farr_ty (hdr_item (attrs_of m) a) (map field_w (bfield m a)).
Proof.
  intros H. destruct H. unfold hdr_item, attrs_of.
  destruct a; cbn [get_attr attr_eqb attr_code N.eqb Pos.eqb bfield].
  - destruct (g_path m) as [s|]; cbn [ostr opt_field map]; [|exact I]. cbn [conf_all]. split; [|exact I].
    cbn in ho_path0. pose proof (path_string_ok s ho_path0) as So.
    unfold string_ok in So. apply andb_true_iff in So as [S1 S2]. apply negb_true_iff in S1.
    apply field_conf; [cbn; lia|reflexivity|cbn; lia|]. cbn. auto.
  - destruct (g_interface m) as [s|]; cbn [ostr opt_field map]; [|exact I]. cbn [conf_all]. split; [|exact I].
    apply field_conf; [cbn; lia|reflexivity|cbn; lia|]. apply string_ok_conf. exact ho_iface0.
  - destruct (g_member m) as [s|]; cbn [ostr opt_field map]; [|exact I]. cbn [conf_all]. split; [|exact I].
    apply field_conf; [cbn; lia|reflexivity|cbn; lia|]. apply string_ok_conf. exact ho_member0.
  - destruct (g_error_name m) as [s|]; cbn [ostr opt_field map]; [|exact I]. cbn [conf_all]. split; [|exact I].
    apply field_conf; [cbn; lia|reflexivity|cbn; lia|]. apply string_ok_conf. exact ho_error0.
  - destruct (g_reply_serial m) as [n|]; cbn [option_map opt_field map]; [|exact I]. cbn [conf_all]. split; [|exact I].
    apply field_conf; [cbn; lia|reflexivity|cbn; lia|]. cbn. split; [reflexivity|]. lia.
  - destruct (g_destination m) as [s|]; cbn [ostr opt_field map]; [|exact I]. cbn [conf_all]. split; [|exact I].
    apply field_conf; [cbn; lia|reflexivity|cbn; lia|]. apply string_ok_conf. exact ho_dest0.
  - destruct (g_sender m) as [s|]; cbn [ostr opt_field map]; [|exact I]. cbn [conf_all]. split; [|exact I].
    apply field_conf; [cbn; lia|reflexivity|cbn; lia|]. apply string_ok_conf. exact ho_sender0.
  - destruct (g_signature m) as [s|]; cbn [ostr opt_field map]; [|exact I]. cbn [conf_all]. split; [|exact I].
    cbn in ho_sig0. unfold sig_ok in ho_sig0. apply andb_true_iff in ho_sig0 as [A1 A2]. apply Nat.leb_le in A2.
    apply field_conf; [cbn; lia|reflexivity|cbn; lia|]. cbn. split; [reflexivity|]. split; assumption.
  - exact I.
Qed.

Lemma hdr_items_conf_b m order : hdr_ok m ->
  conf_all farr_ty (flat_map (hdr_item (attrs_of m)) order) (map field_w (flat_map (bfield m) order)).
Proof.
  intro H. induction order as [|a order IH]; [exact I|].
  cbn [flat_map]. rewrite map_app. apply conf_all_app; [|exact IH]. exact (hdr_item_conf_b m a H).
Qed.

Lemma flags_of_bits f : f < 4 -> flags_of (negb (N.testbit f 0)) (negb (N.testbit f 1)) = Z.of_N f.
Proof.
  intro H. assert (E : f = 0 \/ f = 1 \/ f = 2 \/ f = 3) by lia.
  destruct E as [E|[E|[E|E]]]; subst f; reflexivity.
Qed.

Lemma bfields_flat m : Forall (fun f : Z * ty * wval => wdepth (snd f) = 1%nat) (bfields m).
Proof.
  unfold bfields. induction (hattrs (g_type m)) as [|a l IH]; [constructor|].
  cbn [flat_map]. apply Forall_app. split; [|exact IH].
  destruct a; cbn [bfield]; unfold opt_field;
    repeat match goal with |- context [match ?o with Some _ => _ | None => _ end] => destruct o end;
    cbn [option_map]; repeat constructor.
Qed.

Lemma wdepth_hdr_b m blen : (wdepth_list (hdr_ws (smsg_of_b m) blen) <= 4)%nat.
Proof.
  unfold hdr_ws. cbn [wdepth_list fold_right wdepth smsg_of_b s_le s_type s_flags s_serial s_fields].
  assert (D : (fold_right (fun x n => Nat.max (wdepth x) n) 0 (map field_w (bfields m)) <= 3)%nat).
  { pose proof (bfields_flat m) as F. induction F as [|[[c t] w] l H _ IH]; [cbn; lia|].
    cbn [map fold_right field_w wdepth snd] in *. rewrite H. apply Nat.max_lub; [cbn; lia | exact IH]. }
  lia.
Qed.

(* ---------------------------------------------------------------------------
   3. wire_enc writes the specification encoding of the header, then the body   *)

Lemma hdr_ranges_b m : hdr_ok m -> hdr_ranges (smsg_of_b m).
Proof. intros [? ? ? ? ? ? ? ? ? ? ? ? ? ? ?]. unfold hdr_ranges. cbn. lia. Qed.

Lemma wire_enc_eq fuel m :
  hdr_ok m -> fits m -> (4 <= fuel)%nat ->
  wire_enc fuel m = rawB (smsg_of_b m) (g_body m).
Proof.
  intros H F Hf. pose proof H as [L T FL SR _ _ _ _ _ _ _ _ _ _ _].
  set (s := smsg_of_b m). set (bb := g_body m) in *.
  assert (BL : len bb < 4294967296).
  { unfold fits, rawB, max_msg_len in F. fold s bb in F. rewrite !len_app in F.
    set (a := len (hdrB s (len bb))) in *. set (b := len (padding 8 (length (hdrB s (len bb))))) in *. clearbody a b. lia. }
  unfold wire_enc, marshal_header. fold bb.
  rewrite (header_list_no_fds _ _ None (or_introl eq_refl)).
  rewrite (flags_of_bits _ FL).
  set (hl := [PInt 108; PInt (Z.of_N (g_type m)); PInt (Z.of_N (g_flags m)); PInt 1; PInt (Z.of_N (len bb));
              PInt (Z.of_N (g_serial m)); PList (flat_map (hdr_item (attrs_of m)) (hattrs (g_type m)))]).
  assert (Hconf : conf_seq hdr_ts hl (hdr_ws s (len bb))).
  { unfold hl, hdr_ts, hdr_ws. cbn [conf_seq s_le s_type s_flags s_serial s_fields s smsg_of_b].
    repeat split; try reflexivity; try (cbn; lia).
    rewrite conf_array. eexists. split; [reflexivity|]. exact (hdr_items_conf_b m _ H). }
  assert (Hsz : len (hdrB s (len bb)) + len (padding 8 (length (hdrB s (len bb)))) + len bb <= max_msg_len).
  { unfold fits, rawB in F. fold s bb in F. rewrite !len_app in F. lia. }
  unfold max_msg_len in *.
  change header_format with (show_list hdr_ts). change 0 with (N.of_nat 0).
  rewrite (marshal_refines hdr_ts (PList hl) hl _ 0 true None fuel eq_refl Hconf).
  - cbn [bind]. change (enc_seq hdr_ts (hdr_ws s (len bb)) 0 true) with (hdrB s (len bb)).
    replace (pad_len 8 (len (hdrB s (len bb)))) with (len (padding 8 (length (hdrB s (len bb))))).
    + rewrite zeros_padding.
      destruct (N.ltb_spec 134217728 (len (hdrB s (len bb)) + len (padding 8 (length (hdrB s (len bb)))) + len bb)) as [X|_]; [lia|].
      reflexivity.
    + symmetry. change 8 with (N.of_nat 8) at 1. apply pad_len_spec. unfold good_align. auto.
  - exact (Nat.le_trans _ _ _ (wdepth_hdr_b m (len bb)) Hf).
  - change (enc_seq hdr_ts (hdr_ws s (len bb)) 0 true) with (hdrB s (len bb)). unfold two32. lia.
Qed.

(* ... which announces its own length *)
Lemma wellframed_rawB s bb :
  hdr_ranges s -> len (rawB s bb) <= 134217728 -> FramingSpec.wellframed (rawB s bb).
Proof.
  intros HR F.
  assert (LT : len (rawB s bb) < two32) by (unfold two32; lia).
  assert (BL : len bb < two32).
  { unfold rawB in LT. rewrite !len_app in LT. clear F. unfold two32 in *.
    set (a := len (hdrB s (len bb))) in *. set (b := len (padding 8 (length (hdrB s (len bb))))) in *. clearbody a b. lia. }
  assert (L16 : 16 <= len (rawB s bb)).
  { unfold rawB. rewrite !len_app. pose proof (hdrB_length s (len bb) HR BL) as HL.
    assert (16 <= len (hdrB s (len bb))) by (unfold len at 1; lia). lia. }
  apply FramingProofs.wellframed_from_frame_len; [exact L16|].
  assert (LE : negb (Framing.is_big (rawB s bb)) = s_le s).
  { destruct HR as (Ht & Hfl & Hs). unfold rawB. rewrite (hdrB_eq s (len bb) Ht Hfl Hs BL). destruct (s_le s); reflexivity. }
  rewrite LE. apply frame_len_rawB; assumption.
Qed.

Lemma wire_enc_wellframed fuel m :
  hdr_ok m -> fits m -> (4 <= fuel)%nat -> FramingSpec.wellframed (wire_enc fuel m).
Proof.
  intros H F Hf. rewrite (wire_enc_eq fuel m H F Hf).
  apply wellframed_rawB; [apply hdr_ranges_b; exact H | exact F].
Qed.

(* ---------------------------------------------------------------------------
   4. the header part of parseMessage gives the message back                     *)

Lemma string_ok_utf8 s : string_ok s = true -> utf8_valid s = true.
Proof. unfold string_ok. intro H. apply andb_true_iff in H as [_ H]. exact H. Qed.

Lemma bfield_ok m a : hdr_ok m -> Forall (field_ok []) (bfield m a).
Proof.
  intros [? ? ? ? HP HI HM HE HR HD HS HG ? ? ?].
  destruct a; cbn [bfield]; unfold opt_field.
  - destruct (g_path m) as [s|]; constructor; [|constructor]. cbn in HP.
    repeat split; try (cbn; lia). cbn. exact (string_ok_utf8 s (path_string_ok s HP)).
  - destruct (g_interface m) as [s|]; constructor; [|constructor].
    repeat split; try (cbn; lia). cbn. exact (string_ok_utf8 s HI).
  - destruct (g_member m) as [s|]; constructor; [|constructor].
    repeat split; try (cbn; lia). cbn. exact (string_ok_utf8 s HM).
  - destruct (g_error_name m) as [s|]; constructor; [|constructor].
    repeat split; try (cbn; lia). cbn. exact (string_ok_utf8 s HE).
  - destruct (g_reply_serial m) as [n|]; cbn [option_map]; constructor; [|constructor].
    repeat split; try (cbn; lia); cbn; unfold int_range; cbn; lia.
  - destruct (g_destination m) as [s|]; constructor; [|constructor].
    repeat split; try (cbn; lia). cbn. exact (string_ok_utf8 s HD).
  - destruct (g_sender m) as [s|]; constructor; [|constructor].
    repeat split; try (cbn; lia). cbn. exact (string_ok_utf8 s HS).
  - destruct (g_signature m) as [s|]; constructor; [|constructor]. cbn in HG. unfold sig_ok in HG.
    apply andb_true_iff in HG as [A1 A2]. apply Nat.leb_le in A2.
    repeat split; try (cbn; lia). cbn. exact A1.
  - constructor.
Qed.

Lemma bfields_ok m : hdr_ok m -> Forall (field_ok []) (bfields m).
Proof.
  intro H. unfold bfields. induction (hattrs (g_type m)) as [|a l IH]; [constructor|].
  cbn [flat_map]. apply Forall_app. split; [apply bfield_ok; exact H | exact IH].
Qed.

Lemma wt_hdr_b m blen : hdr_ok m -> blen < two32 -> wt_seq [] hdr_ts (hdr_ws (smsg_of_b m) blen).
Proof.
  intros H Hb. pose proof (bfields_ok m H) as Hfs. destruct H as [? T FL SR ? ? ? ? ? ? ? ? ? ? ?].
  unfold hdr_ts, hdr_ws. cbn [wt_seq smsg_of_b s_le s_type s_flags s_serial s_fields].
  repeat split; try (cbn; lia); try (unfold two32 in *; cbn; lia).
  change (wt_all [] (TStruct [TByte; TVariant]) (map field_w (bfields m))).
  induction Hfs as [|[[code t] w] r (Hc & Hl & Hw & _) Hr IH]; [exact I|].
  cbn [map wt_all]. split; [|exact IH].
  cbn [field_w]. rewrite wt_struct_unfold. split; [discriminate|].
  split; [cbn; lia|]. split; [|exact I]. cbn [wt]. auto.
Qed.

Lemma wire_dec_rawB fuel m :
  hdr_ok m -> fits m -> (4 <= fuel)%nat ->
  wire_dec fuel (rawB (smsg_of_b m) (g_body m)) = Some m.
Proof.
  intros H F Hf. pose proof (hdr_ranges_b m H) as HR.
  set (s := smsg_of_b m) in *. set (bb := g_body m) in *.
  change (len (rawB s bb) <= 134217728) in F.
  assert (HH : len (hdrB s (len bb)) < two32 /\ len bb < two32).
  { unfold rawB in F. rewrite !len_app in F. unfold two32.
    set (a := len (hdrB s (len bb))) in *. set (b := len (padding 8 (length (hdrB s (len bb))))) in *. clearbody a b. lia. }
  destruct HH as [HH BL].
  unfold wire_dec.
  assert (E0 : exists r, rawB s bb = 108 :: r).
  { destruct HR as (Ht & Hfl & Hs). unfold rawB. rewrite (hdrB_eq s (len bb) Ht Hfl Hs BL). eexists. reflexivity. }
  destruct E0 as [r0 E0]. rewrite E0. change (108 =? 108) with true. rewrite <- E0. clear E0 r0.
  assert (Hu : m_unmarshal fuel header_format (rawB s bb) 0 true (Some [])
               = Ok (len (hdrB s (len bb)), readback_seq [] hdr_ts (hdr_ws s (len bb)))).
  { pose proof (unmarshal_inverts [] true hdr_ts (hdr_ws s (len bb)) []
                  (padding 8 (length (hdrB s (len bb))) ++ bb) fuel (wt_hdr_b m _ H BL)) as U.
    cbn [length app] in U. change (len []) with 0 in U.
    change (enc_seq hdr_ts (hdr_ws s (len bb)) 0 true) with (hdrB s (len bb)) in U.
    apply U; [exact (Nat.le_trans _ _ _ (wdepth_hdr_b m (len bb)) Hf) | exact HH]. }
  rewrite Hu. rewrite readback_hdr.
  cbn [s smsg_of_b s_le s_type s_flags s_serial s_fields].
  assert (Hmt : negb ((1 <=? Z.of_N (g_type m))%Z && (Z.of_N (g_type m) <=? 4)%Z) = false).
  { destruct H as [_ T _ _ _ _ _ _ _ _ _ _ _ _ _].
    destruct (Z.leb_spec 1 (Z.of_N (g_type m))), (Z.leb_spec (Z.of_N (g_type m)) 4); try lia; reflexivity. }
  rewrite Hmt. rewrite (set_fields_spec [] (bfields m) []). cbn [app].
  assert (Hskip : skipn (N.to_nat (N.min (len (hdrB s (len bb)) + pad_len 8 (len (hdrB s (len bb)))) (len (rawB s bb))))
                        (rawB s bb) = bb).
  { change 8 with (N.of_nat 8). unfold len at 3. rewrite (pad_len_spec 8) by (unfold good_align; auto).
    unfold rawB. rewrite app_assoc. apply skipn_all_app.
    rewrite !len_app, N.min_l by lia. unfold len. rewrite app_length. lia. }
  rewrite Hskip. rewrite !N2Z.id.
  (* the fields *)
  clear Hu Hskip Hmt HH F HR BL. subst s bb.
  destruct H as [L T FL SR _ _ _ _ _ _ _ _ AR SG TB].
  destruct m as [le ty fl se pa ifc me er rs de sn sg bd ar sgn]. cbn in *. subst le ar sgn.
  assert (TY : ty = 1 \/ ty = 2 \/ ty = 3 \/ ty = 4) by lia.
  unfold written, keep, has in TB. cbn in TB.
  destruct TY as [TY|[TY|[TY|TY]]]; subst ty; cbn in TB; injection TB as; subst;
    unfold bfields, attrs_of_fields, field_str; cbn [hattrs flat_map bfield g_type g_path g_interface g_member
      g_error_name g_reply_serial g_destination g_sender g_signature option_map]; unfold opt_field;
    repeat match goal with x : option _ |- _ => destruct x end;
    cbn; rewrite ?N2Z.id; reflexivity.
Qed.
