(* Proofs for C12, proxy layer with delayed daemon answers: which callbacks a
   signal reaches after ANY history of notifyOnSignal / cancelSignalNotification
   / answers / signals.

   Result.  "Called exactly for the ids in _signalRules" is FALSE in the model
   (and in the code, replayed through harness/c12.py AsyncRun): between
   cancelSignalNotification(id) and the arrival of the RemoveMatch reply the
   rule is still in conn.match_rules and in the router, the daemon still holds
   its text, and a signal reaches the cancelled callback
   (`served_full_refuted_w`).  What holds for all histories
   (`proxy_signal_served`): the ids called are exactly the subscribed ids plus
   the ids whose RemoveMatch is still unanswered, each once, when the signal
   satisfies the proxy's rule and passes the signature gate, and none otherwise;
   a cancelled id is never subscribed again and is silent for ever once its
   RemoveMatch has been answered (`cancelled_then_silent`). *)
From Tx Require Import Lib.Base Lib.Sexp Model.Router Spec.MatchSpec Spec.DaemonSpec Model.ClientMatch Model.AsyncMatch.
From Tx Require Import Proofs.RouterProofs Proofs.RuleTextProofs Proofs.ClientMatchProofs Proofs.AsyncMatchProofs.
From Coq Require Import Permutation.
Local Open Scope N_scope.

(* what a signal emitted after the history h shows *)
Definition asignal_obs (prule : rule) (declared : option str) (h : list aevent) (m : msg) : aobs :=
  snd (astep prule declared (arun prule declared h) (XSignal m)).
Definition asignal_forwarded (prule : rule) (declared : option str) (h : list aevent) (m : msg) : bool :=
  match asignal_obs prule declared h m with OASignal f _ => f | _ => false end.
Definition asignal_called (prule : rule) (declared : option str) (h : list aevent) (m : msg) : list (nat * N) :=
  match asignal_obs prule declared h m with OASignal _ l => l | _ => [] end.

Lemma set_remove_keep i j l : In j l -> j <> i -> In j (set_remove i l).
Proof.
  unfold set_remove. intros H N. apply filter_In. split; [exact H|].
  apply negb_true_iff. apply Nat.eqb_neq. intro X. apply N. symmetry; exact X.
Qed.

Lemma set_add_in i j l : In j (set_add i l) <-> In j l \/ j = i.
Proof.
  unfold set_add. destruct (mem i l) eqn:M.
  - split; [intro H; left; exact H|]. intros [H| ->]; [exact H | apply mem_spec; exact M].
  - rewrite in_app_iff. cbn [In]. split.
    + intros [H|[H|[]]]; [left; exact H | right; symmetry; exact H].
    + intros [H|H]; [left; exact H | right; left; symmetry; exact H].
Qed.

Lemma alist_del_in_sub {V} (l : list (nat * V)) j x : In x (alist_del Nat.eqb j l) -> In x l.
Proof.
  induction l as [|[k y] l IH]; cbn [alist_del]; [tauto|].
  destruct (Nat.eqb j k); [intro H; right; exact H|].
  intros [H|H]; [left; exact H | right; apply IH; exact H].
Qed.

Lemma filter_proxy (ids : list nat) (b : bool) (l : list (nat * N)) :
  (forall it, In it l -> In (fst it) ids) ->
  filter (fun it => if mem (fst it) ids then b else true) l = if b then l else [].
Proof.
  intros H. destruct b.
  - apply filter_true_. intros x _. destruct (mem (fst x) ids); reflexivity.
  - induction l as [|x l IH]; [reflexivity|]. cbn [filter].
    rewrite (proj2 (mem_spec (fst x) ids)) by (apply H; left; reflexivity).
    apply IH. intros it Hin. apply H. right; exact Hin.
Qed.

Section Served.
  Variable prule : rule.
  Variable declared : option str.
  Hypothesis prule_good : good_rule prule.
  Hypothesis prule_reg : registrable prule = true.

  Notation stepf := (fun s e => fst (astep prule declared s e)).

  (* beside `inv` of AsyncMatchProofs.v *)
  Record xinv (s : astate) : Prop := {
    x_rules : forall i c k, In (i, (c, k)) (rules (cl_router (a_client s))) -> compile prule = Ok c;
    x_proxy : forall i, In i (map fst (rules (cl_router (a_client s)))) -> In i (a_proxy_ids s);
    x_texts : forall i t, In (i, t) (cl_texts (a_client s)) -> t = rule_string prule;
    x_cover : forall i, In i (map fst (cl_texts (a_client s))) -> In i (a_subs s) \/ In i (pdel_ids (a_pending s));
    x_px : forall r k t px, In (PAdd r k t px) (a_pending s) -> px = true
  }.

  Lemma xinv_init : xinv ainit.
  Proof. constructor; cbn; intros; contradiction. Qed.

  Lemma xstep s e : inv prule s -> xinv s -> proxy_event e -> xinv (fst (astep prule declared s e)).
  Proof.
    intros I X He. destruct e as [r k|j|k|j| |m]; cbn [proxy_event] in He; try contradiction; cbn [astep].
    - (* notifyOnSignal *)
      cbn [fst]. destruct X as [x_rules0 x_proxy0 x_texts0 x_cover0 x_px0]. constructor; cbn [a_client a_pending a_daemon a_subs a_proxy_ids]; try assumption.
      + intros i H. destruct (x_cover0 i H) as [A|A]; [left; exact A | right].
        rewrite pdel_ids_app. apply in_or_app. left; exact A.
      + intros r k' t px H. apply in_app_iff in H as [H|[H|[]]]; [eauto|].
        injection H as E1 E2 E3 E4. symmetry; exact E4.
    - (* cancelSignalNotification *)
      destruct (mem j (a_subs s)) eqn:M; [|exact X].
      unfold issue_del, client_del_text.
      destruct (alist_get Nat.eqb j (cl_texts (a_client s))) as [t|] eqn:G; [|exact X].
      cbn [fst]. destruct X as [x_rules0 x_proxy0 x_texts0 x_cover0 x_px0]. constructor; cbn [a_client a_pending a_daemon a_subs a_proxy_ids]; try assumption.
      + intros i H. rewrite pdel_ids_app, in_app_iff. change (pdel_ids [PDel j t]) with [j].
        destruct (Nat.eq_dec i j) as [->|N]; [right; right; left; reflexivity|].
        destruct (x_cover0 i H) as [A|A]; [left; apply set_remove_keep; assumption | right; left; exact A].
      + intros r k t' px H. apply in_app_iff in H as [H|[H|[]]]; [eauto | discriminate].
    - (* an answer *)
      destruct (a_pending s) as [|[r k t px|j t] rest] eqn:EP; [exact X | |]; destruct I as [i_wf0 i_keys0 i_perm0 i_pdel0 i_pdel_nodup0 i_padd0 i_subs0]; destruct X as [x_rules0 x_proxy0 x_texts0 x_cover0 x_px0].
      + (* AddMatch answered *)
        destruct (i_padd0 r k t px) as (-> & -> & Hk); [rewrite EP; left; reflexivity|].
        assert (Epx : px = true) by (apply (x_px0 prule k (rule_string prule) px); rewrite EP; left; reflexivity).
        subst px.
        unfold d_add. rewrite (rule_of_text_good prule prule_good), prule_reg.
        unfold client_add_ok, add_match, add_match_with.
        destruct (proj1 (compile_registrable prule) prule_reg) as [cc Ec]. rewrite Ec. cbn [fst].
        set (id := next_id (cl_router (a_client s))).
        assert (Hfresh : ~ In id (map fst (rules (cl_router (a_client s))))).
        { intro H. apply in_map_iff in H as ([i x] & Ei & Hin). cbn in Ei. subst i.
          apply (wf_lt _ i_wf0) in Hin. unfold id in Hin. lia. }
        assert (Hfresh' : ~ In id (map fst (cl_texts (a_client s)))) by (rewrite i_keys0; exact Hfresh).
        constructor; cbn [a_client a_pending a_daemon a_subs a_proxy_ids cl_router cl_texts rules].
        * intros i c k'. rewrite (alist_set_fresh (rules (cl_router (a_client s)))) by exact Hfresh.
          intros H. apply in_app_iff in H as [H|[H|[]]]; [eapply x_rules0; exact H|].
          injection H as E1 E2 E3. subst c. exact Ec.
        * intros i. rewrite (alist_set_fresh (rules (cl_router (a_client s)))) by exact Hfresh.
          rewrite map_app, in_app_iff. cbn [map fst In].
          intros [H|[H|[]]]; [right; apply x_proxy0; exact H | left; exact H].
        * intros i t. rewrite (alist_set_fresh (cl_texts (a_client s))) by exact Hfresh'.
          intros H. apply in_app_iff in H as [H|[H|[]]]; [eapply x_texts0; exact H|].
          injection H as E1 E2. symmetry; exact E2.
        * intros i. rewrite (alist_set_fresh (cl_texts (a_client s))) by exact Hfresh'.
          rewrite map_app, in_app_iff. cbn [map fst In]. intros [H|[H|[]]].
          -- destruct (x_cover0 i H) as [A|A]; [left; apply set_add_in; left; exact A | right].
             rewrite EP in A. exact A.
          -- left. apply set_add_in. right. symmetry; exact H.
        * intros r' k' t' px' H. apply (x_px0 r' k' t' px'). rewrite EP. right; exact H.
      + (* RemoveMatch answered *)
        assert (G : alist_get Nat.eqb j (cl_texts (a_client s)) = Some t) by (apply i_pdel0; rewrite EP; left; reflexivity).
        assert (Hin : In t (a_daemon s)).
        { apply (Permutation_in t (Permutation_sym i_perm0)). apply alist_get_some_in in G.
          apply in_map_iff. exists (j, t). split; [reflexivity | exact G]. }
        destruct (d_remove_in t _ Hin) as (d' & -> & Pd). unfold client_del_text. rewrite G. cbn [fst].
        assert (NDk : NoDup (map fst (cl_texts (a_client s)))) by (rewrite i_keys0; exact (wf_nodup _ i_wf0)).
        assert (Hsub : forall x, In x (rules (fst (del_match j (cl_router (a_client s))))) ->
                                 In x (rules (cl_router (a_client s)))).
        { intros x. unfold del_match. destruct (alist_get Nat.eqb j (rules (cl_router (a_client s)))); cbn [fst rules];
            [apply alist_del_in_sub | tauto]. }
        constructor; cbn [a_client a_pending a_daemon a_subs a_proxy_ids client_del_ok cl_router cl_texts].
        * intros i c k H. apply Hsub in H. eapply x_rules0; exact H.
        * intros i H. apply x_proxy0. apply in_map_iff in H as (x & E & H). apply Hsub in H.
          apply in_map_iff. exists x. split; [exact E | exact H].
        * intros i t' H. apply alist_del_in_sub in H. eapply x_texts0; exact H.
        * intros i H. rewrite (alist_del_filter (cl_texts (a_client s))) in H by exact NDk.
          apply in_map_iff in H as ([i' x] & E & H). cbn [fst] in E. subst i'.
          apply filter_In in H as [H N]. cbn [fst] in N. apply negb_true_iff in N. apply Nat.eqb_neq in N.
          assert (K : In i (map fst (cl_texts (a_client s)))) by (apply in_map_iff; exists (i, x); split; [reflexivity | exact H]).
          destruct (x_cover0 i K) as [A|A]; [left; exact A | right].
          rewrite EP in A. change (pdel_ids (PDel j t :: rest)) with (j :: pdel_ids rest) in A.
          destruct A as [A|A]; [congruence | exact A].
        * intros r' k' t' px' H. apply (x_px0 r' k' t' px'). rewrite EP. right; exact H.
    - (* a signal *)
      destruct (d_forwards (a_daemon s) m); [|exact X].
      destruct I as [i_wf0 i_keys0 i_perm0 i_pdel0 i_pdel_nodup0 i_padd0 i_subs0]. rewrite (route_message_passive m _ i_wf0). cbn [fst]. destruct X as [x_rules0 x_proxy0 x_texts0 x_cover0 x_px0].
      constructor; cbn [a_client a_pending a_daemon a_subs a_proxy_ids cl_router cl_texts]; assumption.
  Qed.

  Lemma run_both h : forall s, inv prule s -> xinv s -> Forall proxy_event h ->
    inv prule (fold_left stepf h s) /\ xinv (fold_left stepf h s).
  Proof.
    induction h as [|e h IH]; intros s I X F; [split; assumption|].
    inversion F as [|? ? He F']; subst. cbn [fold_left].
    apply IH; [apply step_inv; assumption | apply xstep; assumption | exact F'].
  Qed.

  Lemma arun_both h : Forall proxy_event h -> inv prule (arun prule declared h) /\ xinv (arun prule declared h).
  Proof. intros F. unfold arun. apply run_both; [apply inv_init | apply xinv_init | exact F]. Qed.

  (* ---- a signal at a state satisfying the invariants ---------------------------------- *)

  (* match_rules = subscribed ids + ids with a RemoveMatch in flight *)
  Lemma keys_cover s : inv prule s -> xinv s ->
    forall i, In i (map fst (cl_texts (a_client s))) <-> (In i (a_subs s) \/ In i (pdel_ids (a_pending s))).
  Proof.
    intros I X i. split; [apply (x_cover _ X)|]. intros [H|H].
    - exact (proj1 (i_subs _ _ I i H)).
    - apply pdel_ids_in in H as (t & H). eapply alist_get_keys. exact (i_pdel _ _ I i t H).
  Qed.

  Lemma forwards_iff s m : inv prule s -> xinv s ->
    d_forwards (a_daemon s) m = true <->
    (exists i, In i (map fst (cl_texts (a_client s)))) /\ MatchSpec.matches prule m = true.
  Proof.
    intros I X. unfold d_forwards. rewrite existsb_exists. split.
    - intros (t & Ht & Hm). apply (Permutation_in _ (i_perm _ _ I)) in Ht.
      apply in_map_iff in Ht as ([i t'] & E & Hin). cbn [snd] in E. subst t'.
      pose proof (x_texts _ X _ _ Hin) as Et. subst t.
      rewrite (rule_of_text_good prule prule_good), prule_reg in Hm. split; [|exact Hm].
      exists i. apply in_map_iff. exists (i, rule_string prule). split; [reflexivity | exact Hin].
    - intros ((i & Hi) & Hm). apply in_map_iff in Hi as ([i' t] & E & Hin).
      exists t. split.
      + apply (Permutation_in _ (Permutation_sym (i_perm _ _ I))). apply in_map_iff. exists (i', t). split; [reflexivity | exact Hin].
      + rewrite (x_texts _ X _ _ Hin), (rule_of_text_good prule prule_good), prule_reg. exact Hm.
  Qed.

  Lemma flat_map_all (l : list (nat * (crule * cbk))) m :
    (forall i c k, In (i, (c, k)) l -> compile prule = Ok c) ->
    flat_map (fun e => if rule_match (fst (snd e)) m then [(fst e, cb_tag (snd (snd e)))] else []) l =
    if MatchSpec.matches prule m then map (fun e => (fst e, cb_tag (snd (snd e)))) l else [].
  Proof.
    induction l as [|[i [c k]] l IH]; intros H; cbn [flat_map map fst snd].
    - destruct (MatchSpec.matches prule m); reflexivity.
    - rewrite IH by (intros; eapply H; right; eassumption).
      rewrite (rule_match_compiled prule c m) by (eapply H; left; reflexivity).
      destruct (MatchSpec.matches prule m); reflexivity.
  Qed.

  Definition gate_b (m : msg) : bool := match gate declared m with Some _ => true | None => false end.

  Lemma signal_obs s m : inv prule s -> xinv s ->
    snd (astep prule declared s (XSignal m)) =
      OASignal (d_forwards (a_daemon s) m)
        (if d_forwards (a_daemon s) m && MatchSpec.matches prule m && gate_b m
         then map (fun e => (fst e, cb_tag (snd (snd e)))) (rules (cl_router (a_client s))) else []).
  Proof.
    intros I X. cbn [astep]. destruct (d_forwards (a_daemon s) m) eqn:F; [|reflexivity].
    rewrite (route_message_passive m _ (i_wf _ _ I)). cbn [snd].
    rewrite (flat_map_all _ m (x_rules _ X)). rewrite proxy_gate. fold (gate_b m).
    rewrite filter_proxy.
    - cbn [andb]. destruct (MatchSpec.matches prule m), (gate_b m); reflexivity.
    - intros it Hin. apply (x_proxy _ X). destruct (MatchSpec.matches prule m); [|destruct Hin].
      apply in_map_iff in Hin as (e & <- & He). cbn [fst]. apply in_map_iff. exists e; split; [reflexivity | exact He].
  Qed.

  Lemma gate_b_spec m : gate_b m = true <-> gate declared m <> None.
  Proof. unfold gate_b. destruct (gate declared m); split; intro H; try reflexivity; try discriminate; congruence. Qed.

  Theorem proxy_signal_served h m :
    Forall proxy_event h ->
    let s := arun prule declared h in
    (asignal_forwarded prule declared h m = true <->
       exists t r, In t (a_daemon s) /\ rule_of_text t = Some r /\ MatchSpec.matches r m = true) /\
    (asignal_forwarded prule declared h m = true <->
       (exists i, In i (a_subs s) \/ In i (pdel_ids (a_pending s))) /\ MatchSpec.matches prule m = true) /\
    NoDup (map fst (asignal_called prule declared h m)) /\
    (forall i, In i (map fst (asignal_called prule declared h m)) <->
               (In i (a_subs s) \/ In i (pdel_ids (a_pending s))) /\
               MatchSpec.matches prule m = true /\ gate declared m <> None).
  Proof.
    intros F. cbv zeta. destruct (arun_both h F) as [I X].
    unfold asignal_forwarded, asignal_called, asignal_obs. rewrite (signal_obs _ m I X).
    set (s := arun prule declared h) in *.
    assert (Kmap : map fst (map (fun e : nat * (crule * cbk) => (fst e, cb_tag (snd (snd e)))) (rules (cl_router (a_client s))))
                   = map fst (cl_texts (a_client s))).
    { rewrite map_map. cbn [fst]. symmetry. exact (i_keys _ _ I). }
    split; [|split; [|split]].
    - unfold d_forwards. rewrite existsb_exists. split.
      + intros (t & Ht & Hm). destruct (rule_of_text t) as [r|] eqn:E; [|discriminate Hm].
        exists t, r. auto.
      + intros (t & r & Ht & E & Hm). exists t. split; [exact Ht|]. rewrite E. exact Hm.
    - rewrite (forwards_iff s m I X). split.
      + intros ((i & Hi) & Hm). split; [|exact Hm]. exists i. apply (keys_cover s I X). exact Hi.
      + intros ((i & Hi) & Hm). split; [|exact Hm]. exists i. apply (keys_cover s I X). exact Hi.
    - destruct (d_forwards (a_daemon s) m && MatchSpec.matches prule m && gate_b m); [|constructor].
      rewrite Kmap, (i_keys _ _ I). exact (wf_nodup _ (i_wf _ _ I)).
    - intros i. destruct (d_forwards (a_daemon s) m && MatchSpec.matches prule m && gate_b m) eqn:C.
      + rewrite Kmap. apply andb_prop in C as [C Cg]. apply andb_prop in C as [Cf Cm].
        rewrite (keys_cover s I X i). split; [intros H; split; [exact H | split; [exact Cm | apply gate_b_spec; exact Cg]] | tauto].
      + split; [intros []|]. intros (Hi & Hm & Hg). exfalso.
        assert (Ff : d_forwards (a_daemon s) m = true).
        { apply (forwards_iff s m I X). split; [|exact Hm]. exists i. apply (keys_cover s I X). exact Hi. }
        apply gate_b_spec in Hg. rewrite Ff, Hm, Hg in C. discriminate C.
  Qed.

  (* ---- a cancelled id ------------------------------------------------------------------ *)

  Definition below (i : nat) (s : astate) : Prop :=
    (i < next_id (cl_router (a_client s)))%nat /\ ~ In i (a_subs s).

  Lemma below_step i s e : inv prule s -> proxy_event e -> below i s -> below i (fst (astep prule declared s e)).
  Proof.
    intros I He [L NS]. destruct e as [r k|j|k|j| |m]; cbn [proxy_event] in He; try contradiction; cbn [astep].
    - split; assumption.
    - destruct (mem j (a_subs s)); [|split; assumption].
      unfold issue_del. destruct (client_del_text j (a_client s)); cbn [fst]; [|split; assumption].
      split; cbn [a_client a_subs]; [exact L|]. intro H. apply set_remove_in in H as [H _]. exact (NS H).
    - destruct (a_pending s) as [|[r k t px|j t] rest]; [split; assumption| |].
      + destruct (d_add t (a_daemon s)); [|split; assumption].
        unfold client_add_ok, add_match, add_match_with. destruct (compile r) as [c|er]; cbn [fst]; [|split; assumption].
        split; cbn [a_client a_subs cl_router next_id]; [lia|].
        destruct px; [|exact NS]. intro H. apply set_add_in in H as [H|H]; [exact (NS H) | lia].
      + destruct (d_remove t (a_daemon s)); [|split; assumption].
        destruct (client_del_text j (a_client s)); cbn [fst]; [|split; assumption].
        split; [|exact NS]. cbn [a_client client_del_ok cl_router]. unfold del_match.
        destruct (alist_get Nat.eqb j (rules (cl_router (a_client s)))); cbn [fst next_id]; exact L.
    - destruct (d_forwards (a_daemon s) m); [|split; assumption].
      rewrite (route_message_passive m _ (i_wf _ _ I)). cbn [fst]. split; assumption.
  Qed.

  Lemma run_below i h : forall s, inv prule s -> below i s -> Forall proxy_event h -> below i (fold_left stepf h s).
  Proof.
    induction h as [|e h IH]; intros s I B F; [exact B|].
    inversion F as [|? ? He F']; subst. cbn [fold_left].
    apply IH; [apply step_inv; assumption | apply below_step; assumption | exact F'].
  Qed.

  Theorem cancelled_then_silent h1 i h2 m :
    Forall proxy_event (h1 ++ XCancel i :: h2) -> In i (a_subs (arun prule declared h1)) ->
    let s := arun prule declared (h1 ++ XCancel i :: h2) in
    ~ In i (a_subs s) /\
    (~ In i (pdel_ids (a_pending s)) ->
     ~ In i (map fst (asignal_called prule declared (h1 ++ XCancel i :: h2) m))).
  Proof.
    intros F Hs. cbv zeta.
    pose proof (proxy_signal_served _ m F) as (_ & _ & _ & Hc). cbv zeta in Hc.
    apply Forall_app in F as [F1 F2]. inversion F2 as [|? ? _ F2']; subst.
    destruct (arun_both h1 F1) as [I1 X1].
    assert (B : below i (arun prule declared (h1 ++ XCancel i :: h2))).
    { unfold arun. rewrite fold_left_app. cbn [fold_left]. fold (arun prule declared h1).
      set (s1 := arun prule declared h1) in *.
      apply run_below; [apply step_inv; [assumption | assumption | exact I1 | exact I] | | exact F2'].
      destruct (i_subs _ _ I1 i Hs) as [Hk _].
      assert (L : (i < next_id (cl_router (a_client s1)))%nat).
      { rewrite (i_keys _ _ I1) in Hk. apply in_map_iff in Hk as ([i' x] & E & Hin). cbn [fst] in E. subst i'.
        exact (wf_lt _ (i_wf _ _ I1) _ _ Hin). }
      cbn [astep]. rewrite (proj2 (mem_spec i (a_subs s1)) Hs). unfold issue_del, client_del_text.
      destruct (alist_get Nat.eqb i (cl_texts (a_client s1))) as [t|] eqn:G.
      - cbn [fst]. split; cbn [a_client a_subs]; [exact L | apply set_remove_not_in].
      - exfalso. apply alist_get_none in G. exact (G Hk). }
    destruct B as [_ NS]. split; [exact NS|].
    intros NP H. apply Hc in H as [[H|H] _]; [exact (NS H) | exact (NP H)].
  Qed.
End Served.

(* ---- the statement keyed on _signalRules alone is false ----------------------------------- *)

(* two subscriptions answered, the first cancelled, its RemoveMatch not yet answered *)
Definition w_cancel_pending : list aevent :=
  [ XNotify (passive 1 false); XNotify (passive 2 false); XAnswer; XAnswer; XCancel 0%nat ].

Lemma served_full_refuted_w :
  Forall proxy_event w_cancel_pending /\ good_rule w_prule /\ registrable w_prule = true /\
  a_subs (arun w_prule None w_cancel_pending) = [1%nat] /\
  a_pending (arun w_prule None w_cancel_pending) = [PDel 0 w_ptext] /\
  MatchSpec.matches w_prule w_tick = true /\ gate None w_tick = Some [] /\
  asignal_called w_prule None w_cancel_pending w_tick = [(0%nat, 1); (1%nat, 2)] /\
  ~ (forall i, In i (map fst (asignal_called w_prule None w_cancel_pending w_tick)) <->
               In i (a_subs (arun w_prule None w_cancel_pending)) /\
               MatchSpec.matches w_prule w_tick = true /\ gate None w_tick <> None).
Proof.
  assert (E : asignal_called w_prule None w_cancel_pending w_tick = [(0%nat, 1); (1%nat, 2)]) by (vm_compute; reflexivity).
  assert (E2 : a_subs (arun w_prule None w_cancel_pending) = [1%nat]) by (vm_compute; reflexivity).
  split; [repeat constructor|]. split; [split; vm_compute; reflexivity|].
  split; [vm_compute; reflexivity|]. split; [exact E2|]. split; [vm_compute; reflexivity|].
  split; [vm_compute; reflexivity|]. split; [vm_compute; reflexivity|]. split; [exact E|].
  intros H. pose proof (proj1 (H 0%nat)) as A. rewrite E, E2 in A.
  destruct A as [[A|[]] _]; [left; reflexivity | discriminate A].
Qed.

(* non-vacuity: the signal arrives while the cancel is pending, the reply
   arrives, the signal arrives again; with a declared signature the signal
   does not carry, it is forwarded and nobody is called *)
Definition w_cancel_race : list aevent := w_cancel_pending ++ [XSignal w_tick; XAnswer; XSignal w_tick].

Lemma w_cancel_race_ok :
  Forall proxy_event w_cancel_race /\ good_rule w_prule /\ registrable w_prule = true /\
  atrace w_prule None w_cancel_race =
    [ OWrote [WAdd w_ptext] (Ok tt); OWrote [WAdd w_ptext] (Ok tt); OAnsAdd (Ok 0%nat); OAnsAdd (Ok 1%nat);
      OWrote [WRemove w_ptext] (Ok tt);
      OASignal true [(0%nat, 1); (1%nat, 2)]; OAnsDel (Ok tt); OASignal true [(1%nat, 2)] ] /\
  In 0%nat (a_subs (arun w_prule None (firstn 4 w_cancel_race))) /\
  a_subs (arun w_prule None w_cancel_pending) = [1%nat] /\
  pdel_ids (a_pending (arun w_prule None w_cancel_pending)) = [0%nat] /\
  a_subs (arun w_prule None w_cancel_race) = [1%nat] /\
  a_pending (arun w_prule None w_cancel_race) = [] /\
  asignal_forwarded w_prule (Some [115]) w_cancel_pending w_tick = true /\
  asignal_called w_prule (Some [115]) w_cancel_pending w_tick = [].
Proof.
  split; [repeat constructor|]. split; [split; vm_compute; reflexivity|].
  split; [vm_compute; reflexivity|]. split; [vm_compute; reflexivity|].
  split; [vm_compute; left; reflexivity|].
  vm_compute. repeat split; reflexivity.
Qed.

(* the statements in the order of Props/C12.v *)
Theorem proxy_signal_served_stmt prule declared h m :
  good_rule prule -> registrable prule = true -> Forall proxy_event h ->
  let s := arun prule declared h in
  (asignal_forwarded prule declared h m = true <->
     exists t r, In t (a_daemon s) /\ rule_of_text t = Some r /\ MatchSpec.matches r m = true) /\
  (asignal_forwarded prule declared h m = true <->
     (exists i, In i (a_subs s) \/ In i (pdel_ids (a_pending s))) /\ MatchSpec.matches prule m = true) /\
  NoDup (map fst (asignal_called prule declared h m)) /\
  (forall i, In i (map fst (asignal_called prule declared h m)) <->
             (In i (a_subs s) \/ In i (pdel_ids (a_pending s))) /\
             MatchSpec.matches prule m = true /\ gate declared m <> None).
Proof. intros G R F. exact (proxy_signal_served prule declared G R h m F). Qed.

Theorem cancelled_then_silent_stmt prule declared h1 i h2 m :
  good_rule prule -> registrable prule = true ->
  Forall proxy_event (h1 ++ XCancel i :: h2) -> In i (a_subs (arun prule declared h1)) ->
  let s := arun prule declared (h1 ++ XCancel i :: h2) in
  ~ In i (a_subs s) /\
  (~ In i (pdel_ids (a_pending s)) ->
   ~ In i (map fst (asignal_called prule declared (h1 ++ XCancel i :: h2) m))).
Proof. intros G R F H. exact (cancelled_then_silent prule declared G R h1 i h2 m F H). Qed.
